#!/bin/sh
# Builds the fact extractor (libTooling, clang 14) from files on disk only.  ~25 s.
set -e
cd "$(dirname "$0")"
mkdir -p out/bin evidence
python3 - <<'PY'
import sys
sys.path.insert(0, '.')
from cifsa import build
build.ensure_extractor()
print("cifsa-extract ready:", build.EXTRACT_BIN)
PY
