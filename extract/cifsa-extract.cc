// cifsa-extract: libTooling fact extractor for the cif_api static checks.
//
// For one translation unit it writes a JSON document with
//   functions : per function definition, a clang::CFG (all sub-expressions are
//               CFG elements) whose blocks carry *root* expression trees;
//               sub-trees evaluated in a different block are marked "ext"
//   globals   : file-scope variables with initialiser trees
//   enums, records, macros (object- and function-like, body text), decls
//
// Usage: cifsa-extract <out.json> <source.c> -- <compiler flags>
//
// Nothing here judges anything; all rules live in the Python engine.

#include "clang/AST/ASTConsumer.h"
#include "clang/AST/ASTContext.h"
#include "clang/AST/Expr.h"
#include "clang/AST/RecursiveASTVisitor.h"
#include "clang/AST/StmtVisitor.h"
#include "clang/Analysis/CFG.h"
#include "clang/Frontend/CompilerInstance.h"
#include "clang/Frontend/FrontendAction.h"
#include "clang/Lex/Lexer.h"
#include "clang/Lex/MacroInfo.h"
#include "clang/Lex/PPCallbacks.h"
#include "clang/Lex/Preprocessor.h"
#include "clang/Tooling/CompilationDatabase.h"
#include "clang/Tooling/Tooling.h"
#include "llvm/Support/JSON.h"
#include "llvm/Support/raw_ostream.h"

#include <map>
#include <set>
#include <string>
#include <vector>

using namespace clang;
namespace json = llvm::json;

static std::string g_out;
static std::string g_root = "/repo";

namespace {

std::string latin1ToUtf8(llvm::StringRef bytes) {
  std::string out;
  for (unsigned char c : bytes) {
    if (c < 0x80) out.push_back((char)c);
    else { out.push_back((char)(0xC0 | (c >> 6))); out.push_back((char)(0x80 | (c & 0x3F))); }
  }
  return out;
}

struct Ctx {
  ASTContext *AC = nullptr;
  SourceManager *SM = nullptr;
  const LangOptions *LO = nullptr;

  std::string fileOf(SourceLocation L) const {
    if (L.isInvalid()) return "";
    SourceLocation E = SM->getExpansionLoc(L);
    llvm::StringRef f = SM->getFilename(E);
    return f.str();
  }
  bool inRepo(SourceLocation L) const {
    std::string f = fileOf(L);
    if (f.empty()) return false;
    if (f[0] != '/') return true; // relative path: given on the command line
    return f.compare(0, g_root.size(), g_root) == 0 || f.find("/usr/") != 0;
  }
  std::string shortFile(SourceLocation L) const {
    std::string f = fileOf(L);
    // keep path relative to the repo's src directory where possible
    size_t p = f.rfind("/src/");
    if (p != std::string::npos) return f.substr(p + 5);
    p = f.rfind('/');
    return p == std::string::npos ? f : f.substr(p + 1);
  }
  unsigned lineOf(SourceLocation L) const {
    if (L.isInvalid()) return 0;
    return SM->getExpansionLineNumber(L);
  }
  // macro *body* stack, innermost first (macro-argument hops are skipped)
  std::vector<std::string> macroStack(SourceLocation L) const {
    std::vector<std::string> st;
    int guard = 0;
    while (L.isValid() && L.isMacroID() && guard++ < 64) {
      if (SM->isMacroArgExpansion(L)) { L = SM->getImmediateSpellingLoc(L); continue; }
      llvm::StringRef n = Lexer::getImmediateMacroName(L, *SM, *LO);
      st.push_back(n.str());
      L = SM->getImmediateExpansionRange(L).getBegin();
    }
    return st;
  }
  std::string text(SourceRange R, unsigned maxlen = 160) const {
    if (R.isInvalid()) return "";
    CharSourceRange C = CharSourceRange::getTokenRange(SM->getExpansionRange(R).getAsRange());
    bool inv = false;
    llvm::StringRef s = Lexer::getSourceText(C, *SM, *LO, &inv);
    if (inv) return "";
    std::string o;
    bool sp = false;
    for (char c : s) {
      if (c == '\n' || c == '\t' || c == ' ' || c == '\r') { if (!sp) o.push_back(' '); sp = true; }
      else { o.push_back(c); sp = false; }
      if (o.size() >= maxlen) { o += "..."; break; }
    }
    return latin1ToUtf8(o);
  }
};

struct FnEmitter {
  Ctx &C;
  std::map<const Stmt *, int> ids;
  std::map<const Stmt *, int> elemBlock; // stmt -> block id in which it is a CFG element
  std::map<const Decl *, int> dids;
  int nextId = 1;
  int nextDid = 1;

  explicit FnEmitter(Ctx &c) : C(c) {}

  static const Stmt *strip(const Stmt *S) {
    while (S) {
      if (auto *P = dyn_cast<ParenExpr>(S)) { S = P->getSubExpr(); continue; }
      if (auto *I = dyn_cast<ImplicitCastExpr>(S)) { S = I->getSubExpr(); continue; }
      if (auto *F = dyn_cast<FullExpr>(S)) { S = F->getSubExpr(); continue; }
      break;
    }
    return S;
  }
  int idOf(const Stmt *S) {
    S = strip(S);
    auto it = ids.find(S);
    if (it != ids.end()) return it->second;
    return ids[S] = nextId++;
  }
  int didOf(const Decl *D) {
    D = D->getCanonicalDecl();
    auto it = dids.find(D);
    if (it != dids.end()) return it->second;
    return dids[D] = nextDid++;
  }
  int blockOf(const Stmt *S) {
    // a transparent wrapper may be the CFG element rather than the node itself
    const Stmt *T = S;
    while (T) {
      auto it = elemBlock.find(T);
      if (it != elemBlock.end()) return it->second;
      if (auto *P = dyn_cast<ParenExpr>(T)) { T = P->getSubExpr(); continue; }
      if (auto *I = dyn_cast<ImplicitCastExpr>(T)) { T = I->getSubExpr(); continue; }
      if (auto *F = dyn_cast<FullExpr>(T)) { T = F->getSubExpr(); continue; }
      break;
    }
    return -1;
  }

  void addLoc(json::Object &o, const Stmt *S) {
    SourceLocation L = S->getBeginLoc();
    if (auto *CE = dyn_cast<CallExpr>(S)) L = CE->getRParenLoc().isValid() ? CE->getBeginLoc() : L;
    if (auto *BO = dyn_cast<BinaryOperator>(S)) L = BO->getOperatorLoc();
    o["l"] = (int64_t)C.lineOf(L);
    std::string f = C.shortFile(L);
    o["f"] = f;
    auto ms = C.macroStack(L);
    if (!ms.empty()) {
      json::Array a;
      for (auto &m : ms) a.push_back(m);
      o["ms"] = std::move(a);
    }
  }
  std::string typeStr(QualType T) { return T.isNull() ? "" : T.getAsString(); }

  json::Value expr(const Stmt *S0, int rootBlock, bool parentExt) {
    if (!S0) return nullptr;
    // wrapper chain: remember whether any wrapper/inner is an element in another block
    int b = blockOf(S0);
    const Stmt *S = strip(S0);
    if (!S) return nullptr;
    bool ext = parentExt || (rootBlock >= 0 && b >= 0 && b != rootBlock);
    json::Object o;
    o["id"] = idOf(S);
    if (ext && !parentExt) o["ext"] = true;
    addLoc(o, S);
    if (auto *E = dyn_cast<Expr>(S)) {
      Expr::EvalResult R;
      if (!isa<IntegerLiteral>(E) && !isa<CharacterLiteral>(E) && !E->isValueDependent() &&
          E->getType()->isIntegralOrEnumerationType() &&
          E->EvaluateAsInt(R, *C.AC, Expr::SE_NoSideEffects)) {
        o["cv"] = R.Val.getInt().getExtValue();
      }
    }
    auto kid = [&](const Stmt *K) { return expr(K, rootBlock, ext); };

    if (auto *CE = dyn_cast<CallExpr>(S)) {
      o["k"] = "call";
      const FunctionDecl *FD = CE->getDirectCallee();
      if (FD) o["callee"] = FD->getNameAsString();
      else o["fn"] = kid(CE->getCallee());
      json::Array args;
      for (const Expr *A : CE->arguments()) args.push_back(kid(A));
      o["args"] = std::move(args);
      o["t"] = typeStr(CE->getType());
    } else if (auto *DR = dyn_cast<DeclRefExpr>(S)) {
      o["k"] = "ref";
      const ValueDecl *D = DR->getDecl();
      o["name"] = D->getNameAsString();
      if (isa<ParmVarDecl>(D)) { o["dk"] = "parm"; o["did"] = didOf(D); }
      else if (auto *VD = dyn_cast<VarDecl>(D)) {
        if (VD->isLocalVarDecl()) { o["dk"] = VD->isStaticLocal() ? "slocal" : "local"; o["did"] = didOf(D); }
        else o["dk"] = "global";
      } else if (isa<FunctionDecl>(D)) o["dk"] = "func";
      else if (auto *EC = dyn_cast<EnumConstantDecl>(D)) { o["dk"] = "enum"; o["cv"] = EC->getInitVal().getExtValue(); }
      else o["dk"] = "other";
      o["t"] = typeStr(DR->getType());
    } else if (auto *ME = dyn_cast<MemberExpr>(S)) {
      o["k"] = "member";
      o["name"] = ME->getMemberDecl()->getNameAsString();
      o["arrow"] = ME->isArrow();
      o["base"] = kid(ME->getBase());
      o["t"] = typeStr(ME->getType());
    } else if (auto *UO = dyn_cast<UnaryOperator>(S)) {
      o["k"] = "un";
      std::string op = UnaryOperator::getOpcodeStr(UO->getOpcode()).str();
      if (UO->isPostfix()) op = "post" + op;
      else if (UO->isIncrementDecrementOp()) op = "pre" + op;
      o["op"] = op;
      o["e"] = kid(UO->getSubExpr());
      o["t"] = typeStr(UO->getType());
    } else if (auto *CAO = dyn_cast<CompoundAssignOperator>(S)) {
      o["k"] = "asg";
      o["op"] = BinaryOperator::getOpcodeStr(CAO->getOpcode()).str();
      o["lhs"] = kid(CAO->getLHS());
      o["rhs"] = kid(CAO->getRHS());
      o["t"] = typeStr(CAO->getType());
    } else if (auto *BO = dyn_cast<BinaryOperator>(S)) {
      if (BO->isAssignmentOp()) o["k"] = "asg"; else o["k"] = "bin";
      o["op"] = BinaryOperator::getOpcodeStr(BO->getOpcode()).str();
      o["lhs"] = kid(BO->getLHS());
      o["rhs"] = kid(BO->getRHS());
      o["t"] = typeStr(BO->getType());
    } else if (auto *CO = dyn_cast<AbstractConditionalOperator>(S)) {
      o["k"] = "cond";
      o["c"] = kid(CO->getCond());
      o["then"] = kid(CO->getTrueExpr());
      o["else"] = kid(CO->getFalseExpr());
      o["t"] = typeStr(CO->getType());
    } else if (auto *IL = dyn_cast<IntegerLiteral>(S)) {
      o["k"] = "int";
      o["v"] = IL->getValue().getLimitedValue();
      if (IL->getValue().getBitWidth() <= 64) o["v"] = (int64_t)IL->getValue().getZExtValue();
    } else if (auto *CL = dyn_cast<CharacterLiteral>(S)) {
      o["k"] = "int";
      o["v"] = (int64_t)CL->getValue();
      o["char"] = true;
    } else if (auto *FL = dyn_cast<FloatingLiteral>(S)) {
      o["k"] = "float";
      o["v"] = FL->getValueAsApproximateDouble();
    } else if (auto *SL = dyn_cast<StringLiteral>(S)) {
      o["k"] = "str";
      if (SL->getCharByteWidth() == 1) o["v"] = latin1ToUtf8(SL->getBytes());
      else {
        json::Array a;
        for (unsigned i = 0; i < SL->getLength(); i++) a.push_back((int64_t)SL->getCodeUnit(i));
        o["units"] = std::move(a);
      }
      o["len"] = (int64_t)SL->getLength();
    } else if (auto *CS = dyn_cast<ExplicitCastExpr>(S)) {
      o["k"] = "cast";
      o["t"] = typeStr(CS->getType());
      o["e"] = kid(CS->getSubExpr());
    } else if (auto *AS = dyn_cast<ArraySubscriptExpr>(S)) {
      o["k"] = "index";
      o["base"] = kid(AS->getBase());
      o["idx"] = kid(AS->getIdx());
      o["t"] = typeStr(AS->getType());
    } else if (auto *UE = dyn_cast<UnaryExprOrTypeTraitExpr>(S)) {
      o["k"] = "sizeof";
      o["trait"] = (int64_t)UE->getKind();
      if (UE->isArgumentType()) o["of_type"] = typeStr(UE->getArgumentType());
      else { o["of"] = expr(UE->getArgumentExpr(), -1, true); o["of_type"] = typeStr(UE->getArgumentExpr()->getType()); }
    } else if (auto *ILE = dyn_cast<InitListExpr>(S)) {
      o["k"] = "init";
      json::Array a;
      for (const Expr *I : ILE->inits()) a.push_back(kid(I));
      o["elems"] = std::move(a);
      o["t"] = typeStr(ILE->getType());
    } else if (auto *RS = dyn_cast<ReturnStmt>(S)) {
      o["k"] = "ret";
      o["e"] = RS->getRetValue() ? kid(RS->getRetValue()) : json::Value(nullptr);
    } else if (auto *DS = dyn_cast<DeclStmt>(S)) {
      o["k"] = "decl";
      json::Array a;
      for (const Decl *D : DS->decls()) {
        if (auto *VD = dyn_cast<VarDecl>(D)) {
          json::Object v;
          v["name"] = VD->getNameAsString();
          v["did"] = didOf(VD);
          v["t"] = typeStr(VD->getType());
          v["static"] = VD->isStaticLocal();
          v["init"] = VD->getInit() ? kid(VD->getInit()) : json::Value(nullptr);
          a.push_back(std::move(v));
        }
      }
      o["vars"] = std::move(a);
    } else if (auto *CLE = dyn_cast<CompoundLiteralExpr>(S)) {
      o["k"] = "complit";
      o["e"] = kid(CLE->getInitializer());
      o["t"] = typeStr(CLE->getType());
    } else {
      o["k"] = "other";
      o["cls"] = S->getStmtClassName();
      json::Array a;
      for (const Stmt *K : S->children()) if (K) a.push_back(kid(K));
      o["kids"] = std::move(a);
      if (auto *E = dyn_cast<Expr>(S)) o["t"] = typeStr(E->getType());
    }
    return json::Value(std::move(o));
  }

  void collectDesc(const Stmt *S, std::set<const Stmt *> &out) {
    for (const Stmt *K : S->children()) {
      if (!K) continue;
      if (out.insert(K).second) collectDesc(K, out);
    }
    if (auto *UE = dyn_cast<UnaryExprOrTypeTraitExpr>(S)) (void)UE;
  }

  json::Value function(const FunctionDecl *FD) {
    json::Object fo;
    fo["name"] = FD->getNameAsString();
    fo["file"] = C.shortFile(FD->getLocation());
    fo["line"] = (int64_t)C.lineOf(FD->getBeginLoc());
    fo["endline"] = (int64_t)C.lineOf(FD->getEndLoc());
    fo["static"] = FD->getStorageClass() == SC_Static;
    fo["ret"] = typeStr(FD->getReturnType());
    json::Array ps;
    for (const ParmVarDecl *P : FD->parameters()) {
      json::Object p;
      p["name"] = P->getNameAsString();
      p["t"] = typeStr(P->getType());
      p["did"] = didOf(P);
      ps.push_back(std::move(p));
    }
    fo["params"] = std::move(ps);

    CFG::BuildOptions BO;
    BO.setAllAlwaysAdd();
    BO.AddImplicitDtors = false;
    BO.AddEHEdges = false;
    BO.PruneTriviallyFalseEdges = true;
    std::unique_ptr<CFG> cfg = CFG::buildCFG(FD, FD->getBody(), C.AC, BO);
    if (!cfg) { fo["cfg"] = nullptr; return json::Value(std::move(fo)); }

    for (const CFGBlock *B : *cfg)
      for (const CFGElement &E : *B)
        if (auto SE = E.getAs<CFGStmt>()) elemBlock[SE->getStmt()] = (int)B->getBlockID();

    json::Array blocks;
    for (const CFGBlock *B : *cfg) {
      json::Object bo;
      int bid = (int)B->getBlockID();
      bo["id"] = bid;
      // roots
      std::vector<const Stmt *> elems;
      for (const CFGElement &E : *B)
        if (auto SE = E.getAs<CFGStmt>()) elems.push_back(SE->getStmt());
      std::set<const Stmt *> covered;
      std::vector<const Stmt *> roots;
      for (int i = (int)elems.size() - 1; i >= 0; --i) {
        const Stmt *S = elems[i];
        if (covered.count(S)) continue;
        roots.push_back(S);
        collectDesc(S, covered);
      }
      json::Array ra;
      for (int i = (int)roots.size() - 1; i >= 0; --i) {
        const Stmt *S = roots[i];
        // transparent roots (a ParenExpr/ImplicitCast whose inner is in another block) are still emitted
        json::Value v = expr(S, bid, false);
        if (auto *o = v.getAsObject()) (*o)["txt"] = C.text(S->getSourceRange());
        ra.push_back(std::move(v));
      }
      bo["roots"] = std::move(ra);
      // terminator
      if (const Stmt *T = B->getTerminatorStmt()) {
        json::Object to;
        std::string k = T->getStmtClassName();
        if (auto *BOp = dyn_cast<BinaryOperator>(T)) k = BOp->getOpcodeStr().str();
        to["k"] = k;
        to["l"] = (int64_t)C.lineOf(T->getBeginLoc());
        const Stmt *LC = B->getLastCondition();
        if (LC) to["cond"] = idOf(LC); else to["cond"] = nullptr;
        if (auto *GS = dyn_cast<GotoStmt>(T)) to["target"] = GS->getLabel()->getNameAsString();
        // the whole controlling expression of a branching statement (its short-circuit operands live in other blocks)
        const Expr *Full = nullptr;
        if (auto *IS = dyn_cast<IfStmt>(T)) Full = IS->getCond();
        else if (auto *WS = dyn_cast<WhileStmt>(T)) Full = WS->getCond();
        else if (auto *DS = dyn_cast<DoStmt>(T)) Full = DS->getCond();
        else if (auto *FS = dyn_cast<ForStmt>(T)) Full = FS->getCond();
        else if (auto *CO = dyn_cast<ConditionalOperator>(T)) Full = CO->getCond();
        if (Full) to["full"] = expr(Full, bid, false);
        bo["term"] = std::move(to);
      }
      // label
      if (const Stmt *L = B->getLabel()) {
        json::Object lo;
        if (auto *CS = dyn_cast<CaseStmt>(L)) {
          lo["k"] = "case";
          Expr::EvalResult R;
          if (CS->getLHS()->EvaluateAsInt(R, *C.AC)) lo["v"] = R.Val.getInt().getExtValue();
          if (CS->getRHS() && CS->getRHS()->EvaluateAsInt(R, *C.AC)) lo["v2"] = R.Val.getInt().getExtValue();
          auto ms = C.macroStack(CS->getLHS()->getBeginLoc());
          if (!ms.empty()) { json::Array a; for (auto &m : ms) a.push_back(m); lo["ms"] = std::move(a); }
          if (auto *DR = dyn_cast<DeclRefExpr>(strip(CS->getLHS()))) lo["name"] = DR->getDecl()->getNameAsString();
          lo["txt"] = C.text(CS->getLHS()->getSourceRange());
        } else if (isa<DefaultStmt>(L)) lo["k"] = "default";
        else if (auto *LS = dyn_cast<LabelStmt>(L)) { lo["k"] = "label"; lo["name"] = LS->getDecl()->getNameAsString(); }
        else lo["k"] = "other";
        lo["l"] = (int64_t)C.lineOf(L->getBeginLoc());
        bo["label"] = std::move(lo);
      }
      json::Array sa, ua;
      for (auto I = B->succ_begin(); I != B->succ_end(); ++I) {
        if (const CFGBlock *S = I->getReachableBlock()) sa.push_back((int)S->getBlockID());
        else sa.push_back(nullptr);
      }
      bo["succs"] = std::move(sa);
      blocks.push_back(std::move(bo));
    }
    json::Object co;
    co["entry"] = (int)cfg->getEntry().getBlockID();
    co["exit"] = (int)cfg->getExit().getBlockID();
    co["blocks"] = std::move(blocks);
    fo["cfg"] = std::move(co);

    // locals
    json::Array la;
    struct LV : RecursiveASTVisitor<LV> {
      FnEmitter &F; json::Array &A;
      LV(FnEmitter &f, json::Array &a) : F(f), A(a) {}
      bool VisitVarDecl(VarDecl *VD) {
        if (isa<ParmVarDecl>(VD)) return true;
        json::Object v;
        v["name"] = VD->getNameAsString();
        v["did"] = F.didOf(VD);
        v["t"] = F.typeStr(VD->getType());
        v["static"] = VD->isStaticLocal();
        v["l"] = (int64_t)F.C.lineOf(VD->getLocation());
        A.push_back(std::move(v));
        return true;
      }
    } lv(*this, la);
    lv.TraverseStmt(FD->getBody());
    fo["locals"] = std::move(la);
    return json::Value(std::move(fo));
  }
};

struct MacroRec : PPCallbacks {
  Ctx &C;
  Preprocessor &PP;
  json::Array &out;
  MacroRec(Ctx &c, Preprocessor &pp, json::Array &o) : C(c), PP(pp), out(o) {}
  void MacroDefined(const Token &Name, const MacroDirective *MD) override {
    const MacroInfo *MI = MD->getMacroInfo();
    if (!MI || MI->isBuiltinMacro()) return;
    SourceLocation L = MI->getDefinitionLoc();
    if (!L.isValid() || !L.isFileID()) return;
    SourceManager &SM = PP.getSourceManager();
    if (SM.isInSystemHeader(L) || SM.isWrittenInBuiltinFile(L) || SM.isWrittenInCommandLineFile(L)) return;
    std::string f = SM.getFilename(L).str();
    if (f.find("/usr/") == 0) return;
    json::Object o;
    o["name"] = Name.getIdentifierInfo()->getName().str();
    o["file"] = f;
    o["line"] = (int64_t)SM.getSpellingLineNumber(L);
    o["fnlike"] = MI->isFunctionLike();
    if (MI->isFunctionLike()) {
      json::Array ps;
      for (const IdentifierInfo *II : MI->params()) ps.push_back(II->getName().str());
      o["params"] = std::move(ps);
    }
    std::string body;
    json::Array toks;
    for (const Token &T : MI->tokens()) {
      std::string sp = PP.getSpelling(T);
      if (!body.empty() && T.hasLeadingSpace()) body.push_back(' ');
      body += sp;
      toks.push_back(latin1ToUtf8(sp));
    }
    o["body"] = latin1ToUtf8(body);
    o["toks"] = std::move(toks);
    out.push_back(std::move(o));
  }
};

struct Consumer : ASTConsumer {
  Ctx &C;
  json::Array &macros;
  explicit Consumer(Ctx &c, json::Array &m) : C(c), macros(m) {}

  void HandleTranslationUnit(ASTContext &AC) override {
    C.AC = &AC;
    C.SM = &AC.getSourceManager();
    C.LO = &AC.getLangOpts();
    json::Array fns, globals, enums, records, decls;
    SourceManager &SM = *C.SM;
    std::string mainFile = SM.getFileEntryForID(SM.getMainFileID())->getName().str();

    for (Decl *D : AC.getTranslationUnitDecl()->decls()) {
      SourceLocation L = D->getLocation();
      if (L.isInvalid()) continue;
      if (SM.isInSystemHeader(SM.getExpansionLoc(L))) continue;
      std::string f = C.fileOf(L);
      if (f.find("/usr/") == 0) continue;
      if (auto *FD = dyn_cast<FunctionDecl>(D)) {
        json::Object d;
        d["name"] = FD->getNameAsString();
        d["file"] = C.shortFile(L);
        d["line"] = (int64_t)C.lineOf(L);
        d["def"] = FD->doesThisDeclarationHaveABody();
        d["static"] = FD->getStorageClass() == SC_Static;
        d["ret"] = FD->getReturnType().getAsString();
        bool hidden = false;
        if (auto *VA = FD->getAttr<VisibilityAttr>()) hidden = VA->getVisibility() == VisibilityAttr::Hidden;
        d["hidden"] = hidden;
        json::Array ps;
        for (const ParmVarDecl *P : FD->parameters()) {
          json::Object p; p["name"] = P->getNameAsString(); p["t"] = P->getType().getAsString(); ps.push_back(std::move(p));
        }
        d["params"] = std::move(ps);
        decls.push_back(std::move(d));
        if (FD->doesThisDeclarationHaveABody()) {
          FnEmitter FE(C);
          fns.push_back(FE.function(FD));
        }
      } else if (auto *VD = dyn_cast<VarDecl>(D)) {
        json::Object g;
        g["name"] = VD->getNameAsString();
        g["file"] = C.shortFile(L);
        g["line"] = (int64_t)C.lineOf(L);
        g["t"] = VD->getType().getAsString();
        g["static"] = VD->getStorageClass() == SC_Static;
        g["extern"] = VD->getStorageClass() == SC_Extern;
        g["const"] = VD->getType().isConstQualified();
        if (const Expr *I = VD->getInit()) {
          FnEmitter FE(C);
          g["init"] = FE.expr(I, -1, false);
          g["init_txt"] = C.text(I->getSourceRange(), 400);
        } else g["init"] = nullptr;
        if (auto *CAT = AC.getAsConstantArrayType(VD->getType())) g["array_len"] = (int64_t)CAT->getSize().getZExtValue();
        globals.push_back(std::move(g));
      } else if (auto *ED = dyn_cast<EnumDecl>(D)) {
        json::Object e;
        e["name"] = ED->getNameAsString();
        if (auto *TD = ED->getTypedefNameForAnonDecl()) e["typedef"] = TD->getNameAsString();
        e["file"] = C.shortFile(L);
        json::Array a;
        for (auto *EC : ED->enumerators()) {
          json::Object x; x["name"] = EC->getNameAsString(); x["v"] = EC->getInitVal().getExtValue(); a.push_back(std::move(x));
        }
        e["enumerators"] = std::move(a);
        enums.push_back(std::move(e));
      } else if (auto *RD = dyn_cast<RecordDecl>(D)) {
        if (!RD->isCompleteDefinition()) continue;
        json::Object r;
        r["name"] = RD->getNameAsString();
        if (auto *TD = RD->getTypedefNameForAnonDecl()) r["typedef"] = TD->getNameAsString();
        r["file"] = C.shortFile(L);
        r["line"] = (int64_t)C.lineOf(L);
        json::Array a;
        for (auto *F : RD->fields()) {
          json::Object x; x["name"] = F->getNameAsString(); x["t"] = F->getType().getAsString(); a.push_back(std::move(x));
        }
        r["fields"] = std::move(a);
        records.push_back(std::move(r));
      }
    }
    json::Object top;
    top["unit"] = C.shortFile(SM.getLocForStartOfFile(SM.getMainFileID()));
    top["path"] = mainFile;
    top["functions"] = std::move(fns);
    top["globals"] = std::move(globals);
    top["enums"] = std::move(enums);
    top["records"] = std::move(records);
    top["decls"] = std::move(decls);
    top["macros"] = std::move(macros);
    std::error_code EC;
    llvm::raw_fd_ostream os(g_out, EC);
    if (EC) { llvm::errs() << "cannot write " << g_out << "\n"; exit(3); }
    os << json::Value(std::move(top)) << "\n";
  }
};

struct Action : ASTFrontendAction {
  Ctx C;
  json::Array macros;
  std::unique_ptr<ASTConsumer> CreateASTConsumer(CompilerInstance &CI, StringRef) override {
    C.SM = &CI.getSourceManager();
    C.LO = &CI.getLangOpts();
    CI.getPreprocessor().addPPCallbacks(std::make_unique<MacroRec>(C, CI.getPreprocessor(), macros));
    return std::make_unique<Consumer>(C, macros);
  }
};

} // namespace

int main(int argc, const char **argv) {
  if (argc < 4) { llvm::errs() << "usage: cifsa-extract out.json file.c -- flags\n"; return 2; }
  g_out = argv[1];
  std::string src = argv[2];
  std::vector<std::string> flags;
  int i = 3;
  if (std::string(argv[i]) == "--") i++;
  for (; i < argc; i++) flags.push_back(argv[i]);
  if (const char *r = getenv("CIFSA_REPO")) g_root = r;
  clang::tooling::FixedCompilationDatabase DB(".", flags);
  clang::tooling::ClangTool Tool(DB, {src});
  int rc = Tool.run(clang::tooling::newFrontendActionFactory<Action>().get());
  return rc;
}
