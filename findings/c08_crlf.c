/* Replay for the CR LF folding defect in get_more_chars (not statically detectable; recorded for the record):
 * for n CR LF pairs in one buffer fill only n-1 characters are subtracted from the count of valid characters.
 * build: cc -I/repo/src c08_crlf.c -L/repo/src/.libs -lcif -licuuc -licuio -lsqlite3 */
#include <stdio.h>
#include <stdlib.h>
#include <string.h>
#include <unicode/ustring.h>
#include <unicode/ustdio.h>
#include "cif.h"

static int value_of(const char *doc, char *out, size_t outlen) {
    FILE *f = tmpfile();
    struct cif_parse_opts_s *opts = NULL;
    cif_tp *cif = NULL; cif_block_tp *block = NULL; cif_value_tp *val = NULL;
    UChar name[8], code[4], *text = NULL;
    int rc;
    fputs(doc, f); rewind(f);
    cif_parse_options_create(&opts);
    opts->error_callback = cif_parse_error_ignore;
    rc = cif_parse(f, opts, &cif);
    fclose(f);
    out[0] = 0;
    if (rc != CIF_OK || !cif) return rc ? rc : -1;
    u_uastrcpy(code, "a"); u_uastrcpy(name, "_y");
    if (cif_get_block(cif, code, &block) == CIF_OK && cif_container_get_value(block, name, &val) == CIF_OK
            && cif_value_get_text(val, &text) == CIF_OK && text) {
        u_austrncpy(out, text, outlen - 1); out[outlen - 1] = 0;
    }
    free(text); if (val) cif_value_free(val); if (block) cif_block_free(block); (void) cif_destroy(cif);
    return 0;
}

int main(void) {
    char lf[64], crlf[64];
    value_of("#\\#CIF_2.0\ndata_a\n_y def", lf, sizeof lf);
    value_of("#\\#CIF_2.0\r\ndata_a\r\n_y def", crlf, sizeof crlf);
    printf("LF   document: _y = \"%s\"\nCRLF document: _y = \"%s\"\n", lf, crlf);
    return strcmp(lf, crlf) != 0;
}
