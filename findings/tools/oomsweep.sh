#!/bin/bash
# usage: sweep.sh <scenario> <from> <to> <step>  -- native run; reports crashes and non {0,2,3} codes
w=$1
for n in $(seq $2 $4 $3); do
  out=$(FAIL_AT=$n LD_LIBRARY_PATH=/repo/src/.libs:. timeout 20 ./oomsweep $w 2>&1); rc=$?
  code=$(echo "$out" | grep -o "rc=[0-9-]*" | head -1)
  if [ $rc -ne 0 ]; then echo "FAIL_AT=$n exit=$rc $code $(echo "$out" | tail -1 | cut -c1-100)"; 
  else case "$code" in rc=0|rc=2|rc=3) ;; *) echo "FAIL_AT=$n $code";; esac; fi
done
