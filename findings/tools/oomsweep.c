/* OOM sweep driver (development aid, not a check): runs one scenario with the FAIL_AT-th allocation of the armed region failing */
#include <stdio.h>
#include <stdlib.h>
#include <string.h>
#include <unicode/ustring.h>
#include "cif.h"
extern void arm_failmalloc(void); extern void disarm_failmalloc(void); extern long failmalloc_count(void);
static UChar *U(const char *s) { static UChar buf[16][128]; static int k; UChar *b = buf[k++ & 15]; u_unescape(s, b, 128); return b; }
static UChar *dupU(const char *s) { UChar *t = U(s); UChar *d = (UChar *) malloc((u_strlen(t) + 1) * sizeof(UChar)); u_strcpy(d, t); return d; }
static int build(cif_tp **cifp, int armed) {
    cif_tp *cif = NULL; cif_container_tp *blk = NULL, *frame = NULL; cif_loop_tp *loop = NULL; cif_packet_tp *pkt = NULL;
    cif_value_tp *v = NULL, *list = NULL, *table = NULL, *e = NULL; int rc = 0, i;
    UChar *names[4];
    if (armed) arm_failmalloc();
    rc = cif_create(&cif); if (rc) goto out;
    *cifp = cif;
    rc = cif_create_block(cif, U("blk"), &blk); if (rc) goto out;
    rc = cif_container_create_frame(blk, U("frm"), &frame); if (rc) goto out;
    names[0] = U("_a"); names[1] = U("_B.c"); names[2] = U("_d"); names[3] = NULL;
    rc = cif_container_create_loop(blk, U("cat"), names, &loop); if (rc) goto out;
    rc = cif_packet_create(&pkt, names); if (rc) goto out;
    for (i = 0; i < 3 && !rc; i++) {
        rc = cif_packet_get_item(pkt, names[0], &v); if (rc) break;
        rc = cif_value_copy_char(v, U("text value")); if (rc) break;
        rc = cif_packet_get_item(pkt, names[1], &v); if (rc) break;
        rc = cif_value_parse_numb(v, dupU("12.5(3)")); if (rc) break;
        rc = cif_loop_add_packet(loop, pkt);
    }
    if (rc) goto out;
    rc = cif_value_create(CIF_LIST_KIND, &list); if (rc) goto out;
    for (i = 0; i < 3 && !rc; i++) { e = NULL; rc = cif_value_create(CIF_UNK_KIND, &e); if (rc) break; rc = cif_value_init_numb(e, 1.5 * i, 0.1, 2, 5); if (!rc) rc = cif_value_insert_element_at(list, i, e); cif_value_free(e); }
    if (rc) goto out;
    rc = cif_value_create(CIF_TABLE_KIND, &table); if (rc) goto out;
    rc = cif_value_set_item_by_key(table, U("Key"), list); if (rc) goto out;
    rc = cif_container_set_value(blk, U("_list"), list); if (rc) goto out;
    rc = cif_container_set_value(frame, U("_tbl"), table); if (rc) goto out;
    rc = cif_container_set_value(blk, U("_s"), NULL);
out:
    if (armed) disarm_failmalloc();
    cif_value_free(list); cif_value_free(table); if (pkt) cif_packet_free(pkt); if (loop) cif_loop_free(loop); if (frame) cif_container_free(frame); if (blk) cif_container_free(blk);
    return rc;
}
static int iterate(cif_tp *cif) {
    cif_container_tp *blk = NULL; cif_loop_tp *loop = NULL; cif_pktitr_tp *it = NULL; cif_packet_tp *pkt = NULL; cif_value_tp *v = NULL; int rc, n = 0;
    arm_failmalloc();
    rc = cif_get_block(cif, U("blk"), &blk); if (rc) goto out;
    rc = cif_container_get_category_loop(blk, U("cat"), &loop); if (rc) goto out;
    rc = cif_loop_get_packets(loop, &it); if (rc) goto out;
    while ((rc = cif_pktitr_next_packet(it, &pkt)) == CIF_OK) {
        n++;
        if (n == 2) { rc = cif_packet_get_item(pkt, U("_a"), &v); if (!rc) rc = cif_value_copy_char(v, U("changed")); if (!rc) rc = cif_pktitr_update_packet(it, pkt); if (rc) break; }
        if (n == 3) { rc = cif_pktitr_remove_packet(it); if (rc) break; }
    }
    if (rc == CIF_FINISHED) rc = cif_pktitr_close(it); else cif_pktitr_abort(it);
    it = NULL;
    if (!rc) { v = NULL; rc = cif_container_get_value(blk, U("_list"), &v); cif_value_free(v); }
out:
    disarm_failmalloc();
    if (pkt) cif_packet_free(pkt); if (loop) cif_loop_free(loop); if (blk) cif_container_free(blk);
    return rc;
}
static int writeparse(cif_tp *cif) {
    FILE *f = tmpfile(); cif_tp *c2 = NULL; int rc;
    arm_failmalloc();
    rc = cif_write(f, NULL, cif);
    if (!rc) { rewind(f); rc = cif_parse(f, NULL, &c2); }
    disarm_failmalloc();
    if (c2) cif_destroy(c2); fclose(f);
    return rc;
}
int main(int argc, char **argv) {
    cif_tp *cif = NULL; int rc; const char *what = argc > 1 ? argv[1] : "build";
    if (!strcmp(what, "build")) rc = build(&cif, 1);
    else { rc = build(&cif, 0); if (rc) { fprintf(stderr, "setup failed %d\n", rc); return 99; } rc = !strcmp(what, "iterate") ? iterate(cif) : writeparse(cif); }
    fprintf(stderr, "%s rc=%d mallocs=%ld\n", what, rc, failmalloc_count());
    if (cif) cif_destroy(cif);
    return 0;
}
