/* LD_PRELOAD shim: the FAIL_AT-th call of malloc made after arm_failmalloc() was called returns NULL (once). */
#define _GNU_SOURCE
#include <stdlib.h>
#include <dlfcn.h>
#include <string.h>
static long counter = -1, fail_at = -2, last = 0;
extern void *__libc_malloc(size_t);
void arm_failmalloc(void) { const char *e = getenv("FAIL_AT"); fail_at = e ? atol(e) : -2; counter = 0; }
void disarm_failmalloc(void) { last = counter; counter = -1; }
long failmalloc_count(void) { return last; }
void *malloc(size_t n) {
    if (counter >= 0) { counter++; if (counter == fail_at) return NULL; }
    return __libc_malloc(n);
}
