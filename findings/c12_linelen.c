/* which constructs report CIF_OVERLENGTH_LINE (108) for a line of exactly 2048 / 2049 characters */
#include <stdio.h>
#include <stdlib.h>
#include <string.h>
#include "cif.h"
static int n108;
static int cb(int code, size_t line, size_t col, const UChar *t, size_t len, void *d) { if (code == 108) n108++; return 0; }
static int run(const char *pre, char fill, int total, const char *post) {
    FILE *f = tmpfile(); struct cif_parse_opts_s *o = NULL; cif_tp *cif = NULL; int i, n = total - (int) strlen(pre);
    fprintf(f, "#\\#CIF_2.0\ndata_b\n");
    if (pre[0] == '@') { fprintf(f, "_t\n"); pre++; n = total - (int) strlen(pre); }
    fputs(pre, f); for (i = 0; i < n; i++) fputc(fill, f); fputs(post, f);
    rewind(f);
    cif_parse_options_create(&o); o->error_callback = cb; n108 = 0;
    cif_parse(f, o, &cif); cif_destroy(cif); free(o); fclose(f);
    return n108;
}
int main(void) {
    int len;
    for (len = 2047; len <= 2049; len++) {
        printf("len %d: comment %d, ws %d, unquoted %d, quoted %d, textfield-first %d, textfield-inner %d, triple %d\n", len,
            run("#", 'c', len, "\n_a 1\n"), run("", ' ', len, "\n_a 1\n"), run("_a ", 'v', len, "\n"),
            run("_a '", 'v', len - 1, "'\n"), run("@;", 't', len, "\n;\n"), run("@;\n", 't', len + 2, "\n;\n"),
            run("_a '''", 'v', len, "\nx'''\n"));
        printf("        triple-inner %d, triple-last %d, textfield-last-line %d, ws-after-token %d\n",
            run("_a '''q\n", 'v', len + 9, "\nx'''\n"), run("_a '''q\n", 'v', len + 9 - 3, "'''\n"),
            run("@;q\n", 't', len + 3, "\n;\n"), run("_a 1", ' ', len, "\n_b 2\n"));
    }
    return 0;
}
