/* replay of three cif_write defects (CIF 2.0 mode): an unfolded prefixed text field with a 2047-character line was written with 2049-character lines (fixed befe34a); an item name with a supplementary-plane character was written one UChar short (fixed 690524c); a table entry whose key, colon and number do not fit on one line makes cif_write fail with CIF_OVERLENGTH_LINE (observation, not claimed: no whitespace may separate the colon from the value) */
#include <stdio.h>
#include <stdlib.h>
#include <string.h>
#include <unicode/ustring.h>
#include "cif.h"
static int maxline(FILE *f) { int c, n = 0, m = 0; rewind(f); while ((c = fgetc(f)) != EOF) { if (c == '\n') { if (n > m) m = n; n = 0; } else if ((c & 0xC0) != 0x80) n++; } return n > m ? n : m; }
static int errs; static int ecb(int code, size_t line, size_t col, const UChar *t, size_t l, void *d) { errs++; if (errs < 4) printf("     parse error %d at line %d\n", code, (int) line); return 0; }
static int rt_value(cif_value_tp *v, const UChar *name, const char *what) {
    cif_tp *cif = NULL, *cif2 = NULL; cif_container_tp *blk = NULL, *blk2 = NULL; cif_value_tp *v2 = NULL;
    UChar code[8]; struct cif_parse_opts_s *po = NULL; int rc, bad = 0; FILE *f = tmpfile();
    u_uastrcpy(code, "b");
    if (cif_create(&cif) || cif_create_block(cif, code, &blk)) return 99;
    if ((rc = cif_container_set_value(blk, name, v)) != 0) { printf("%s: set_value rc=%d\n", what, rc); return 1; }
    rc = cif_write(f, NULL, cif);
    if (rc != CIF_OK) { printf("%s: cif_write rc=%d\n", what, rc); return 1; }
    if (maxline(f) > 2048) { printf("%s: longest line %d\n", what, maxline(f)); bad = 1; }
    rewind(f); cif_parse_options_create(&po); po->error_callback = ecb; errs = 0;
    rc = cif_parse(f, po, &cif2);
    if (rc != CIF_OK || errs) { printf("%s: parse rc=%d errors=%d\n", what, rc, errs); return 1; }
    if (cif_get_block(cif2, code, &blk2) || (rc = cif_container_get_value(blk2, name, &v2)) != 0) { printf("%s: item not found after re-parse (rc=%d)\n", what, rc); return 1; }
    if (!bad) printf("%s: ok\n", what);
    return bad;
}
int main(void) {
    static UChar t[8000]; UChar name[64], key[4000]; int i, n, bad = 0; cif_value_tp *v = NULL, *tab = NULL, *num = NULL;
    /* 1: prefixed (contains "\n;" and both triple delimiters), unfolded, with a 2047-character line */
    n = 0; for (i = 0; i < 2047; i++) t[n++] = 'a' + (i % 26); t[n++] = '\n'; t[n++] = ';'; t[n++] = 'x'; t[n++]='\''; t[n++]='\''; t[n++]='\''; t[n++]='"'; t[n++]='"'; t[n++]='"'; t[n] = 0;
    u_uastrcpy(name, "_v"); cif_value_create(CIF_UNK_KIND, &v); cif_value_copy_char(v, t);
    bad |= rt_value(v, name, "prefixed text field with a 2047-character line");
    n = 0; for (i = 0; i < 2048; i++) t[n++] = 'a' + (i % 26); t[n++] = '\n'; t[n++] = ';'; t[n++] = 'x'; t[n++]='\''; t[n++]='\''; t[n++]='\''; t[n++]='"'; t[n++]='"'; t[n++]='"'; t[n] = 0;
    cif_value_copy_char(v, t);
    bad |= rt_value(v, name, "prefixed text field with a 2048-character line");
    /* 2: item name with a supplementary-plane character */
    n = 0; name[n++] = '_'; name[n++] = 'a'; name[n++] = 0xD835; name[n++] = 0xDC00; name[n++] = 'b'; name[n++] = 'c'; name[n] = 0;
    u_uastrcpy(t, "val"); cif_value_copy_char(v, t);
    bad |= rt_value(v, name, "item name with a supplementary character");
    /* 3: table with a number value and a long key */
    u_uastrcpy(name, "_t");
    for (n = 2000; n <= 2046; n++) {
        char what[80];
        cif_value_create(CIF_TABLE_KIND, &tab); cif_value_create(CIF_UNK_KIND, &num); cif_value_init_numb(num, 12345.678, 0.02, 3, 5);
        for (i = 0; i < n; i++) key[i] = 'k'; key[n] = 0;
        cif_value_set_item_by_key(tab, key, num);
        sprintf(what, "table with a %d-character key and a number value", n);
        if (rt_value(tab, name, what)) { bad = 1; if (n < 2040) n = 2039; }
        cif_value_free(tab); cif_value_free(num);
    }
    return bad;
}
