/* replay for C07 (values stored in a CIF are read back identical): SQLite treats U+FEFF / U+FFFE at the start of a string
 * bound with sqlite3_bind_text16 as a byte-order mark: it is removed, and for U+FFFE the rest of the string is byte-swapped.
 * The value API accepts such strings (cif_value_copy_char does not validate characters).
 * build (from /repo): cc -w -I src findings/c07_bom_value.c -o t -Lsrc/.libs -lcif -licuuc -licuio -lsqlite3 -lm
 * exit status: number of strings that were read back changed */
#include <stdio.h>
#include <string.h>
#include <unicode/ustring.h>
#include "cif.h"
static void show(const char *what, const UChar *s) { int i; printf("%s:", what); for (i = 0; s[i]; i++) printf(" %04X", s[i]); printf("\n"); }
int main(void) {
    static const UChar cases[][6] = { { 0xFEFF, 'a', 'b', 'c', 0 }, { 0xFFFE, 'a', 'b', 'c', 0 }, { 0x61, 0xFFFF, 0x62, 0 }, { 0x61, 0xFFFE, 0x62, 0}, { 0x61, 0xFDD0, 0x62, 0 }, { 0x61, 0xFEFF, 0x62, 0 }, { 'a', 'b', 'c', 0 } };
    UChar code[4], name[4]; int bad = 0, i;
    u_uastrcpy(code, "b"); u_uastrcpy(name, "_v");
    for (i = 0; i < 7; i++) {
        cif_tp *cif = NULL; cif_container_tp *blk = NULL; cif_value_tp *v = NULL, *v2 = NULL; UChar *t = NULL; int rc;
        cif_create(&cif); cif_create_block(cif, code, &blk);
        cif_value_create(CIF_UNK_KIND, &v);
        rc = cif_value_copy_char(v, cases[i]);
        if (rc) { printf("case %d: copy_char rc=%d\n", i, rc); continue; }
        rc = cif_container_set_value(blk, name, v);
        if (rc) { printf("case %d: set_value rc=%d (refused: fine)\n", i, rc); continue; }
        rc = cif_container_get_value(blk, name, &v2);
        if (rc || cif_value_get_text(v2, &t) || !t) { printf("case %d: get rc=%d\n", i, rc); bad++; continue; }
        show("  stored   ", cases[i]); show("  read back", t);
        if (u_strcmp(cases[i], t)) { printf("  <-- differs\n"); bad++; }
        cif_destroy(cif);
    }
    return bad;
}
