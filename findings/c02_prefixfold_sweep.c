#include <stdio.h>
#include <stdlib.h>
#include <string.h>
#include <unicode/ustring.h>
#include "cif.h"
static int maxline(FILE *f) { int c, n = 0, m = 0; rewind(f); while ((c = fgetc(f)) != EOF) { if (c == '\n') { if (n > m) m = n; n = 0; } else if ((c & 0xC0) != 0x80) n++; } return n > m ? n : m; }
static int errs; static int ecb(int code, size_t line, size_t col, const UChar *t, size_t l, void *d) { errs++; return 0; }
static int rt(const UChar *txt, int v1) {
    cif_tp *cif = NULL, *cif2 = NULL; cif_container_tp *blk = NULL, *blk2 = NULL; cif_value_tp *v = NULL, *v2 = NULL;
    UChar code[8], name[8], *back = NULL; struct cif_parse_opts_s *po = NULL; struct cif_write_opts_s *wo = NULL; int rc, bad = 0, ml; FILE *f = tmpfile();
    u_uastrcpy(code, "b"); u_uastrcpy(name, "_v");
    cif_create(&cif); cif_create_block(cif, code, &blk); cif_value_create(CIF_UNK_KIND, &v); cif_value_copy_char(v, txt);
    cif_container_set_value(blk, name, v);
    cif_write_options_create(&wo); wo->cif_version = v1 ? 1 : 0;
    rc = cif_write(f, wo, cif); if (rc) { fclose(f); cif_destroy(cif); cif_value_free(v); return rc == 62 ? 0 : 1000 + rc; }
    ml = maxline(f); if (ml > 2048) bad = ml;
    rewind(f); cif_parse_options_create(&po); po->error_callback = ecb; po->line_folding_modifier = 1; po->text_prefixing_modifier = 1; errs = 0;
    rc = cif_parse(f, po, &cif2); if (rc || errs) bad = 3000 + errs;
    else { cif_get_block(cif2, code, &blk2); if (cif_container_get_value(blk2, name, &v2) || cif_value_get_text(v2, &back) || u_strcmp(back, txt)) bad = 4000; }
    fclose(f); cif_destroy(cif); if (cif2) cif_destroy(cif2); cif_value_free(v); free(back);
    return bad;
}
int main(void) {
    static UChar t[12000]; int L, sp, n, i, bad = 0, r, tail, v1;
    for (v1 = 0; v1 < 2; v1++)
    for (tail = 0; tail < 3; tail++)
    for (L = 2030; L <= 2060; L++) for (sp = 0; sp < 3; sp++) {
        n = 0;
        for (i = 0; i < L; i++) t[n++] = (sp == 1 && i % 9 == 8) ? ' ' : ((sp == 2 && i > 2020 && i % 2) ? ';' : 'a' + (i % 26));
        t[n++] = '\n';
        if (tail != 2) { t[n++] = ';'; t[n++] = 'x'; }
        if (tail == 0 && !v1) { t[n++]='\''; t[n++]='\''; t[n++]='\''; t[n++]='"'; t[n++]='"'; t[n++]='"'; }
        for (i = 0; i < (L * 2) % 4100; i++) t[n++] = 'b'; t[n] = 0;
        r = rt(t, v1);
        if (r) { printf("v%d tail=%d L=%d sp=%d -> %d\n", v1 ? 1 : 2, tail, L, sp, r); bad++; }
    }
    printf("%d failures\n", bad); return bad != 0;
}
