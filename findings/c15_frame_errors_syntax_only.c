/* replay: CIF_FRAME_NOT_ALLOWED / CIF_NO_FRAME_TERM were reported in storing mode only (fixed in /repo: see known_findings.json) */
#include <stdio.h>
#include <string.h>
#include <unicode/ustring.h>
#include "cif.h"
static int codes[64], n; static int ecb(int code, size_t line, size_t col, const UChar *t, size_t l, void *d) { if (n < 64) codes[n++] = code; return 0; }
static void run(const char *doc, int depth, int syntax_only) {
    FILE *f = tmpfile(); cif_tp *cif = NULL; struct cif_parse_opts_s *po = NULL; int rc, i;
    fwrite(doc, 1, strlen(doc), f); rewind(f);
    cif_parse_options_create(&po); po->error_callback = ecb; po->max_frame_depth = depth; n = 0;
    rc = cif_parse(f, po, syntax_only ? NULL : &cif);
    printf("depth=%d %s rc=%d errors:", depth, syntax_only ? "syntax-only" : "storing    ", rc);
    for (i = 0; i < n; i++) printf(" %d", codes[i]); printf("\n");
    if (cif) cif_destroy(cif); fclose(f);
}
int main(void) {
    const char *d = "#\\#CIF_2.0\ndata_b\nsave_f\n_x 1\nsave_g\n_y 2\nsave_\nsave_\n_z 3\n";
    int depth;
    for (depth = 0; depth <= 2; depth++) { run(d, depth, 0); run(d, depth, 1); }
    return 0;
}
