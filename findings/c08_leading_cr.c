/* replay: input that starts with a CR line terminator loses the characters read along with the look-ahead */
#include <stdio.h>
#include <string.h>
#include <stdlib.h>
#include <unicode/ustring.h>
#include "cif.h"
static int errs;
static int cb(int code, size_t line, size_t col, const UChar *t, size_t len, void *d) { printf("  error %d line %lu\n", code, (unsigned long) line); errs++; return 0; }
static int run(const char *doc) {
    FILE *f = tmpfile(); struct cif_parse_opts_s *o = NULL; cif_tp *cif = NULL; cif_container_tp **blocks, **b; int n = 0, rc;
    fputs(doc, f); rewind(f);
    cif_parse_options_create(&o); o->error_callback = cb; errs = 0;
    rc = cif_parse(f, o, &cif);
    if (cif_get_all_blocks(cif, &blocks) == 0) { for (b = blocks; *b; b++) { n++; cif_container_free(*b); } free(blocks); }
    printf("rc=%d errors=%d blocks=%d\n", rc, errs, n);
    cif_destroy(cif); free(o); fclose(f);
    return n;
}
int main(void) {
    int a = run("\ndata_b\n_a 1\n"), b = run("\rdata_b\r_a 1\r"), c = run("\r\ndata_b\r\n_a 1\r\n");
    return !(a == 1 && b == 1 && c == 1);
}
