/* replay: two save frames (or blocks) with the same *invalid* code, all errors accepted: cif_parse returned 22 for the frames (fixed 3e335a9) */
#include <stdio.h>
#include <string.h>
#include <unicode/ustring.h>
#include "cif.h"
static int n; static int ecb(int code, size_t line, size_t col, const UChar *t, size_t l, void *d) { n++; printf("  callback %d at line %d\n", code, (int) line); return 0; }
static int run(const char *doc, int len) {
    FILE *f = tmpfile(); cif_tp *cif = NULL; struct cif_parse_opts_s *po = NULL; int rc;
    fwrite(doc, 1, len, f); rewind(f);
    cif_parse_options_create(&po); po->error_callback = ecb; po->max_frame_depth = 1; n = 0;
    rc = cif_parse(f, po, &cif);
    printf("rc=%d after %d callbacks\n", rc, n);
    if (cif) { cif_container_tp **b = NULL; if (cif_get_all_blocks(cif, &b) == 0) { int i; for (i = 0; b[i]; i++) { cif_container_tp **fr = NULL; int k = 0; if (cif_container_get_all_frames(b[i], &fr) == 0) { for (k = 0; fr[k]; k++) ; } printf("  block %d: %d frames\n", i, k);} } cif_destroy(cif); }
    fclose(f); return rc;
}
int main(void) {
    const char d1[] = "#\\#CIF_2.0\ndata_b\nsave_a\x7f" "b\n_x 1\nsave_\nsave_a\x7f" "b\n_y 2\nsave_\n";
    const char d2[] = "#\\#CIF_2.0\ndata_b\nsave_ab\n_x 1\nsave_\nsave_ab\n_y 2\nsave_\n";
    const char d3[] = "#\\#CIF_2.0\ndata_a\x7f" "b\n_x 1\ndata_a\x7f" "b\n_y 2\n";
    printf("dup frame with invalid code:\n"); run(d1, sizeof d1 - 1);
    printf("dup frame with valid code:\n"); run(d2, sizeof d2 - 1);
    printf("dup block with invalid code:\n"); run(d3, sizeof d3 - 1);
    return 0;
}
