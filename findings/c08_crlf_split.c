/* replay: a CR LF pair split across two reads of the character source is counted as two line terminators */
#include <stdio.h>
#include <string.h>
#include <stdlib.h>
#include "cif.h"
static size_t last_line;
static int cb(int code, size_t line, size_t col, const UChar *t, size_t len, void *d) { last_line = line; return 0; }
static size_t run(int pad, const char *eol) {
    FILE *f = tmpfile(); int i; struct cif_parse_opts_s *o = NULL; cif_tp *cif = NULL;
    fprintf(f, "#\\#CIF_2.0%sdata_b%s#", eol, eol);
    for (i = 0; i < pad; i++) fputc('x', f);
    fprintf(f, "%s_a 1%s_c%s", eol, eol, eol);   /* _c has no value: error reported at its line */
    rewind(f);
    cif_parse_options_create(&o); o->error_callback = cb; last_line = 0;
    cif_parse(f, o, &cif); cif_destroy(cif); free(o); fclose(f);
    return last_line;
}
int main(void) {
    int pad, bad = 0;
    for (pad = 4050; pad < 4110; pad++) {
        size_t a = run(pad, "\n"), b = run(pad, "\r\n");
        if (a != b) { printf("pad %d: LF line %lu, CRLF line %lu\n", pad, (unsigned long) a, (unsigned long) b); bad++; }
    }
    printf("%d mismatches\n", bad);
    return bad != 0;
}
