/* replay: CIF 1.1 input starting with a BOM: the CIF_DISALLOWED_CHAR report hands the callback a text pointer one before the buffer */
#include <stdio.h>
#include <stdlib.h>
#include "cif.h"
static int cb(int code, size_t line, size_t col, const UChar *t, size_t len, void *d) {
    size_t i; unsigned sum = 0; for (i = 0; t && i < len; i++) sum += t[i];   /* read what we were told is readable */
    fprintf(stderr, "error %d line %lu len %lu sum %u\n", code, (unsigned long) line, (unsigned long) len, sum); return 0;
}
int main(void) {
    FILE *f = tmpfile(); struct cif_parse_opts_s *o = NULL; cif_tp *cif = NULL; int rc;
    fputs("\xEF\xBB\xBF#\\#CIF_1.1\ndata_b\n_a 1\n", f); rewind(f);
    cif_parse_options_create(&o); o->error_callback = cb;
    rc = cif_parse(f, o, &cif); fprintf(stderr, "rc=%d\n", rc);
    if (cif) cif_destroy(cif); free(o); fclose(f); return 0;
}
