/* replay for C12 (each class of input defect is recovered as documented): a loop whose header repeats an item that the
 * container already has (CIF_DUP_ITEMNAME, accepted: the column is ignored) and whose last packet is short
 * (CIF_PARTIAL_PACKET, accepted: "synthesizing unknown values to fill the packet").  The recovery decides which values to
 * reset by looking at names[column], but names[] is the compacted array without the ignored columns, so with an ignored
 * column before them the last value(s) of the short packet keep what the previous packet held (and, with two ignored
 * columns, an element of names[] that was never written is read).
 * build (from /repo): cc -w -I src findings/c12_partial_packet_dup.c -o t -Lsrc/.libs -lcif -licuuc -licuio -lsqlite3 -lm
 * exit status: 0 = the missing values of the short packet are unknown-valued */
#include <stdio.h>
#include <stdlib.h>
#include <string.h>
#include <unicode/ustring.h>
#include "cif.h"
static int ecb(int code, size_t line, size_t col, const UChar *t, size_t l, void *d) { printf("   error %d at line %d accepted\n", code, (int) line); return 0; }
int main(void) {
    const char *doc = "#\\#CIF_2.0\ndata_b\n_d 1\nloop_\n _d _a _b\n x 11 22\n y\n";
    FILE *f = tmpfile(); struct cif_parse_opts_s *po = NULL; cif_tp *cif = NULL; cif_container_tp *blk = NULL; cif_loop_tp *loop = NULL;
    cif_pktitr_tp *it = NULL; cif_packet_tp *pkt = NULL; UChar code[4], na[4], nb[4]; int rc, n = 0, bad = 0;
    fputs(doc, f); rewind(f);
    cif_parse_options_create(&po); po->error_callback = ecb;
    rc = cif_parse(f, po, &cif);
    printf("cif_parse rc=%d\n", rc);
    if (rc != CIF_OK) return 9;
    u_uastrcpy(code, "b"); u_uastrcpy(na, "_a"); u_uastrcpy(nb, "_b");
    if (cif_get_block(cif, code, &blk) || cif_container_get_item_loop(blk, na, &loop) || cif_loop_get_packets(loop, &it)) return 8;
    while (cif_pktitr_next_packet(it, &pkt) == CIF_OK) {
        cif_value_tp *va = NULL, *vb = NULL; UChar *ta = NULL, *tb = NULL; char a[32] = "(none)", b[32] = "(none)";
        n++;
        cif_packet_get_item(pkt, na, &va); cif_packet_get_item(pkt, nb, &vb);
        if (cif_value_kind(va) == CIF_UNK_KIND) strcpy(a, "?"); else if (cif_value_get_text(va, &ta) == CIF_OK && ta) u_austrcpy(a, ta);
        if (cif_value_kind(vb) == CIF_UNK_KIND) strcpy(b, "?"); else if (cif_value_get_text(vb, &tb) == CIF_OK && tb) u_austrcpy(b, tb);
        printf("packet %d: _a = %s  _b = %s\n", n, a, b);
        if (n == 2 && (strcmp(a, "?") || strcmp(b, "?"))) { printf("   <-- the short packet was to be filled with unknown values\n"); bad = 1; }
    }
    cif_pktitr_abort(it);
    if (n != 2) { printf("expected 2 packets, found %d\n", n); bad = 1; }
    return bad;
}
