/* replay for C14: a handler answering SKIP_SIBLINGS also suppresses the END callback of the PARENT element - the property says
 * the directive suppresses "exactly" the callbacks for the element's descendants and its not-yet-visited siblings.
 * Four cases, one per level: block -> cif_end, loop -> block_end, packet -> loop_end, item -> packet_end.
 * build (from /repo): cc -w -I src findings/c14_end_after_skip_siblings.c -o t -Lsrc/.libs -lcif -licuuc -licuio -lsqlite3 -lm
 * exit status: number of levels at which the parent's end callback was not made */
#include <stdio.h>
#include <string.h>
#include <unicode/ustring.h>
#include "cif.h"
static int level; static char log_[256];
static void note(const char *s) { strcat(log_, s); strcat(log_, " "); }
static int cs(cif_tp *c, void *x) { note("cif_start"); return CIF_TRAVERSE_CONTINUE; }
static int ce(cif_tp *c, void *x) { note("cif_end"); return CIF_TRAVERSE_CONTINUE; }
static int bs(cif_container_tp *c, void *x) { note("block_start"); return level == 0 ? CIF_TRAVERSE_SKIP_SIBLINGS : CIF_TRAVERSE_CONTINUE; }
static int be(cif_container_tp *c, void *x) { note("block_end"); return CIF_TRAVERSE_CONTINUE; }
static int ls(cif_loop_tp *l, void *x) { note("loop_start"); return level == 1 ? CIF_TRAVERSE_SKIP_SIBLINGS : CIF_TRAVERSE_CONTINUE; }
static int le(cif_loop_tp *l, void *x) { note("loop_end"); return CIF_TRAVERSE_CONTINUE; }
static int ps(cif_packet_tp *p, void *x) { note("packet_start"); return level == 2 ? CIF_TRAVERSE_SKIP_SIBLINGS : CIF_TRAVERSE_CONTINUE; }
static int pe(cif_packet_tp *p, void *x) { note("packet_end"); return CIF_TRAVERSE_CONTINUE; }
static int it(UChar *n, cif_value_tp *v, void *x) { note("item"); return level == 3 ? CIF_TRAVERSE_SKIP_SIBLINGS : CIF_TRAVERSE_CONTINUE; }
int main(void) {
    const char *doc = "#\\#CIF_2.0\ndata_b\nloop_ _a _b\n 1 2\n 3 4\n";
    static const char *parent_end[] = { "cif_end", "block_end", "loop_end", "packet_end" };
    static const char *who[] = { "block_start", "loop_start", "packet_start", "item" };
    cif_handler_tp h = { cs, ce, bs, be, NULL, NULL, ls, le, ps, pe, it };
    FILE *f = tmpfile(); cif_tp *cif = NULL; int bad = 0, rc;
    fputs(doc, f); rewind(f);
    if (cif_parse(f, NULL, &cif) != CIF_OK) return 9;
    for (level = 0; level < 4; level++) {
        log_[0] = 0;
        rc = cif_walk(cif, &h, NULL);
        printf("%s answers SKIP_SIBLINGS: rc=%d: %s\n", who[level], rc, log_);
        if (!strstr(log_, parent_end[level])) { printf("   <-- %s was not called\n", parent_end[level]); bad++; }
    }
    return bad;
}
