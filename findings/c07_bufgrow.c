/* replay: serialising a list whose blob exceeds 1.5x the 512-byte initial buffer never returns */
#include <stdio.h>
#include <unistd.h>
#include <unicode/ustring.h>
#include "cif.h"
int main(void) {
    cif_tp *cif = NULL; cif_container_tp *blk = NULL; cif_value_tp *list = NULL, *e = NULL;
    UChar code[8], name[8], txt[64];
    int i, rc;
    u_uastrcpy(code, "b"); u_uastrcpy(name, "_l");
    u_uastrcpy(txt, "0123456789012345678901234567890123456789");
    alarm(10);
    if (cif_create(&cif) || cif_create_block(cif, code, &blk)) return 2;
    if (cif_value_create(CIF_LIST_KIND, &list)) return 2;
    for (i = 0; i < 20; i++) {
        e = NULL;
        if (cif_value_create(CIF_UNK_KIND, &e) || cif_value_copy_char(e, txt)) return 2;
        if (cif_value_insert_element_at(list, i, e)) return 2;
        cif_value_free(e);
    }
    rc = cif_container_set_value(blk, name, list);
    printf("set_value rc=%d\n", rc);
    return rc != 0;
}
