/* replay for C09: a valid data name of the maximal length whose case-folded form is longer (sharp s folds to "ss") */
#include <stdio.h>
#include <unicode/ustring.h>
#include "cif.h"
static int probe(int nchars, UChar fill, int first_scalar) {
    static UChar name[5000]; UChar code[4], other[4], t[4]; cif_tp *cif = NULL; cif_container_tp *blk = NULL; cif_value_tp *v = NULL, *v2 = NULL; int i, rc, rc2;
    name[0] = '_'; for (i = 1; i < nchars; i++) name[i] = fill; name[nchars] = 0;
    u_uastrcpy(code, "b"); u_uastrcpy(other, "_o"); u_uastrcpy(t, "1");
    cif_create(&cif); cif_create_block(cif, code, &blk); cif_value_create(CIF_UNK_KIND, &v); cif_value_copy_char(v, t);
    if (!first_scalar) cif_container_set_value(blk, other, v);
    rc = cif_container_set_value(blk, name, v);
    rc2 = cif_container_get_value(blk, name, &v2);
    printf("%d x U+%04X, %s scalar of the block: set_value -> %d, get_value -> %d\n", nchars, fill, first_scalar ? "first" : "second", rc, rc2);
    cif_destroy(cif);
    return (rc != 0 || rc2 != 0);
}
int main(void) {
    int bad = 0;
    bad |= probe(2048, 'a', 1);
    bad |= probe(2048, 0x00DF, 0);
    bad |= probe(2048, 0x00DF, 1);
    bad |= probe(1500, 0x00DF, 1);
    bad |= probe(1000, 0x00DF, 1);
    return bad;
}
