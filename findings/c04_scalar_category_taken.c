/* replay for C04 (the scalar category "" cannot be given to or taken from a loop): cif_loop_set_category(scalar loop, NULL)
 * skips both guards and removes the reserved category from the container's scalar loop.
 * build (from /repo): cc -w -I src findings/c04_scalar_category_taken.c -o t -Lsrc/.libs -lcif -licuuc -licuio -lsqlite3 -lm
 * exit status: 0 = the call is refused with CIF_RESERVED_LOOP and the scalar loop is still found by its category */
#include <stdio.h>
#include <unicode/ustring.h>
#include "cif.h"
int main(void) {
    cif_tp *cif = NULL; cif_container_tp *blk = NULL; cif_loop_tp *loop = NULL, *again = NULL; cif_value_tp *v = NULL;
    UChar code[4], name[4], empty[1] = { 0 }, other[4]; int rc, bad = 0;
    u_uastrcpy(code, "b"); u_uastrcpy(name, "_x"); u_uastrcpy(other, "c");
    cif_create(&cif); cif_create_block(cif, code, &blk);
    cif_value_create(CIF_UNK_KIND, &v); cif_container_set_value(blk, name, v);
    rc = cif_container_get_category_loop(blk, empty, &loop);
    printf("scalar loop found: rc=%d\n", rc);
    if (rc) return 9;
    rc = cif_loop_set_category(loop, other);
    printf("set_category(scalar loop, \"c\")  -> %d (expected %d CIF_RESERVED_LOOP)\n", rc, CIF_RESERVED_LOOP);
    if (rc != CIF_RESERVED_LOOP) bad = 1;
    rc = cif_loop_set_category(loop, NULL);
    printf("set_category(scalar loop, NULL) -> %d (expected %d CIF_RESERVED_LOOP)\n", rc, CIF_RESERVED_LOOP);
    if (rc != CIF_RESERVED_LOOP) bad = 1;
    rc = cif_container_get_category_loop(blk, empty, &again);
    printf("scalar loop looked up again: rc=%d (expected 0)\n", rc);
    if (rc != CIF_OK) bad = 1;
    return bad;
}
