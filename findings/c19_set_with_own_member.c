/* replay for C19 / C16: cif_value_set_element_at(list, i, e) where e is a member of list[i] (the documented contract copies the
 * new value onto the existing element).  cif_value_clone() cleans the destination before it reads the source, so the source
 * has been released by the time it is copied: use after free (valgrind: invalid read in cif_value_clone), and a failed copy
 * would leave the element emptied.  Same for a table entry through cif_value_set_item_by_key.
 * build (from /repo): cc -w -g -I src findings/c19_set_with_own_member.c -o t -Lsrc/.libs -lcif -licuuc -licuio -lsqlite3 -lm
 * run under valgrind: valgrind -q --error-exitcode=3 ./t     exit status 0 = the element now equals the former member */
#include <stdio.h>
#include <stdlib.h>
#include <unicode/ustring.h>
#include "cif.h"
int main(void) {
    cif_value_tp *outer = NULL, *inner = NULL, *s = NULL, *e = NULL, *tgt = NULL; UChar t[8], *back = NULL; int rc, bad = 0;
    u_uastrcpy(t, "member");
    cif_value_create(CIF_LIST_KIND, &outer); cif_value_create(CIF_LIST_KIND, &inner);
    cif_value_create(CIF_UNK_KIND, &s); cif_value_copy_char(s, t);
    cif_value_insert_element_at(inner, 0, s);
    cif_value_insert_element_at(outer, 0, inner);          /* outer = [ [ 'member' ] ] */
    cif_value_get_element_at(outer, 0, &tgt);
    cif_value_get_element_at(tgt, 0, &e);                   /* e = outer[0][0], by reference */
    rc = cif_value_set_element_at(outer, 0, e);             /* outer[0] = its own member */
    printf("set_element_at -> %d; outer[0] is now of kind %d (expected %d, CHAR)\n", rc, (int) cif_value_kind(tgt), (int) CIF_CHAR_KIND);
    if (rc != CIF_OK || cif_value_kind(tgt) != CIF_CHAR_KIND) bad = 1;
    else if (cif_value_get_text(tgt, &back) != CIF_OK || u_strcmp(back, t) != 0) { printf("text differs\n"); bad = 1; }
    free(back);
    cif_value_free(outer); cif_value_free(inner); cif_value_free(s);
    return bad;
}
