/* replay for C03 / C17: a read error of the byte stream after the first buffer makes cif_parse return an uninitialised
 * variable: ustream_read_chars returns -1 without storing through error_code, get_more_chars returns its local read_error.
 * The stream (fopencookie) serves comment lines and then fails with EIO.
 * build (from /repo): cc -w -I src findings/c03_io_error_code.c -o t -Lsrc/.libs -lcif -licuuc -licuio -lsqlite3 -lm
 * exit status: 0 = cif_parse reports the failure with the same defined, non-zero code whatever lies on the stack */
#define _GNU_SOURCE
#include <stdio.h>
#include <stdlib.h>
#include <string.h>
#include <errno.h>
#include "cif.h"
static size_t served, fail_after;
static ssize_t rd(void *c, char *buf, size_t n) {
    size_t i; if (served >= fail_after) { errno = EIO; return -1; }
    if (n > fail_after - served) n = fail_after - served;
    for (i = 0; i < n; i++) buf[i] = ((served + i) % 16 == 15) ? '\n' : '#';
    served += n; return n; }
static int cb(int code, size_t l, size_t c, const UChar *t, size_t n, void *d) { return code; }
static int once(size_t after, int fill) {
    cookie_io_functions_t io = { rd, NULL, NULL, NULL };
    struct cif_parse_opts_s *o = NULL; cif_tp *cif = NULL; FILE *f; int rc; volatile char junk[8192];
    memset((void *) junk, fill, sizeof junk);      /* what the callee's locals will find on the stack */
    served = 0; fail_after = after;
    f = fopencookie(NULL, "r", io);
    cif_parse_options_create(&o); o->error_callback = cb;
    rc = cif_parse(f, o, &cif);
    fclose(f); free(o); if (cif) cif_destroy(cif);
    return rc;
}
int main(void) {
    int a = once(10000, 0x11), b = once(10000, 0x7f), c = once(10000, 0);
    printf("read error after 10000 bytes: cif_parse returned %d, %d and %d on three runs differing only in stack contents\n", a, b, c);
    if (a != b || b != c || a == 0 || a < 0 || a > 141) { printf("  <-- not a defined error code\n"); return 1; }
    return 0;
}
