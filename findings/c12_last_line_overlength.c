/* replay for C12 (each class of input defect is reported with its code): an over-length line is reported where its terminator
 * is consumed; the last line of a file that lacks a terminator is never followed by one, and goes unreported.
 * Four documents: the same 2100-character line with and without final newline (value, trailing blanks, comment).
 * build (from /repo): cc -w -I src findings/c12_last_line_overlength.c -o t -Lsrc/.libs -lcif -licuuc -licuio -lsqlite3 -lm
 * exit status: number of documents whose over-length line was not reported exactly once */
#include <stdio.h>
#include <string.h>
#include <unicode/ustring.h>
#include "cif.h"
static int n108, nother;
static int ecb(int code, size_t line, size_t col, const UChar *t, size_t l, void *d) { if (code == CIF_OVERLENGTH_LINE) n108++; else nother++; return 0; }
static int run(const char *what, const char *head, char fill, int n, const char *tail) {
    FILE *f = tmpfile(); struct cif_parse_opts_s *po = NULL; cif_tp *cif = NULL; int i, rc;
    fputs("#\\#CIF_2.0\ndata_b\n", f); fputs(head, f); for (i = 0; i < n; i++) fputc(fill, f); fputs(tail, f); rewind(f);
    cif_parse_options_create(&po); po->error_callback = ecb; n108 = nother = 0;
    rc = cif_parse(f, po, &cif);
    printf("%-46s rc=%d  CIF_OVERLENGTH_LINE reported %d time(s), other errors %d\n", what, rc, n108, nother);
    fclose(f); if (cif) cif_destroy(cif);
    return (n108 != 1);
}
int main(void) {
    int bad = 0;
    bad += run("long value, newline at the end", "_x ", 'a', 2100, "\n");
    bad += run("long value, no newline at the end", "_x ", 'a', 2100, "");
    bad += run("trailing blanks, no newline at the end", "_x 1", ' ', 2100, "");
    bad += run("long comment, no newline at the end", "_x 1 #", 'c', 2100, "");
    bad += (run("short last line without newline (control)", "_x ", 'a', 10, "") != 1);   /* must report nothing */
    return bad;
}
