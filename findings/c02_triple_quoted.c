/* replay: cif_write fails (CIF_ERROR) for a single-line value that needs triple quotes */
#include <stdio.h>
#include <unicode/ustring.h>
#include "cif.h"
static int try(const char *s8) {
    cif_tp *cif = NULL; cif_container_tp *blk = NULL; cif_value_tp *v = NULL;
    UChar code[8], name[8], txt[256];
    int rc;
    FILE *f = tmpfile();
    u_uastrcpy(code, "b"); u_uastrcpy(name, "_v");
    u_unescape(s8, txt, 256);
    if (cif_create(&cif) || cif_create_block(cif, code, &blk)) return 99;
    if (cif_value_create(CIF_UNK_KIND, &v) || cif_value_copy_char(v, txt)) return 99;
    if (cif_container_set_value(blk, name, v)) return 99;
    rc = cif_write(f, NULL, cif);
    printf("value <%s>: cif_write rc=%d\n", s8, rc);
    fclose(f); cif_value_free(v); cif_container_free(blk); cif_destroy(cif);
    return rc;
}
int main(void) {
    int bad = 0;
    bad |= try("it's \\\"x\\\"");
    bad |= try("a'b\\\"c");
    bad |= try("a'\\\"\\nb");
    bad |= try("first line with ' and \\\"\\nsecond line");
    return bad != 0;
}
