/* replay: `data_b _x [1 2]` with and without a UTF-8 byte-order mark under prefer_cif2 = 0, 1, 5, 19, 20: with the BOM the preference 1..19 was ignored (fixed in /repo, see known_findings.json) */
#include <stdio.h>
#include <string.h>
#include <unicode/ustring.h>
#include "cif.h"
static int n; static int ecb(int code, size_t line, size_t col, const UChar *t, size_t l, void *d) { n++; return 0; }
static int run(const char *doc, int len, int prefer, const char *what) {
    FILE *f = tmpfile(); cif_tp *cif = NULL; struct cif_parse_opts_s *po = NULL; int rc; cif_container_tp *b = NULL; cif_value_tp *v = NULL; UChar code[4], name[4];
    fwrite(doc, 1, len, f); rewind(f);
    cif_parse_options_create(&po); po->error_callback = ecb; po->prefer_cif2 = prefer; n = 0;
    rc = cif_parse(f, po, &cif);
    u_uastrcpy(code, "b"); u_uastrcpy(name, "_x");
    if (rc == 0 && !cif_get_block(cif, code, &b) && !cif_container_get_value(b, name, &v))
        printf("%-28s prefer_cif2=%2d: errors=%d kind=%d (%s)\n", what, prefer, n, (int) cif_value_kind(v), cif_value_kind(v) == CIF_LIST_KIND ? "list: CIF 2.0 rules" : "not a list: CIF 1.1 rules");
    else printf("%-28s prefer_cif2=%2d: rc=%d errors=%d\n", what, prefer, rc, n);
    return 0;
}
int main(void) {
    const char bom[] = "\xef\xbb\xbf" "data_b\n_x [1 2]\n";
    const char nobom[] = "data_b\n_x [1 2]\n";
    int p[] = {0, 1, 5, 19, 20}, i;
    for (i = 0; i < 5; i++) { run(nobom, sizeof nobom - 1, p[i], "no BOM, no version comment"); run(bom, sizeof bom - 1, p[i], "UTF-8 BOM, no version comment"); }
    return 0;
}
