/* replay: one allocation fails while a stored list holding a number is read back; the text already deserialised leaks */
#include <stdio.h>
#include <stdlib.h>
#include <unicode/ustring.h>
#include "cif.h"
extern void arm_failmalloc(void); extern void disarm_failmalloc(void); extern long failmalloc_count(void);
static UChar *my_dup(const UChar *s) { UChar *d = (UChar *) malloc((u_strlen(s) + 1) * sizeof(UChar)); u_strcpy(d, s); return d; }
int main(void) {
    cif_tp *cif = NULL; cif_container_tp *blk = NULL; cif_value_tp *list = NULL, *e = NULL, *got = NULL;
    UChar code[8], name[8], num[32]; int rc;
    u_uastrcpy(code, "b"); u_uastrcpy(name, "_l"); u_uastrcpy(num, "12.345(67)");
    if (cif_create(&cif) || cif_create_block(cif, code, &blk)) return 2;
    if (cif_value_create(CIF_LIST_KIND, &list) || cif_value_create(CIF_UNK_KIND, &e)) return 2;
    if (cif_value_parse_numb(e, my_dup(num))) return 2;   /* hmm: takes ownership of a copy */
    if (cif_value_insert_element_at(list, 0, e)) return 2;
    if (cif_container_set_value(blk, name, list)) return 2;
    arm_failmalloc();
    rc = cif_container_get_value(blk, name, &got);
    disarm_failmalloc();
    fprintf(stderr, "get_value rc=%d after %ld mallocs\n", rc, failmalloc_count());
    if (rc == 0) cif_value_free(got);
    cif_value_free(e); cif_value_free(list); cif_container_free(blk); cif_destroy(cif);
    return 0;
}
