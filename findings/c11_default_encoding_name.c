/* replay: a Latin-1 CIF 1.1 file parsed with default_encoding_name = "ISO-8859-1": decoded correctly only with force_default_encoding (fixed in /repo, see known_findings.json) */
#include <stdio.h>
#include <string.h>
#include <unicode/ustring.h>
#include "cif.h"
static int n; static int ecb(int code, size_t line, size_t col, const UChar *t, size_t l, void *d) { n++; printf("  callback %d at line %d\n", code, (int) line); return 0; }
static int run(int force) {
    const char doc[] = "data_b\n_x caf\xe9\n";
    FILE *f = tmpfile(); cif_tp *cif = NULL; struct cif_parse_opts_s *po = NULL; int rc; cif_container_tp *b = NULL; cif_value_tp *v = NULL; UChar *t = NULL; UChar code[4], name[4];
    fwrite(doc, 1, sizeof doc - 1, f); rewind(f);
    cif_parse_options_create(&po); po->error_callback = ecb; po->default_encoding_name = "ISO-8859-1"; po->force_default_encoding = force; n = 0;
    rc = cif_parse(f, po, &cif);
    u_uastrcpy(code, "b"); u_uastrcpy(name, "_x");
    if (rc == 0 && !cif_get_block(cif, code, &b) && !cif_container_get_value(b, name, &v) && !cif_value_get_text(v, &t))
        printf("force=%d rc=%d errors=%d last char U+%04X (expected U+00E9)\n", force, rc, n, t[u_strlen(t) - 1]);
    else printf("force=%d rc=%d errors=%d\n", force, rc, n);
    return !(t && t[u_strlen(t) - 1] == 0xE9 && n == 0);
}
int main(void) { int bad = run(1); bad |= run(0); return bad; }
