/* Replay for C03 findings: failures returned by cif_parse with ZERO error-callback invocations,
 * a rejecting callback that is ignored, and a negative callback verdict reported as CIF_OK.
 * build: cc -I/repo/src c03_unreported.c -L/repo/src/.libs -lcif -licuuc -licuio -lsqlite3 */
#include <stdio.h>
#include <string.h>
#include "cif.h"

static int calls, reject_code, reject_with;
static int on_error(int code, size_t line, size_t col, const UChar *text, size_t len, void *data) {
    calls++;
    if (code == reject_code) return reject_with;
    return 0;
}
static int loop_start_result, packet_start_result;
static int on_loop_start(cif_loop_tp *l, void *c) { return loop_start_result; }
static int on_packet_start(cif_packet_tp *p, void *c) { return packet_start_result; }

static int parse(const char *text, int frames, cif_handler_tp *h) {
    FILE *f = tmpfile();
    struct cif_parse_opts_s *opts = NULL;
    cif_tp *cif = NULL;
    int rc;
    fputs(text, f); rewind(f);
    cif_parse_options_create(&opts);
    opts->error_callback = on_error;
    opts->max_frame_depth = frames;
    opts->handler = h;
    calls = 0;
    rc = cif_parse(f, opts, &cif);
    if (cif) (void) cif_destroy(cif);
    fclose(f);
    return rc;
}

int main(void) {
    int rc, bad = 0;
    cif_handler_tp h;
    reject_code = -12345; reject_with = 0;
    rc = parse("#\\#CIF_2.0\ndata_a\n_ 1\n", 1, NULL);
    printf("lone '_' scalar          : rc=%d callbacks=%d (a failure must be preceded by a callback)\n", rc, calls);
    if (rc != 0 && calls == 0) bad = 1;
    rc = parse("#\\#CIF_2.0\ndata_a\nloop_ _ _b 1 2\n", 1, NULL);
    printf("lone '_' in loop header  : rc=%d callbacks=%d\n", rc, calls);
    if (rc != 0 && calls == 0) bad = 1;
    rc = parse("#\\#CIF_2.0\ndata_a\nloop_ _a _a 1 2\n", 1, NULL);
    printf("duplicate name in header : rc=%d callbacks=%d\n", rc, calls);
    if (rc != 0 && calls == 0) bad = 1;
    reject_code = CIF_FRAME_NOT_ALLOWED; reject_with = 77;
    rc = parse("#\\#CIF_2.0\ndata_a\nsave_f _x 1 save_\n", 0, NULL);
    printf("FRAME_NOT_ALLOWED rejected with 77: rc=%d callbacks=%d (expected rc=77)\n", rc, calls);
    if (rc != 77) bad = 1;
    reject_code = CIF_MISSING_VALUE; reject_with = -7;
    rc = parse("#\\#CIF_2.0\ndata_a\n_x\n_y 2\n", 1, NULL);
    printf("MISSING_VALUE rejected with -7   : rc=%d callbacks=%d (expected rc=-7)\n", rc, calls);
    if (rc != -7) bad = 1;
    memset(&h, 0, sizeof(h));
    h.handle_loop_start = on_loop_start; h.handle_packet_start = on_packet_start;
    reject_code = -12345;
    loop_start_result = 55; packet_start_result = 0;
    rc = parse("#\\#CIF_2.0\ndata_a\nloop_ _a _b 1 2\n", 1, &h);
    printf("handle_loop_start returns 55     : rc=%d (expected 55)\n", rc);
    if (rc != 55) bad = 1;
    loop_start_result = 0; packet_start_result = 56;
    rc = parse("#\\#CIF_2.0\ndata_a\nloop_ _a _b 1 2\n", 1, &h);
    printf("handle_packet_start returns 56   : rc=%d (expected 56)\n", rc);
    if (rc != 56) bad = 1;
    return bad;
}
