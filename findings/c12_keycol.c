/* replay: the colon of a table key was not counted in the column: an over-long line with table keys escaped CIF_OVERLENGTH_LINE */
#include <stdio.h>
#include <stdlib.h>
#include <string.h>
#include "cif.h"
static int n108;
static int cb(int code, size_t line, size_t col, const UChar *t, size_t len, void *d) { if (code == 108) n108++; return 0; }
static int run(int total) {
    FILE *f = tmpfile(); struct cif_parse_opts_s *o = NULL; cif_tp *cif = NULL; int i; const char *pre = "_t {'a':1 'b':2 'c':";
    fprintf(f, "#\\#CIF_2.0\ndata_b\n%s", pre);
    for (i = 0; i < total - (int) strlen(pre) - 1; i++) fputc('9', f);
    fputs("}\n", f); rewind(f);
    cif_parse_options_create(&o); o->error_callback = cb; n108 = 0;
    cif_parse(f, o, &cif); cif_destroy(cif); free(o); fclose(f);
    return n108;
}
int main(void) { int l, bad = 0; for (l = 2047; l <= 2052; l++) { int r = run(l); printf("line of %d with 3 keys: over-length reports %d\n", l, r); if ((l > 2048) != (r > 0)) bad = 1; } return bad; }
