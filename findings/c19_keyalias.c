/* replay: re-spelling an existing packet item frees the entry's live hash key (map.c cif_map_set_item) */
#include <stdio.h>
#include <unicode/ustring.h>
#include "cif.h"
int main(void) {
    cif_packet_tp *p = NULL; cif_value_tp *v = NULL, *got = NULL;
    UChar n1[8], n2[8]; UChar *names[2];
    u_uastrcpy(n1, "_abc"); u_uastrcpy(n2, "_ABC");
    names[0] = n1; names[1] = NULL;
    if (cif_packet_create(&p, names)) return 2;
    if (cif_value_create(CIF_UNK_KIND, &v)) return 2;
    printf("set_item rc=%d\n", cif_packet_set_item(p, n2, v));
    printf("get_item rc=%d\n", cif_packet_get_item(p, n1, &got));
    cif_value_free(v);
    cif_packet_free(p);
    return 0;
}
