/* replay for C02: a data name of the maximal length (2048 characters) is valid and, as a scalar, is written at the start of a
 * line; in a loop header cif_write indents every name by one space, so the same name makes a 2049-character line, which the
 * parser reports as CIF_OVERLENGTH_LINE when the output is read back.
 * build (from /repo): cc -w -I src findings/c02_long_loop_name.c -o t -Lsrc/.libs -lcif -licuuc -licuio -lsqlite3 -lm
 * exit status: 0 = the written CIF has no line over 2048 characters and re-parses without errors */
#include <stdio.h>
#include <stdlib.h>
#include <string.h>
#include <unicode/ustring.h>
#include "cif.h"
static int maxline(FILE *f) { int c, n = 0, m = 0; rewind(f); while ((c = fgetc(f)) != EOF) { if (c == '\n') { if (n > m) m = n; n = 0; } else if ((c & 0xC0) != 0x80) n++; } return n > m ? n : m; }
static int errs; static int ecb(int code, size_t line, size_t col, const UChar *t, size_t l, void *d) { errs++; if (errs < 4) printf("     parse error %d at line %d\n", code, (int) line); return 0; }
static int one(int namelen) {
    static UChar name[3000]; UChar other[8], code[8], cat[8], val[8];
    UChar *names[3]; cif_tp *cif = NULL, *cif2 = NULL; cif_container_tp *blk = NULL; cif_loop_tp *loop = NULL; cif_packet_tp *pkt = NULL;
    cif_value_tp *v = NULL; struct cif_parse_opts_s *po = NULL; FILE *f = tmpfile(); int i, rc, bad = 0;
    name[0] = '_'; for (i = 1; i < namelen; i++) name[i] = 'a' + (i % 26); name[namelen] = 0;
    u_uastrcpy(other, "_o"); u_uastrcpy(code, "b"); u_uastrcpy(cat, "c"); u_uastrcpy(val, "v");
    names[0] = name; names[1] = other; names[2] = NULL;
    if (cif_create(&cif) || cif_create_block(cif, code, &blk)) return 99;
    if ((rc = cif_container_create_loop(blk, cat, names, &loop)) != 0) { printf("%d: create_loop rc=%d\n", namelen, rc); return 1; }
    cif_packet_create(&pkt, names); cif_packet_get_item(pkt, name, &v); cif_value_copy_char(v, val);
    cif_packet_get_item(pkt, other, &v); cif_value_copy_char(v, val);
    if ((rc = cif_loop_add_packet(loop, pkt)) != 0) { printf("%d: add_packet rc=%d\n", namelen, rc); return 1; }
    if ((rc = cif_write(f, NULL, cif)) != 0) { printf("%d: cif_write rc=%d\n", namelen, rc); return 1; }
    if (maxline(f) > 2048) { printf("name of %d characters in a loop: longest line written %d\n", namelen, maxline(f)); bad = 1; }
    rewind(f); cif_parse_options_create(&po); po->error_callback = ecb; errs = 0;
    rc = cif_parse(f, po, &cif2);
    if (rc != CIF_OK || errs) { printf("name of %d characters in a loop: re-parse rc=%d, %d error(s)\n", namelen, rc, errs); bad = 1; }
    if (!bad) printf("name of %d characters in a loop: ok\n", namelen);
    return bad;
}
int main(void) { int bad = 0; bad |= one(100); bad |= one(2047); bad |= one(2048); return bad; }
