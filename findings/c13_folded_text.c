/* replay: write + re-parse (with unfolding and prefix removal) of text-field values that need line folding: a value ending in a newline lost it (fixed 14c1b5a); a value starting with a semicolon closed the folded field at once (fixed f2bdc1b) */
#include <stdio.h>
#include <stdlib.h>
#include <string.h>
#include <unicode/ustring.h>
#include "cif.h"
static int roundtrip(const UChar *txt, int cif11, const char *what) {
    cif_tp *cif = NULL, *cif2 = NULL; cif_container_tp *blk = NULL, *blk2 = NULL; cif_value_tp *v = NULL, *v2 = NULL;
    UChar code[8], name[8]; UChar *back = NULL;
    struct cif_write_opts_s *wo = NULL; struct cif_parse_opts_s *po = NULL;
    int rc, bad = 0;
    FILE *f = tmpfile();
    u_uastrcpy(code, "b"); u_uastrcpy(name, "_v");
    if (cif_create(&cif) || cif_create_block(cif, code, &blk)) return 99;
    if (cif_value_create(CIF_UNK_KIND, &v) || cif_value_copy_char(v, txt)) return 99;
    if (cif_container_set_value(blk, name, v)) return 99;
    cif_write_options_create(&wo); wo->cif_version = cif11 ? 1 : 0;
    rc = cif_write(f, wo, cif);
    if (rc != CIF_OK) { printf("%s: write rc=%d\n", what, rc); return 1; }
    rewind(f);
    cif_parse_options_create(&po); po->line_folding_modifier = 1; po->text_prefixing_modifier = 1;
    rc = cif_parse(f, po, &cif2);
    if (rc != CIF_OK) { printf("%s: parse rc=%d\n", what, rc); return 1; }
    if (cif_get_block(cif2, code, &blk2) || cif_container_get_value(blk2, name, &v2) || cif_value_get_text(v2, &back)) return 98;
    if (u_strcmp(back, txt) != 0) {
        int i; bad = 1;
        printf("%s: MISMATCH len %d -> %d\n", what, u_strlen(txt), u_strlen(back));
        for (i = 0; txt[i] && back[i] && txt[i] == back[i]; i++) ;
        printf("   first difference at %d: orig %04x back %04x\n", i, txt[i], back[i]);
        if (getenv("DUMP")) { int c; rewind(f); while ((c = fgetc(f)) != EOF) putchar(c); }
    } else printf("%s: ok\n", what);
    fclose(f);
 return bad;
}
int main(void) {
    static UChar t[6000]; int i, n, bad = 0;
    /* 1: long line, then trailing newline */
    n = 0; for (i = 0; i < 3000; i++) t[n++] = 'a' + (i % 26); t[n++] = '\n'; t[n] = 0;
    bad |= roundtrip(t, 1, "v1.1 long line + trailing newline");
    bad |= roundtrip(t, 0, "v2.0 long line + trailing newline");
    /* 2: leading ';' and a long line */
    n = 0; t[n++] = ';'; for (i = 0; i < 3000; i++) t[n++] = 'a' + (i % 26); t[n++] = '\n'; t[n++] = 'x'; t[n] = 0;
    bad |= roundtrip(t, 1, "v1.1 leading semicolon + long line");
    bad |= roundtrip(t, 0, "v2.0 leading semicolon + long line");
    /* 3: long line with blanks (fold points) */
    n = 0; for (i = 0; i < 3000; i++) t[n++] = (i % 7 == 6) ? ' ' : 'a' + (i % 26); t[n++] = '\n'; t[n++] = 'y'; t[n] = 0;
    bad |= roundtrip(t, 1, "v1.1 long line with blanks");
    /* 4: second line begins with ';' and a line is long */
    n = 0; t[n++] = 'q'; t[n++] = '\n'; t[n++] = ';'; for (i = 0; i < 3000; i++) t[n++] = 'a' + (i % 26); t[n] = 0;
    bad |= roundtrip(t, 1, "v1.1 newline-semicolon + long line");
    bad |= roundtrip(t, 0, "v2.0 newline-semicolon + long line");
    /* 5: long line ending in backslash */
    n = 0; for (i = 0; i < 3000; i++) t[n++] = 'a' + (i % 26); t[n++] = '\\'; t[n++] = '\n'; t[n++] = 'z'; t[n] = 0;
    bad |= roundtrip(t, 1, "v1.1 long line ending in backslash");
    /* 6: only long line, no newline */
    n = 0; for (i = 0; i < 5000; i++) t[n++] = 'a' + (i % 26); t[n] = 0;
    bad |= roundtrip(t, 1, "v1.1 single long line");
    /* 7: trailing blank line(s) */
    n = 0; for (i = 0; i < 3000; i++) t[n++] = 'a' + (i % 26); t[n++] = '\n'; t[n++] = '\n'; t[n] = 0;
    bad |= roundtrip(t, 1, "v1.1 long line + two trailing newlines");
    /* 8: prefix protocol with an empty line */
    u_unescape("a\\n;b\\n\\nc", t, 6000);
    bad |= roundtrip(t, 0, "v2.0 prefix + empty line");
    u_unescape("a\\n;b\\n", t, 6000);
    bad |= roundtrip(t, 0, "v2.0 prefix + trailing newline");
    u_unescape("a\\n;b\\n\\n", t, 6000);
    bad |= roundtrip(t, 0, "v2.0 prefix + two trailing newlines");
    u_unescape("\\n;b", t, 6000);
    bad |= roundtrip(t, 0, "v2.0 prefix + leading newline");
    u_unescape(";\\\\\\nx", t, 6000);
    bad |= roundtrip(t, 0, "v2.0 reserved start ;\\");
    u_unescape("ab\\\\\\nx", t, 6000);
    bad |= roundtrip(t, 0, "v2.0 reserved start ab\\");
    u_unescape("ab\\\\\\nx\\n", t, 6000);
    bad |= roundtrip(t, 1, "v1.1 reserved start ab\\ + trailing newline");
    u_unescape("ab\\\\  \\n", t, 6000);
    bad |= roundtrip(t, 1, "v1.1 one line ending backslash blanks newline");
    u_unescape("a\\n;b\\n\\nc\\n'''\\\"\\\"\\\"", t, 6000);
    bad |= roundtrip(t, 0, "v2.0 forced prefix + empty line");
    u_unescape("a\\n;b\\nc'''\\\"\\\"\\\"\\n", t, 6000);
    bad |= roundtrip(t, 0, "v2.0 forced prefix + trailing newline");
    u_unescape("a\\n;b\\nc'''\\\"\\\"\\\"\\n\\n", t, 6000);
    bad |= roundtrip(t, 0, "v2.0 forced prefix + two trailing newlines");
    return bad;
}
