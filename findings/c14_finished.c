/* Replay for the C14 finding: a handler that returns the positive code 1 (== CIF_FINISHED) from inside a loop
 * is mistaken by walk_loop for the end of the packet iteration: the walk continues and cif_walk returns CIF_OK.
 * build: cc -I/repo/src c14_finished.c -L/repo/src/.libs -lcif -licuuc -licuio -lsqlite3 */
#include <stdio.h>
#include <string.h>
#include "cif.h"
static int code, later_calls, fired;
static int on_packet_start(cif_packet_tp *p, void *c) { if (!fired) { fired = 1; return code; } later_calls++; return 0; }
static int on_loop_end(cif_loop_tp *l, void *c) { if (fired) later_calls++; return 0; }
static int on_block_end(cif_container_tp *b, void *c) { if (fired) later_calls++; return 0; }
static int run(int c) {
    FILE *f = tmpfile(); cif_tp *cif = NULL; cif_handler_tp h; int rc;
    fputs("#\\#CIF_2.0\ndata_a\nloop_ _x _y 1 2 3 4\n", f); rewind(f);
    cif_parse(f, NULL, &cif); fclose(f);
    memset(&h, 0, sizeof h); h.handle_packet_start = on_packet_start; h.handle_loop_end = on_loop_end; h.handle_block_end = on_block_end;
    code = c; fired = 0; later_calls = 0;
    rc = cif_walk(cif, &h, NULL);
    (void) cif_destroy(cif);
    printf("handler returns %d: cif_walk returns %d, %d callbacks after the error (expected %d, 0)\n", c, rc, later_calls, c);
    return rc != c || later_calls != 0;
}
int main(void) { int bad = 0; bad |= run(7); bad |= run(CIF_FINISHED); return bad; }
