/*
 * Replay for C18 (statistics of cif_analyze_string are exact): when the FIRST line terminator of the string is a CR LF
 * pair, length_first is reported as 0 whatever the length of the first line.
 *
 * build (from /repo):  cc -w -I src -I src/internal findings.c -o t -Lsrc/.libs -lcif -licuuc -licuio -lsqlite3 -lm
 * exit status: number of strings whose reported length_first differs from the true one
 */
#include <stdio.h>
#include <string.h>
#include <unicode/ustring.h>
#include "cif.h"

static int first_line_length(const UChar *s) {
    int n = 0;
    while (s[n] && s[n] != 0x0a && s[n] != 0x0d) n++;
    return n;
}

int main(void) {
    static const char *cases[] = { "ab\ncd", "ab\rcd", "ab\r\ncd", "abcdef\r\nx\ny", "\r\nxyz", "ab\ncd\r\nef", "abc", NULL };
    int bad = 0, i;

    for (i = 0; cases[i]; i++) {
        UChar buf[64];
        struct cif_string_analysis_s a;
        int rc;

        u_charsToUChars(cases[i], buf, (int32_t) strlen(cases[i]) + 1);
        memset(&a, 0, sizeof(a));
        rc = cif_analyze_string(buf, 1, 1, 2048, &a);
        printf("case %d rc=%d lines=%d length_first=%d (true %d) length_last=%d length_max=%d%s\n", i, rc, (int) a.num_lines,
                (int) a.length_first, first_line_length(buf), (int) a.length_last, (int) a.length_max,
                (a.length_first != first_line_length(buf)) ? "   <-- WRONG" : "");
        if (a.length_first != first_line_length(buf)) bad++;
    }
    return bad;
}
