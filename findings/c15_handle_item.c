/* Replay for C15 findings: (a) looped handle_item is delivered for skipped packets,
 * (b) scalar handle_item is not delivered in syntax-only mode.
 * build: cc -I/repo/src c15_handle_item.c -L/repo/src/.libs -lcif -licuuc -licuio -lsqlite3 */
#include <stdio.h>
#include <string.h>
#include "cif.h"

static int items;
static int skip_packets;
static int on_item(UChar *name, cif_value_tp *value, void *ctx) { items++; return CIF_TRAVERSE_CONTINUE; }
static int on_packet_start(cif_packet_tp *p, void *ctx) { return skip_packets ? CIF_TRAVERSE_SKIP_CURRENT : CIF_TRAVERSE_CONTINUE; }

static int parse(const char *text, int store, cif_handler_tp *h) {
    FILE *f = tmpfile();
    struct cif_parse_opts_s *opts = NULL;
    cif_tp *cif = NULL;
    int rc;
    fputs(text, f); rewind(f);
    cif_parse_options_create(&opts);
    opts->handler = h;
    rc = cif_parse(f, opts, store ? &cif : NULL);
    if (cif) cif_destroy(cif);
    fclose(f);
    return rc;
}

int main(void) {
    cif_handler_tp h;
    int bad = 0, rc;
    memset(&h, 0, sizeof(h));
    h.handle_item = on_item;
    h.handle_packet_start = on_packet_start;

    /* (a) every packet is skipped: no looped item may be reported; the scalar item is */
    items = 0; skip_packets = 1;
    rc = parse("#\\#CIF_2.0\ndata_a\n_s 1\nloop_ _x _y 1 2 3 4\n", 1, &h);
    printf("(a) rc=%d items reported with all packets skipped: %d (expected 1)\n", rc, items);
    if (items != 1) bad = 1;

    /* (b) the same document in storing and syntax-only mode must produce the same item callbacks */
    items = 0; skip_packets = 0;
    parse("#\\#CIF_2.0\ndata_a\n_s 1\nloop_ _x _y 1 2 3 4\n", 1, &h);
    { int storing = items; items = 0;
      parse("#\\#CIF_2.0\ndata_a\n_s 1\nloop_ _x _y 1 2 3 4\n", 0, &h);
      printf("(b) items: storing=%d syntax-only=%d (expected equal)\n", storing, items);
      if (storing != items) bad = 1; }
    return bad;
}
