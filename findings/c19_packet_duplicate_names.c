/* replay for C19 (packets obey the map contract with data-name matching): cif_packet_create with two names that normalise
 * alike makes two entries under one hash key (uthash requires unique keys): the packet lists two names, and after the item
 * has been removed it is still found.
 * build (from /repo): cc -w -I src findings/c19_packet_duplicate_names.c -o t -Lsrc/.libs -lcif -licuuc -licuio -lsqlite3 -lm
 * exit status: 0 = one item, gone after its removal */
#include <stdio.h>
#include <unicode/ustring.h>
#include "cif.h"
int main(void) {
    UChar a[4], b[4]; UChar *names[3]; cif_packet_tp *p = NULL; cif_value_tp *v = NULL; const UChar **got = NULL; int rc, n = 0, bad = 0;
    u_uastrcpy(a, "_a"); u_uastrcpy(b, "_A"); names[0] = a; names[1] = b; names[2] = NULL;
    rc = cif_packet_create(&p, names);
    printf("cif_packet_create({_a, _A}) -> %d\n", rc);
    if (rc != CIF_OK) return 0;                       /* refusing the repeated name would be a consistent answer too */
    cif_packet_get_names(p, &got); for (n = 0; got && got[n]; n++) ;
    printf("the packet lists %d name(s) (expected 1)\n", n); if (n != 1) bad = 1;
    rc = cif_packet_remove_item(p, a, NULL); printf("remove _a -> %d\n", rc);
    rc = cif_packet_get_item(p, a, &v); printf("get _a after its removal -> %d (expected %d, CIF_NOSUCH_ITEM)\n", rc, CIF_NOSUCH_ITEM);
    if (rc != CIF_NOSUCH_ITEM) bad = 1;
    return bad;
}
