/* replay for C17 / C16: cif_write of a CIF with a loop that has a category; the allocation by which write_loop_start obtains
 * the category (cif_loop_get_category -> cif_u_strdup) fails; write_loop_start then calls free() on its `category` local,
 * which was never set.  Linked with findings/tools/failmalloc.c; FAIL_AT selects the allocation that fails.
 * build (from /repo): cc -w -I src findings/c17_write_loop_category_oom.c findings/tools/failmalloc.c -o t -Lsrc/.libs -lcif -licuuc -licuio -lsqlite3 -lm -ldl
 * run: for n in $(seq 1 400); do FAIL_AT=$n ./t || echo "FAIL_AT=$n -> $?"; done   (a crash shows as status 134 / 139)
 * each run prints the result of cif_write; valgrind reports "Conditional jump or move depends on uninitialised value" /
 * "Invalid free()" in write_loop_start for the FAIL_AT that hits the category copy */
#include <stdio.h>
#include <stdlib.h>
#include <string.h>
#include <unicode/ustring.h>
#include "cif.h"
extern void arm_failmalloc(void); extern void disarm_failmalloc(void); extern long failmalloc_count(void);
int main(void) {
    cif_tp *cif = NULL; cif_container_tp *blk = NULL; cif_loop_tp *loop = NULL; cif_packet_tp *pkt = NULL; cif_value_tp *v = NULL;
    UChar code[4], cat[8], a[4], t[4]; UChar *names[2]; FILE *out = fopen("/dev/null", "w"); int rc;
    volatile char junk[4096];
    u_uastrcpy(code, "b"); u_uastrcpy(cat, "categ"); u_uastrcpy(a, "_a"); u_uastrcpy(t, "1");
    names[0] = a; names[1] = NULL;
    if (cif_create(&cif) || cif_create_block(cif, code, &blk) || cif_container_create_loop(blk, cat, names, &loop)) return 2;
    cif_packet_create(&pkt, names); cif_packet_get_item(pkt, a, &v); cif_value_copy_char(v, t);
    if (cif_loop_add_packet(loop, pkt)) return 2;
    memset((void *) junk, 0x41, sizeof junk);     /* make the stale stack contents an invalid pointer */
    arm_failmalloc();
    rc = cif_write(out, NULL, cif);
    disarm_failmalloc();
    fprintf(stderr, "FAIL_AT=%s: cif_write rc=%d after %ld mallocs\n", getenv("FAIL_AT") ? getenv("FAIL_AT") : "-", rc, failmalloc_count());
    return 0;
}
