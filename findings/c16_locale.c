/* Replay for the C16 finding: cif_value_init_numb left LC_NUMERIC set to "C".
 * Needs any installed locale other than C/POSIX (uses C.UTF-8 / C.utf8 if that is all there is).
 * build: cc -I/repo/src c16_locale.c -L/repo/src/.libs -lcif -licuuc -licuio -lsqlite3 */
#include <stdio.h>
#include <string.h>
#include <locale.h>
#include "cif.h"
int main(void) {
    const char *cands[] = { "de_DE.UTF-8", "en_US.UTF-8", "C.UTF-8", "C.utf8", "POSIX", NULL };
    const char *before = NULL, *after; char saved[64]; cif_value_tp *v = NULL; int i;
    for (i = 0; cands[i] && !before; i++) before = setlocale(LC_NUMERIC, cands[i]);
    if (!before) { printf("no alternative locale installed\n"); return 2; }
    strncpy(saved, before, sizeof saved - 1); saved[sizeof saved - 1] = 0;
    cif_value_create(CIF_UNK_KIND, &v);
    cif_value_init_numb(v, 1.5, 0.1, 1, 5);
    after = setlocale(LC_NUMERIC, NULL);
    printf("LC_NUMERIC before: %s  after cif_value_init_numb: %s\n", saved, after);
    cif_value_free(v);
    return strcmp(saved, after) != 0;
}
