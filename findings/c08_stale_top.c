/* Replay for the C08 finding: scan_delim_string reads `top` after PEEK_CHAR may have moved the scan buffer.
 * CIF 1.1 mode, all errors accepted.  The document is identical except for the length of one comment line;
 * the value of _v must not depend on it.
 * build: cc -I/repo/src c08_stale_top.c -L/repo/src/.libs -lcif -licuuc -licuio -lsqlite3 */
#include <stdio.h>
#include <stdlib.h>
#include <string.h>
#include <unicode/ustring.h>
#include "cif.h"

#define TOKLEN 5000

static int check(int pad) {
    FILE *f = tmpfile();
    struct cif_parse_opts_s *opts = NULL;
    cif_tp *cif = NULL;
    cif_block_tp *block = NULL;
    cif_value_tp *val = NULL;
    UChar name[8], code[4], *text = NULL;
    int i, rc, ok = 0;

    fputs("data_d\n", f);
    for (i = 0; i < 1305; i++) { int j; fputc('#', f); for (j = 0; j < 98; j++) fputc('c', f); fputc('\n', f); }
    fputc('#', f); for (i = 0; i < pad; i++) fputc('p', f); fputc('\n', f);
    fputs("_v 'a'", f); for (i = 0; i < TOKLEN; i++) fputc('x', f); fputs("'\n_w 1\n", f);
    rewind(f);
    cif_parse_options_create(&opts);
    opts->prefer_cif2 = -1;                      /* CIF 1.1 */
    opts->error_callback = cif_parse_error_ignore;
    rc = cif_parse(f, opts, &cif);
    fclose(f);
    if (rc != CIF_OK || !cif) { if (cif) (void) cif_destroy(cif); return -1; }
    u_uastrcpy(code, "d"); u_uastrcpy(name, "_v");
    if (cif_get_block(cif, code, &block) == CIF_OK && cif_container_get_value(block, name, &val) == CIF_OK
            && cif_value_get_text(val, &text) == CIF_OK && text) {
        ok = (u_strlen(text) == TOKLEN + 2) && text[0] == 'a' && text[1] == '\'' && text[2] == 'x' && text[TOKLEN + 1] == 'x';
        if (!ok) printf("pad=%d: _v has length %d (expected %d)\n", pad, (int) u_strlen(text), TOKLEN + 2);
    } else { printf("pad=%d: _v missing\n", pad); }
    free(text); if (val) cif_value_free(val); if (block) cif_block_free(block);
    (void) cif_destroy(cif);
    return ok;
}

int main(void) {
    int pad, bad = 0, n = 0;
    for (pad = 0; pad < 4200; pad++) { int r = check(pad); n++; if (r != 1) { bad++; if (bad > 5) break; } }
    printf("%d alignments tried, %d give a different result\n", n, bad);
    return bad ? 1 : 0;
}
