"""Range tests on UTF-16 code units must cut exactly at the boundaries of the Unicode / CIF character classes.

A relational comparison `x OP K` splits the integers at a threshold T (`x >= K`: T = K; `x > K`: T = K + 1; `x < K`: T = K;
`x <= K`: T = K + 1).  When K lies within one of a class boundary, T must be that boundary itself: `x > 0xDC00` or
`x < 0xFDEF` are off by one - they put the first trail surrogate, or the last non-character, on the wrong side.  The table
below is the set of boundaries (first code unit of a class, or first one after it) taken from the Unicode standard and
the CIF 2.0 character set, not from the code."""
from .facts import strip, const
from .interp import path

BOUNDARIES = {
    0xD800: "first lead (high) surrogate",
    0xDC00: "first trail (low) surrogate = one past the last lead surrogate",
    0xE000: "one past the last trail surrogate",
    0xFDD0: "first of the non-characters U+FDD0..U+FDEF",
    0xFDF0: "one past the non-characters U+FDD0..U+FDEF",
    0xFFFE: "first of the non-characters U+FFFE, U+FFFF",
    0x10000: "first supplementary code point / one past the BMP",
    0x110000: "one past the last code point",
}


def rule(prog, r, units=None):
    n = 0
    for fn in prog.all_functions():
        if units and fn.unit not in units:
            continue
        seen = set()
        trees = []
        for b in fn.blocks.values():
            trees += list(b.roots)
        for (b, i, root, x) in fn.eval_sites("bin"):
            if x.get("op") not in ("<", "<=", ">", ">=") or x.get("id") in seen:
                continue
            seen.add(x.get("id"))
            for side, other, flip in (("rhs", "lhs", False), ("lhs", "rhs", True)):
                K = const(x.get(side))
                if K is None or const(x.get(other)) is not None:
                    continue
                near = [B for B in BOUNDARIES if abs(K - B) <= 1]
                if not near:
                    continue
                op = x["op"]
                if flip:
                    op = {"<": ">", ">": "<", "<=": ">=", ">=": "<="}[op]
                T = K if op in (">=", "<") else K + 1
                n += 1
                key = "%s:L%s:%s %s %#x" % (fn.name, x.get("l"), (path(strip(x.get(other))) or "expr")[:30], op, K)
                if T in BOUNDARIES:
                    r.ok(key, "cuts at %#x (%s)" % (T, BOUNDARIES[T]))
                else:
                    B = min(near, key=lambda bb: abs(K - bb))
                    r.violation(fn.file, fn.name, x.get("l"), "range-boundary:%s:%#x" % (fn.name, K),
                                "the comparison with %#x at L%s cuts the code units at %#x, one off the class boundary %#x (%s): the "
                                "boundary character is classified with the wrong neighbours" % (K, x.get("l"), T, B, BOUNDARIES[B]))
    return n
