"""Compilation database + extraction driver.

The flag set is read from the real build's src/Makefile (DEFS, DEFAULT_INCLUDES,
C_STD_FLAGS, -I uthash) when /repo is configured; `make -n -B` is deliberately
NOT used: GNU make re-makes makefiles even under -n, which would re-run
config.status inside /repo.  Falls back to the frozen flag set otherwise.
"""
import concurrent.futures
import json
import os
import re
import shutil
import subprocess
import sys
import tempfile

VERIF = os.path.dirname(os.path.dirname(os.path.abspath(__file__)))
REPO = os.environ.get("CIFSA_REPO", "/repo")
EXTRACT_BIN = os.path.join(VERIF, "out", "bin", "cifsa-extract")
EXTRACT_SRC = os.path.join(VERIF, "extract", "cifsa-extract.cc")

FROZEN_UNITS = ["cif.c", "ciffile.c", "container.c", "loop.c", "map.c", "packet.c",
                "parser.c", "pktitr.c", "utils.c", "value.c"]


def _make_vars(path):
    vars_ = {}
    try:
        txt = open(path, encoding="latin-1").read()
    except OSError:
        return vars_
    txt = txt.replace("\\\n", " ")
    for m in re.finditer(r"^([A-Za-z_][A-Za-z0-9_]*)\s*=\s*(.*)$", txt, re.M):
        vars_[m.group(1)] = m.group(2).strip()
    return vars_


def units_and_flags(repo=None, srcdir=None, extra=()):
    """Return (units, flags, origin)."""
    repo = repo or REPO
    srcdir = srcdir or os.path.join(repo, "src")
    mk = _make_vars(os.path.join(repo, "src", "Makefile"))
    am = _make_vars(os.path.join(repo, "src", "Makefile.am"))
    units = None
    src_var = mk.get("libcif_la_SOURCES") or am.get("libcif_la_SOURCES")
    if src_var:
        units = [u for u in src_var.split() if u.endswith(".c")]
    origin = "src/Makefile"
    if not units:
        units = list(FROZEN_UNITS)
        origin = "frozen"
    std = "-std=c89"
    cstd = mk.get("C_STD_FLAGS", "")
    m = re.search(r"-std=\S+", cstd)
    if m:
        std = m.group(0)
    defs = mk.get("DEFS", "-DHAVE_CONFIG_H").split() or ["-DHAVE_CONFIG_H"]
    resdir = subprocess.run(["clang", "-print-resource-dir"], capture_output=True, text=True).stdout.strip()
    flags = defs + ["-I" + srcdir, "-I" + repo, std, "-I" + os.path.join(repo, "uthash"),
                    "-resource-dir", resdir, "-w"] + list(extra)
    return units, flags, origin


def ensure_extractor():
    if os.path.exists(EXTRACT_BIN) and os.path.getmtime(EXTRACT_BIN) >= os.path.getmtime(EXTRACT_SRC):
        return
    os.makedirs(os.path.dirname(EXTRACT_BIN), exist_ok=True)
    cxx = subprocess.run(["llvm-config-14", "--cxxflags"], capture_output=True, text=True).stdout.split()
    tmp = EXTRACT_BIN + ".%d.tmp" % os.getpid()
    cmd = ["clang++"] + cxx + ["-std=c++17", "-fno-rtti", "-O1", EXTRACT_SRC, "-o", tmp,
                               "/usr/lib/llvm-14/lib/libclang-cpp.so.14", "/usr/lib/llvm-14/lib/libLLVM-14.so"]
    r = subprocess.run(cmd, capture_output=True, text=True)
    if r.returncode != 0:
        sys.stderr.write(r.stderr)
        raise SystemExit(2)
    os.replace(tmp, EXTRACT_BIN)


def _one(args):
    out, src, flags, env = args
    r = subprocess.run([EXTRACT_BIN, out, src, "--"] + flags, capture_output=True, text=True, env=env)
    return src, r.returncode, r.stderr


def extract(srcdir=None, repo=None, extra=(), outdir=None):
    """Run the extractor on every library unit; returns (dict unit->facts, info)."""
    ensure_extractor()
    repo = repo or REPO
    srcdir = srcdir or os.path.join(repo, "src")
    units, flags, origin = units_and_flags(repo, srcdir, extra)
    own = outdir is None
    if own:
        base = os.path.join(VERIF, "out")
        os.makedirs(base, exist_ok=True)
        outdir = tempfile.mkdtemp(prefix="facts-", dir=base)
    env = dict(os.environ)
    env["CIFSA_REPO"] = repo
    jobs = []
    for u in units:
        src = os.path.join(srcdir, u)
        if not os.path.exists(src):
            raise SystemExit("analysis broken: unit %s missing" % src)
        jobs.append((os.path.join(outdir, u.replace("/", "_") + ".json"), src, flags, env))
    facts = {}
    errors = []
    try:
        with concurrent.futures.ThreadPoolExecutor(max_workers=16) as ex:
            for src, rc, err in ex.map(_one, jobs):
                if rc != 0:
                    errors.append((src, err))
        if errors:
            for src, err in errors:
                sys.stderr.write("extract failed for %s:\n%s\n" % (src, err[-4000:]))
            raise SystemExit(2)
        for out, src, _, _ in jobs:
            with open(out) as fh:
                facts[os.path.basename(src)] = json.load(fh)
    finally:
        if own:
            shutil.rmtree(outdir, ignore_errors=True)
    info = {"units": units, "flags": flags, "flags_origin": origin, "srcdir": srcdir}
    return facts, info
