"""The last line of the input is measured too (C12).

CIF_OVERLENGTH_LINE is tested where a line terminator is consumed.  A last line that lacks a terminator is never followed
by one, so the place that recognises the end of the input (the scanner turns CIF_EOF into the END token) has to make the
test as well: from the store that sets the token type to END, a report of CIF_OVERLENGTH_LINE must be reachable inside the
function.
"""
from .facts import strip, const, macro_name, Broken
from .interp import path
from . import cfgq
from .parserai import indirect_target


def rule(prog, rule_):
    enum = prog.enums.get("token_type")
    if not enum:
        raise Broken("enum token_type not found")
    end_v = next((x["v"] for x in enum.get("enumerators", []) if x["name"] == "END"), None)
    if end_v is None:
        raise Broken("token type END not found")
    n = 0
    for fn in prog.all_functions():
        if fn.unit != "parser.c" or not fn.name.startswith("next_token"):
            continue
        reports = {b.id for (b, i, r, c) in fn.calls() if indirect_target(c) == "error_callback" and c.get("args")
                   and macro_name(c["args"][0]) == "CIF_OVERLENGTH_LINE"}
        for (b, i, r, x) in fn.eval_sites("asg"):
            if x.get("op") != "=" or const(x.get("rhs")) != end_v or "END" not in (strip(x.get("rhs")).get("ms") or ["END"]):
                continue
            lp = path(strip(x.get("lhs"))) or ""
            if not lp.endswith("ttype"):
                continue
            # only the store made on recognising the end of the input (under a test of CIF_EOF)
            n += 1
            key = "%s:END@L%s" % (fn.name, x.get("l"))
            after = cfgq.reach(fn, [b.id]) | {b.id}
            if reports & after:
                rule_.ok(key, "an over-length report is reachable from the recognition of the end of the input")
            else:
                rule_.violation(fn.file, fn.name, x.get("l"), "last-line-not-measured:%s" % fn.name,
                                "where the end of the input is recognised (token type END) no CIF_OVERLENGTH_LINE report is reachable: "
                                "a last line without terminator is never followed by the terminator at which the length is tested, so "
                                "an over-length last line goes unreported")
    return n
