"""The end callback of an element is still made after a child answered SKIP_SIBLINGS (C14).

The property: SKIP_SIBLINGS suppresses exactly the callbacks for the descendants of the element that answered and for that
element's not-yet-visited siblings.  The end callback of the *parent* is neither, so after a child walk answered
SKIP_SIBLINGS (and nobody answered END, an error, or SKIP_CURRENT from the parent's own start handler) the walker function
of the parent must still reach its end handler before it returns.

Uses the exits of the finite-domain interpretation of C14 (`WalkInterp`, all answer classes): ts = (stop, origin, skipcur,
sibl, seq, ...); `sibl` holds the child walks that answered SKIP_SIBLINGS, `seq` the callbacks and child walks made.
"""

END_OF = {"cif_walk": ("handle_cif_end",), "walk_container": ("handle_block_end", "handle_frame_end"),
          "walk_loop": ("handle_loop_end",), "walk_packet": ("handle_packet_end",)}


def rule(prog, rule_, runs):
    n = 0
    for w, ends in END_OF.items():
        it = runs.get(w)
        if it is None or it.overflow:
            continue
        fn = prog.fn(w)
        seen = {}
        for st, av, node in it.exits:
            stop, origin, skipcur, sibl, seq, holders = st.ts[:6]
            if stop or skipcur or not sibl or not seq:
                continue
            if not (av is not None and av.is_const() and av.value() == 0):
                continue            # only ordinary returns (CONTINUE / CIF_OK): other values are another rule's business
            if not seq[0].endswith("_start"):
                continue
            # the start handler itself must have answered CONTINUE: otherwise children were not walked and sibl is empty
            if len(sibl) != 1:
                continue            # judged per child: exits where only this child answered SKIP_SIBLINGS
            for child in sorted(sibl):
                seen.setdefault(child, []).append((any(e in seq for e in ends), st, node))
        for child, lst in sorted(seen.items()):
            n += 1
            key = "%s:after %s answered SKIP_SIBLINGS" % (w, child)
            bad = [(st, node) for ok, st, node in lst if not ok]
            if not bad:
                rule_.ok(key, "%s is made on all %d such exits" % (" / ".join(ends), len(lst)))
            else:
                st, node = bad[0]
                rule_.violation(fn.file, w, node.get("l") if node else fn.endline, "end-callback-lost-after-child-skip-siblings:%s:%s" % (w, child),
                                "after %s answered SKIP_SIBLINGS, %s returns without making the %s callback (%d of %d such exits): the "
                                "directive is meant to suppress the answering element's descendants and remaining siblings, not the "
                                "end of the parent" % (child, w, " / ".join(ends), len(bad), len(lst)),
                                path=["L%s" % x for x in st.trail_lines()][-20:])
    return n
