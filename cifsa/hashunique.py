"""Keys of a uthash table are unique (C19 / C09).

uthash does not check for an existing entry when one is added: "it is an error to add two items with the same key"
(HASH_FIND then returns the first, deletion removes one, iteration shows both).  Every HASH_ADD_KEYPTR expansion must
therefore be reached only where a HASH_FIND on the same table for the same key came back empty, unless the keys come from a
source that is already a set - listed in the frozen table below with the reason.
"""
from .facts import strip, show, walk_eval
from .interp import path
from . import cfgq

# functions whose insertions take their keys from a source that cannot repeat a key
UNIQUE_BY_CONSTRUCTION = {
    "cif_pktitr_next_packet": "keys are the item names of one loop as stored (loop_item has a uniqueness constraint per container)",
    "cif_loop_get_packets": "keys are the item names of one loop as stored (unique per container)",
    "cif_table_deserialize": "keys come from a table serialised by this library, itself a uthash table",
    "cif_value_clone_table": "keys are those of the source table, a uthash table",
}


def _expansions(fn, macro):
    """(block, root index, first node) per expansion site of `macro` (grouped by source line)"""
    seen = {}
    for (b, i, r, x) in fn.eval_sites():
        if macro in (x.get("ms") or []):
            seen.setdefault(x.get("l"), (b, i, x))
    return sorted(seen.values(), key=lambda t: t[2].get("l") or 0)


def rule(prog, rule_):
    n = 0
    for fn in prog.all_functions():
        adds = _expansions(fn, "HASH_ADD_KEYPTR")
        if not adds:
            continue
        finds = _expansions(fn, "HASH_FIND")
        for (b, i, x) in adds:
            n += 1
            key = "%s:HASH_ADD_KEYPTR@L%s" % (fn.name, x.get("l"))
            if fn.name in UNIQUE_BY_CONSTRUCTION:
                rule_.ok(key, "unique by construction: " + UNIQUE_BY_CONSTRUCTION[fn.name])
                continue
            ok = False
            for (fb, fi, fx) in finds:
                if cfgq.must_precede(fn, (b.id, i), [(fb.id, fi)]):
                    ok = True
            if ok:
                rule_.ok(key, "after a HASH_FIND on every path")
            else:
                rule_.violation(fn.file, fn.name, x.get("l"), "hash-add-without-find:%s" % fn.name,
                                "an entry is added to a uthash table without a preceding HASH_FIND for its key: two names that "
                                "normalise alike make two entries under one key, of which look-up finds one, removal deletes one and "
                                "iteration shows both")
    return n
