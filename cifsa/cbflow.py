"""Verdict propagation (A1 instance) for C03 / C15 R5: once a callback or a failing callee has produced a non-zero
result, the function returns that very value without further scanning, storing or calling back.

ts = (origin node id | None, kind, sign, holders)  kind: 'error_callback' | 'handler' | 'callee'
"""
import re

from .facts import Broken, strip, const, walk, walk_eval, macro_name
from .interp import Interp, State, path, av_const, AV, NONZERO
from .parserai import indirect_target, HANDLER_FIELDS, SYNTAX_CALLBACKS, STORING_CALLS

POS = AV(1, None)
NEG = AV(None, -1)
CLEANUP_OK = re.compile(r"^(free|cif_\w+_free|cif_value_free|cif_value_clean|cif_packet_free|cif_loop_free|cif_block_free|"
                        r"cif_frame_free|cif_container_free|memcpy|memmove|u_strncpy|u_strcpy|u_strlen|strlen)$")


def propagating_functions(prog, unit="parser.c"):
    """Functions of the unit (returning int) that contain an error-callback call or call such a function."""
    out = set()
    fns = [f for f in prog.all_functions() if f.unit == unit and f.ret.strip() == "int"]
    for f in fns:
        if any(indirect_target(n) == "error_callback" for (_, _, _, n) in f.calls()):
            out.add(f.name)
    changed = True
    while changed:
        changed = False
        for f in fns:
            if f.name not in out and prog.callees(f) & out:
                out.add(f.name)
                changed = True
    return out


class VerdictInterp(Interp):
    def __init__(self, prog, fn, prop, effectful):
        super().__init__(prog, fn)
        self.prop = prop
        self.effectful = effectful
        self.after_abort = []     # (origin id, kind, sign, offending call node, state)
        self.ret_obs = []         # (origin id, kind, sign, ret node, av, unchanged?, state)
        self.sites = {}           # origin id -> (kind, node)
        # keep the state space small: only integer status variables
        keep = {p["name"] for p in fn.params} | {l["name"] for l in fn.locals if l["t"].strip() in ("int", "int32_t", "unsigned int", "size_t")}
        keep |= {"_error_code"}
        self.tracked = {p for p in self.tracked if p in keep or p in ("scanner->skip_depth", "scanner->ttype")}
        self.cap = 6000
        self.max_steps = 400000

    def initial_ts(self):
        return (None, None, None, frozenset())

    # ---- helpers
    def _split(self, st, n, kind, callee=None):
        self.sites[n["id"]] = (kind, n)
        none = (None, None, None, frozenset())
        outs = [(st.with_ts(none), av_const(0))]
        outs.append((st.with_ts((n["id"], kind, "pos", frozenset())), POS))
        if kind == "error_callback":
            outs.append((st.with_ts((n["id"], kind, "neg", frozenset())), NEG))
        elif kind == "handler":
            # SKIP_CURRENT (-1) / SKIP_SIBLINGS (-2) continue the parse (C15 R1-R4); END (-3) stops it;
            # other negative answers are not defined by the API and are not judged
            outs.append((st.with_ts((n["id"], kind, "end", frozenset())), av_const(-3)))
            outs.append((st.with_ts(none), AV(-2, -1)))
            outs.append((st.with_ts(none), AV(None, -4)))
        else:
            if callee and callee.startswith("parse_"):
                # a negative result of a production is a propagating END directive (or a negative callback verdict)
                outs.append((st.with_ts((n["id"], kind, "neg", frozenset())), NEG))
            else:
                outs.append((st.with_ts(none), NEG))       # scanners use CIF_EOF (-1) internally
        return outs

    def on_constrain(self, st, target, p, av):
        # keep the state space small: remember only the exclusion of 0
        if p is not None and av is not None and av != "BOTTOM" and len(av.excl) > (1 if 0 in av.excl else 0):
            cur = st.sigma.get(p)
            if cur is not None:
                sig = dict(st.sigma)
                sig[p] = AV(cur.lo, cur.hi, frozenset([0]) if 0 in cur.excl else frozenset())
                return st.with_sigma(sig)
        return st

    def call(self, st, n, argvals):
        origin, kind, sign, holders = st.ts
        c = n.get("callee")
        tgt = indirect_target(n)
        is_cb = tgt == "error_callback"
        is_handler = tgt in HANDLER_FIELDS
        is_effect = is_cb or is_handler or tgt in SYNTAX_CALLBACKS or (c in self.effectful) or (c in self.prop)
        if origin is not None and is_effect:
            self.after_abort.append((origin, kind, sign, n, st))
        if origin is not None:
            # a second verdict while one is pending is not split again (it is already reported above)
            return [(st, None)]
        if is_cb:
            return self._split(st, n, "error_callback")
        if is_handler:
            return self._split(st, n, "handler")
        if c in self.prop:
            return self._split(st, n, "callee", c)
        return [(st, None)]

    def assign(self, st, node, lhs, p, av, rhs):
        origin, kind, sign, holders = st.ts
        if origin is None or p is None:
            return st
        r = strip(rhs) if rhs is not None else None
        from_verdict = False
        if isinstance(r, dict):
            if r.get("id") == origin:
                from_verdict = True
            elif r.get("k") == "cond":
                # x = (f == NULL) ? dflt : f(args)   (OPTIONAL_CALL)
                for arm in (r.get("then"), r.get("else")):
                    a = strip(arm)
                    if isinstance(a, dict) and a.get("id") == origin:
                        from_verdict = True
            else:
                rp = path(r)
                if rp is not None and rp in holders:
                    from_verdict = True
                if r.get("k") == "asg" and path(strip(r.get("lhs"))) in holders:
                    from_verdict = True
        if from_verdict:
            if p not in holders:
                return st.with_ts((origin, kind, sign, holders | {p}))
        elif p in holders:
            return st.with_ts((origin, kind, sign, holders - {p}))
        return st

    def on_return(self, st, node, av):
        super().on_return(st, node, av)
        origin, kind, sign, holders = st.ts
        if origin is None:
            return
        e = strip(node.get("e")) if node.get("e") else None
        rp = path(e) if e is not None else None
        unchanged = rp is not None and rp in holders
        if not unchanged and isinstance(e, dict):
            if e.get("id") == origin:
                unchanged = True
            elif e.get("k") == "asg" and (strip(e.get("rhs")) or {}).get("id") == origin:
                unchanged = True
            elif e.get("k") == "cond":
                # value-preserving selection such as (result > CIF_OK) ? result : CIF_OK
                mentions = {path(x) for x in walk(e) if x.get("k") in ("ref", "member")}
                same_class = av is not None and ((sign == "pos" and av.positive()) or (sign == "neg" and av.negative()))
                unchanged = bool(mentions & holders) and same_class
        self.ret_obs.append((origin, kind, sign, node, av, unchanged, st))


def analyse(prog, unit="parser.c"):
    prop = propagating_functions(prog, unit)
    effectful = set(STORING_CALLS) | {"cif_container_prune", "cif_value_create", "cif_packet_create", "cif_container_get_item_loop",
                                      "cif_get_block", "cif_container_get_frame", "decode_text"}
    res = {}
    for f in prog.all_functions():
        if f.unit != unit:
            continue
        has = any(indirect_target(n) in ("error_callback",) + HANDLER_FIELDS for (_, _, _, n) in f.calls()) or (prog.callees(f) & prop)
        if not has or f.ret.strip() != "int":
            continue
        res[f.name] = VerdictInterp(prog, f, prop, effectful).run()
    return prop, res
