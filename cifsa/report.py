"""Check context: rules, instances, violations, known findings, evidence, exit code."""
import json
import os
import time

VERIF = os.path.dirname(os.path.dirname(os.path.abspath(__file__)))
KNOWN_PATH = os.path.join(VERIF, "known_findings.json")


class Rule:
    def __init__(self, check, name, desc, primary=True, floor=1):
        self.check = check
        self.name = name
        self.desc = desc
        self.primary = primary
        self.floor = floor
        self.instances = []     # dicts: key, verdict(ok|violation|known|info|unproved), detail
        self.obligations = 0
        self.discharged = 0

    def ok(self, key, detail="", n=1):
        self.instances.append({"key": key, "verdict": "ok", "detail": detail})
        self.obligations += n
        self.discharged += n

    def unproved(self, key, detail=""):
        """Obligation neither proved nor refuted (correlation unknown): never an alarm."""
        self.instances.append({"key": key, "verdict": "unproved", "detail": detail})

    def info(self, key, detail=""):
        self.instances.append({"key": key, "verdict": "info", "detail": detail})

    def violation(self, file, function, line, key, message, path=None, extra=None):
        v = {"property": self.check.pid, "rule": self.name, "file": file, "function": function, "line": line,
             "key": key, "message": message}
        if path:
            v["path"] = path
        if extra:
            v["extra"] = extra
        self.obligations += 1
        self.instances.append({"key": key, "verdict": "violation", "detail": message, "site": "%s:%s:%s" % (file, function, line)})
        self.check.violations.append(v)
        return v


class Check:
    def __init__(self, pid, tier="quick", level="other", seed=0):
        self.pid = pid
        self.tier = tier
        self.level = level
        self.seed = seed
        self.rules = []
        self.violations = []
        self.t0 = time.time()
        self.assumptions = []
        self.trusted = ["clang 14 parser/Sema and clang::CFG builder (facts extraction)",
                        "frozen tables of the cifsa rule modules (each entry carries its reason)"]
        self.explanation = ""
        self.extra_cov = {}
        self.broken = []
        self.notes = []

    def rule(self, name, desc, primary=True, floor=1):
        r = Rule(self, name, desc, primary, floor)
        self.rules.append(r)
        return r

    def fail_broken(self, msg):
        self.broken.append(msg)

    # ------------------------------------------------------------------
    def finish(self, prog=None, write_evidence=True):
        known = {"findings": [], "fixed": []}
        if os.path.exists(KNOWN_PATH):
            with open(KNOWN_PATH) as fh:
                known = json.load(fh)
        kf = [k for k in known.get("findings", []) if k.get("property") == self.pid]

        def matches(v, k):
            return all(v.get(f) == k.get(f) for f in ("rule", "file", "function", "key"))

        new = []
        known_hits = []
        for v in self.violations:
            hit = next((k for k in kf if matches(v, k)), None)
            if hit:
                known_hits.append((v, hit))
            else:
                new.append(v)
        stale = [k for k in kf if not any(matches(v, k) for v in self.violations)]

        # floors
        for r in self.rules:
            n = len([i for i in r.instances if i["verdict"] != "info"])
            if n < r.floor:
                self.broken.append("rule %s matched %d instances, floor is %d" % (r.name, n, r.floor))

        repdir = os.path.join(VERIF, "out", "reports", self.pid)
        os.makedirs(repdir, exist_ok=True)
        for f in os.listdir(repdir):
            try:
                os.unlink(os.path.join(repdir, f))
            except OSError:
                pass
        for r in self.rules:
            n_ok = len([i for i in r.instances if i["verdict"] == "ok"])
            n_v = len([i for i in r.instances if i["verdict"] == "violation"])
            n_u = len([i for i in r.instances if i["verdict"] == "unproved"])
            print("RULE %s.%s [%s] instances=%d ok=%d violations=%d unproved=%d -- %s" % (
                self.pid, r.name, "P" if r.primary else "S", len(r.instances), n_ok, n_v, n_u, r.desc))
        for v, k in known_hits:
            print("KNOWN-FINDING: property=%s %s:%s %s [%s] %s" % (self.pid, v["file"], v["function"], v["key"], v["rule"],
                                                                    k.get("what", v["message"])))
        for k in stale:
            print("NOTE: known finding no longer reproduces (repaired?): %s:%s %s" % (k.get("file"), k.get("function"), k.get("key")))
        for i, v in enumerate(new):
            p = os.path.join(repdir, "violation-%d.json" % i)
            with open(p, "w") as fh:
                json.dump(v, fh, indent=1)
            print("VIOLATION property=%s replay=%s" % (self.pid, p))
            print("  %s:%s (%s) rule %s: %s [key=%s]" % (v["file"], v["line"], v["function"], v["rule"], v["message"], v["key"]))
            if v.get("path"):
                print("  path: " + " -> ".join(str(x) for x in v["path"][:40]))
        for m in self.broken:
            print("ANALYSIS-BROKEN property=%s %s" % (self.pid, m))

        if write_evidence:
            self.write_evidence(prog, new, known_hits)
        if self.broken:
            return 2
        return 1 if new else 0

    def write_evidence(self, prog, new, known_hits):
        obligations = sum(r.obligations for r in self.rules)
        discharged = sum(r.discharged for r in self.rules)
        samples = []
        rules = []
        for r in self.rules:
            oks = [i for i in r.instances if i["verdict"] == "ok"]
            for i in oks[:3]:
                samples.append("%s.%s: %s%s" % (self.pid, r.name, i["key"], (" -- " + i["detail"]) if i["detail"] else ""))
            for i in [x for x in r.instances if x["verdict"] in ("violation", "unproved")][:3]:
                samples.append("%s.%s [%s]: %s -- %s" % (self.pid, r.name, i["verdict"], i["key"], i["detail"]))
            rules.append({
                "rule": r.name, "primary": r.primary, "description": r.desc, "floor": r.floor,
                "instances": len(r.instances), "obligations": r.obligations, "discharged": r.discharged,
                "verdicts": {v: len([i for i in r.instances if i["verdict"] == v])
                             for v in ("ok", "violation", "unproved", "info")},
                "instance_list": [dict(i) for i in r.instances[:400]],
            })
        distinct = len({(r.name, i["key"]) for r in self.rules for i in r.instances if i["verdict"] != "info"})
        cov = {
            "explanation": self.explanation,
            "obligations": obligations,
            "discharged": discharged,
            "evaluations": max(1, sum(len(r.instances) for r in self.rules)),
            "distinct_nontrivial": distinct,
            "rule": "one evaluation = one rule instance (call site / function exit set / table row) found in the "
                    "current /repo sources; distinct = distinct (rule, instance key) pairs, info rows excluded",
            "samples": samples[:60] or ["(no instance)"],
            "checker_cmd": "./check %s --tier %s" % (self.pid, self.tier),
            "trusted_base": self.trusted,
            "exhaustive": True,
            "rules": rules,
            "known_findings_reported": [{"file": v["file"], "function": v["function"], "key": v["key"], "rule": v["rule"]}
                                         for v, _ in known_hits],
            "new_violations": [{"file": v["file"], "function": v["function"], "line": v["line"], "key": v["key"],
                                "rule": v["rule"], "message": v["message"]} for v in new],
            "analysis_broken": self.broken,
        }
        if prog is not None:
            cov["analysed"] = prog.stats()
            cov["compile_flags"] = prog.info.get("flags")
            cov["flags_origin"] = prog.info.get("flags_origin")
        cov.update(self.extra_cov)
        ev = {
            "property_id": self.pid, "tier": self.tier, "seed": self.seed, "level": self.level,
            "coverage": cov, "assumptions": self.assumptions, "wall_s": round(time.time() - self.t0, 3),
            "violations": len(new),
        }
        os.makedirs(os.path.join(VERIF, "evidence"), exist_ok=True)
        p = os.path.join(VERIF, "evidence", "%s.json" % self.pid)
        tmp = p + ".tmp%d" % os.getpid()
        with open(tmp, "w") as fh:
            json.dump(ev, fh, indent=1)
        os.replace(tmp, p)
