"""Writer rules (ciffile.c) shared by C02 and C13: units of a %S precision, prefix length in the fold decision."""
import re

from .facts import Broken, strip, const, walk, show
from .interp import path
from .sqlmodel import literal_text
from . import cfgq


def _defs_of(fn, name, with_conditions=False):
    """all expressions assigned to the local / parameter `name` in fn; with_conditions: also the conditions of the branches an
    assignment is control dependent on (`if (c) name = 1;` makes the value depend on c)"""
    out = []
    blocks = set()
    for (b, i, r, x) in fn.eval_sites():
        if x.get("k") == "decl":
            for v in x.get("vars", []):
                if v["name"] == name and v.get("init") is not None:
                    out.append(v["init"])
        elif x.get("k") == "asg" and x.get("op") == "=" and path(strip(x.get("lhs"))) == name:
            out.append(x.get("rhs"))
            blocks.add(b.id)
    if with_conditions and blocks:
        from . import loops, cfgq
        for tb in fn.blocks.values():
            if len(tb.succs) != 2 or not tb.term:
                continue
            t, f = loops.control_dependents(fn, tb.id)
            if blocks & (t | f):
                c = tb.term.get("full") if isinstance(tb.term.get("full"), dict) else cfgq.cond_of(fn, tb)
                if c is not None:
                    out.append(c)
    return out


def precision_units(prog, rule, unit="ciffile.c"):
    """u_fprintf's `%.*S` / `%*.*S` take the precision (and width) in UChar code units.  A precision computed by
    u_countChar32 - a number of code points - is smaller than the unit count for every supplementary-plane character in the
    string, and the output is cut short by that many units.  Every reaching definition of a precision argument is examined
    (locals and parameters re-assigned inside the function)."""
    n = 0
    for fn in prog.all_functions():
        if fn.unit != unit:
            continue
        for (b, i, r, c) in fn.calls_to("u_fprintf"):
            args = c.get("args", [])
            fmt = literal_text(args[1]) if len(args) > 1 else None
            if not fmt:
                continue
            # positions of the `*` arguments belonging to an S conversion
            pos = 2
            for m in re.finditer(r"%([-+ #0]*)(\*|\d+)?(?:\.(\*|\d+))?(l|h)?([a-zA-Z%])", fmt):
                width, prec, conv = m.group(2), m.group(3), m.group(5)
                if conv == "%":
                    continue
                w_at = p_at = None
                if width == "*":
                    w_at = pos
                    pos += 1
                if prec == "*":
                    p_at = pos
                    pos += 1
                pos += 1
                if conv != "S" or p_at is None or p_at >= len(args):
                    continue
                n += 1
                a = strip(args[p_at])
                sources = [a]
                pa = path(a)
                if pa and re.match(r"^\w+$", pa):
                    sources += _defs_of(fn, pa)
                bad = [s_ for s_ in sources if any(y.get("k") == "call" and y.get("callee") == "u_countChar32" for y in walk(s_))]
                key = "%s:L%s:%%S precision `%s`" % (fn.name, c.get("l"), show(a)[:30])
                if bad:
                    rule.violation(fn.file, fn.name, c.get("l"), "precision-in-code-points:%s" % fn.name,
                                   "the precision `%s` of a %%S conversion (L%s) can be the result of u_countChar32 - a count of code "
                                   "points - while u_fprintf counts UChar units: a string with supplementary-plane characters is "
                                   "written short by one unit for each of them (the end of a data name is lost)"
                                   % (show(a)[:40], c.get("l")))
                else:
                    rule.ok(key, "no reaching definition counts code points")
    return n


def fold_accounts_for_prefix(prog, rule):
    """write_text writes each line of a prefixed text field as the prefix followed by the (segment of the) value's line.  When
    the field is not folded the whole line follows the prefix, so the decision not to fold must compare a line length *plus
    the prefix length* with the limit whenever a prefix can be requested.  Necessary condition checked: the fold argument
    write_char hands to write_text (through the locals it is computed from) contains a comparison that involves both a line
    length of the analysis and PREFIX_LENGTH, or write_text itself forces folding from such a comparison."""
    wc = prog.fn("write_char")
    wt = prog.fn("write_text")
    calls = wc.calls_to("write_text")
    if len(calls) != 1:
        raise Broken("write_char: expected one call of write_text")
    (cb, ci, cr, call) = calls[0]
    fold_ix = next((i for i, p in enumerate(wt.params) if p["name"] == "fold"), None)
    prefix_ix = next((i for i, p in enumerate(wt.params) if p["name"] == "prefix"), None)
    if fold_ix is None or prefix_ix is None:
        raise Broken("write_text: fold / prefix parameters not found")
    if const(call["args"][prefix_ix]) == 0:
        rule.ok("write_char->write_text", "no prefix is ever requested")
        return 1

    def closure(fn, e, depth=0, seen=None):
        seen = seen if seen is not None else set()
        out = [e]
        if depth > 4:
            return out
        for y in walk(e):
            if y.get("k") == "ref" and y.get("dk") in ("local", "parm") and y["name"] not in seen:
                seen.add(y["name"])
                for d in _defs_of(fn, y["name"], with_conditions=True):
                    out += closure(fn, d, depth + 1, seen)
        return out

    def has_prefixed_length_test(exprs):
        for e in exprs:
            for y in walk(e):
                if y.get("k") == "bin" and y.get("op") in (">", ">=", "<", "<="):
                    names = [path(z) or "" for z in walk(y) if z.get("k") == "member"]
                    macros = {m for z in walk(y) for m in (z.get("ms") or [])}
                    if any(re.search(r"length_(max|first|last)$", nm) for nm in names) and "PREFIX_LENGTH" in macros:
                        return y
        return None
    hit = has_prefixed_length_test(closure(wc, call["args"][fold_ix]))
    how = None
    if hit is not None:
        how = "the fold argument depends on `%s` (L%s)" % (show(hit)[:70], hit.get("l"))
    else:
        # write_text deciding by itself: an assignment to its fold parameter from a comparison mentioning PREFIX_LENGTH
        for d in _defs_of(wt, "fold"):
            if any("PREFIX_LENGTH" in (z.get("ms") or []) for z in walk(d)):
                how = "write_text adjusts `fold` from the prefix length"
    if how:
        rule.ok("write_char->write_text:fold", how)
    else:
        rule.violation(wc.file, wc.name, call.get("l"), "fold-ignores-prefix",
                       "the fold argument of write_text (L%s) is decided from the value's line lengths alone, although a prefix of "
                       "PREFIX_LENGTH characters can be requested in the same call: an unfolded, prefixed text field whose longest "
                       "line has LINE_LENGTH-1 or LINE_LENGTH characters is written with lines longer than the limit" % call.get("l"))
    return 1


def column_advance(prog, rule, unit="ciffile.c"):
    """Where a function stores `last_column = base + X` after one u_fprintf whose result it keeps in a local N: X is N itself,
    or X accounts for every character of the format - the number of literal characters and %c conversions plus the
    precision of each string conversion.  A store that leaves out the delimiters lets the tracked column fall behind the
    real one, and lines are wrapped too late.  Formats with a string conversion of unknown length (no precision) are not
    judged unless the store uses N."""
    from .memrules import _linear
    n = 0
    for fn in prog.all_functions():
        if fn.unit != unit:
            continue
        emits = []
        for (b, i, r, x) in fn.eval_sites("asg"):
            rhs = strip(x.get("rhs"))
            if isinstance(rhs, dict) and rhs.get("k") == "call" and rhs.get("callee") == "u_fprintf" and x.get("op") == "=":
                lp = path(strip(x.get("lhs")))
                if lp and re.match(r"^\w+$", lp):
                    emits.append((b, i, lp, rhs))
        if len(emits) != 1:
            continue
        (eb, ei, nvar, call) = emits[0]
        fmt = literal_text(call["args"][1]) if len(call.get("args", [])) > 1 else None
        if fmt is None:
            continue
        # expected advance from the format
        expected = {"": 0}
        known = True
        pos = 2
        args = call["args"]
        for m in re.finditer(r"%([-+ #0]*)(\*|\d+)?(?:\.(\*|\d+))?(l|h)?([a-zA-Z%])|([^%])", fmt):
            if m.group(6) is not None:
                expected[""] += 1
                continue
            width, prec, conv = m.group(2), m.group(3), m.group(5)
            if conv == "%":
                expected[""] += 1
                continue
            w_at = p_at = None
            if width == "*":
                w_at = pos
                pos += 1
            if prec == "*":
                p_at = pos
                pos += 1
            pos += 1
            if conv == "c":
                expected[""] += 1
            elif conv in ("S", "s") and p_at is not None and p_at < len(args):
                lf = _linear(args[p_at])
                if lf is None:
                    known = False
                else:
                    for k2, v in lf.items():
                        expected[k2] = expected.get(k2, 0) + v
            else:
                known = False
        if "\n" in fmt:
            known = False           # the column restarts inside the output
        for (b, i, r, x) in fn.eval_sites("asg"):
            lp = path(strip(x.get("lhs"))) or ""
            if not (lp.endswith("->last_column") or lp.endswith(".last_column")) or x.get("op") != "=":
                continue
            if not (b.id in cfgq.reach(fn, [eb.id]) or (b.id == eb.id and i > ei)):
                continue
            lf = _linear(x.get("rhs"))
            if lf is None or const(x.get("rhs")) is not None:
                continue
            n += 1
            key = "%s:L%s" % (fn.name, x.get("l"))
            if lf.get(nvar) == 1:
                rule.ok(key, "advances by the count u_fprintf returned (`%s`)" % nvar)
                continue
            if not known:
                rule.ok(key, "format `%s` has a string conversion of unknown length: not judged" % fmt.replace("\n", "\\n"))
                continue
            # the base: one variable with coefficient 1 that is not part of the expected advance
            adv = {k2: v for k2, v in lf.items()}
            bases = [k2 for k2, v in adv.items() if k2 and v == 1 and k2 not in expected and ("column" in k2)]
            if len(bases) != 1:
                rule.unproved(key, "base column of `%s` not identified" % show(x.get("rhs"))[:50])
                continue
            adv.pop(bases[0])
            adv = {k2: v for k2, v in adv.items() if v != 0 or k2 == ""}
            exp = {k2: v for k2, v in expected.items() if v != 0 or k2 == ""}
            adv.setdefault("", 0)
            exp.setdefault("", 0)
            if adv == exp:
                rule.ok(key, "advances by the %d fixed characters of `%s` plus its string precision" % (exp[""], fmt))
            else:
                rule.violation(fn.file, fn.name, x.get("l"), "column-advance:%s" % fn.name,
                               "after u_fprintf(\"%s\") at L%s the tracked column is advanced by `%s`, but the format emits %s: the "
                               "column falls behind by the difference for every such value on a line, and the line-length test "
                               "wraps too late" % (fmt, call.get("l"), " + ".join(("%s" % k2 if v == 1 else "%d*%s" % (v, k2)) if k2 else str(v)
                                                                                    for k2, v in sorted(adv.items()) if v or not k2),
                                                  " + ".join(("%s" % k2 if v == 1 else "%d*%s" % (v, k2)) if k2 else "%d fixed" % v
                                                             for k2, v in sorted(exp.items()) if v or not k2)))
    return n



# where a name written by cif_write comes from, and how many characters of its line the validator leaves to the writer
# (cif_is_valid_name: data names up to CIF_LINE_LENGTH characters, block / frame codes up to CIF_LINE_LENGTH - 5; C09 R8)
NAME_SOURCES = {"cif_container_get_code": ("block / frame code", 5), "cif_loop_get_names": ("data name", 0)}


def _format_options(prog, fn, e, depth=0):
    """[(format text, guard)] for a u_fprintf format argument: a literal, a conditional of literals (guard = (condition,
    outcome)), an element of a constant table of strings, or a local with a single such definition."""
    e = strip(e)
    if not isinstance(e, dict):
        return None
    t = literal_text(e)
    if t is not None:
        return [(t, None)]
    if e.get("k") == "cond":
        a, b = _format_options(prog, fn, e.get("then"), depth), _format_options(prog, fn, e.get("else"), depth)
        if a is None or b is None:
            return None
        return [(s, (e.get("c"), True) if g is None else g) for s, g in a] + [(s, (e.get("c"), False) if g is None else g) for s, g in b]
    if e.get("k") == "index":
        g = prog.globals.get(path(strip(e.get("base"))) or "")
        if g and g.get("const") and isinstance(g.get("init"), dict):
            out = [(x.get("v"), None) for x in g["init"].get("elems", []) if x.get("k") == "str"]
            return out or None
        return None
    if e.get("k") == "ref" and depth < 2:
        defs = _defs_of(fn, e.get("name"))
        if len(defs) == 1:
            return _format_options(prog, fn, defs[0], depth + 1)
    return None


def _line_bound(e):
    """(d) if e is the line length + d"""
    e = strip(e)
    if not isinstance(e, dict):
        return None
    ms = e.get("ms") or []
    if "LINE_LENGTH" in ms or "CIF_LINE_LENGTH" in ms:
        if const(e) is not None or e.get("k") in ("int",):
            return 0
    if e.get("k") == "bin" and e.get("op") in ("+", "-"):
        l, r = _line_bound(e.get("lhs")), const(e.get("rhs"))
        if l is not None and r is not None and not (set(strip(e.get("rhs")).get("ms") or []) & {"LINE_LENGTH", "CIF_LINE_LENGTH"}):
            return l + (r if e["op"] == "+" else -r)
    return None


def name_line_budget(prog, rule, unit="ciffile.c"):
    """A name that the validator accepts may be as long as it allows: a data name CIF_LINE_LENGTH characters, a block or frame
    code five fewer.  Where cif_write puts such a name on a line together with literal characters of the format (`data_`,
    an indent), those characters must fit in what the validator left, unless that arm of a conditional format is chosen
    under a test of the name's length against the line length that makes room for them.  Otherwise the longest valid name
    is written as an over-length line, which the parser reports when the output is read back."""
    n = 0
    for fn in prog.all_functions():
        if fn.unit != unit:
            continue
        sources = {}
        for (b, i, r, c) in fn.calls():
            if c.get("callee") in NAME_SOURCES:
                for a in c.get("args", []):
                    a = strip(a)
                    if isinstance(a, dict) and a.get("k") == "un" and a.get("op") == "&":
                        p = path(strip(a.get("e")))
                        if p:
                            sources[p] = NAME_SOURCES[c["callee"]]
        if not sources:
            continue
        for (b, i, r, c) in fn.calls_to("u_fprintf"):
            args = c.get("args", [])
            if len(args) < 3:
                continue
            opts = _format_options(prog, fn, args[1])
            if not opts:
                continue
            for fmt, guard in opts:
                pos = 2
                segs = []          # (segment index, conversion, argument position)
                seg = 0
                lit = {0: 0}
                for m in re.finditer(r"%([-+ #0]*)(\*|\d+)?(?:\.(\*|\d+))?(l|h)?([a-zA-Z%])|([^%])", fmt):
                    if m.group(6) is not None:
                        if m.group(6) == "\n":
                            seg += 1
                            lit[seg] = 0
                        else:
                            lit[seg] += 1
                        continue
                    if m.group(5) == "%":
                        lit[seg] += 1
                        continue
                    if m.group(2) == "*":
                        pos += 1
                    if m.group(3) == "*":
                        pos += 1
                    if m.group(5) == "c":
                        lit[seg] += 1
                    segs.append((seg, m.group(5), pos, m.group(3)))
                    pos += 1
                for (sg, conv, at, prec) in segs:
                    if conv != "S" or prec is not None or at >= len(args):
                        continue
                    # which name is it?
                    names = {path(x) for x in walk(args[at]) if isinstance(x, dict) and x.get("k") == "ref" and path(x)}
                    frontier = set(names)
                    for _ in range(3):
                        more = set()
                        for v in frontier:
                            for d in _defs_of(fn, v):
                                more |= {path(x) for x in walk(d) if isinstance(x, dict) and x.get("k") == "ref" and path(x)}
                        frontier = more - names
                        names |= more
                    kinds = {sources[v] for v in names if v in sources}
                    if len(kinds) != 1:
                        continue
                    what, margin = next(iter(kinds))
                    n += 1
                    k = lit[sg]
                    room = margin
                    why = "the validator leaves %d" % margin
                    if guard is not None:
                        cnd, outcome = guard
                        cs = strip(cnd)
                        if isinstance(cs, dict) and cs.get("k") == "bin" and cs.get("op") in ("<", "<=", ">", ">="):
                            for sd, other, flip in (("lhs", "rhs", False), ("rhs", "lhs", True)):
                                e = strip(cs.get(sd))
                                if isinstance(e, dict) and e.get("k") == "call" and e.get("callee") in ("u_strlen", "u_countChar32") \
                                        and e.get("args") and any(path(x) in names for x in walk(e["args"][0]) if isinstance(x, dict)):
                                    d = _line_bound(cs.get(other))
                                    op = cs["op"]
                                    if flip:
                                        op = {"<": ">", ">": "<", "<=": ">=", ">=": "<="}[op]
                                    if not outcome:
                                        op = {"<": ">=", ">": "<=", "<=": ">", ">=": "<"}[op]
                                    if d is not None and op in ("<", "<="):
                                        # on this arm: length <= line length + d (- 1 for `<`)
                                        g_room = -(d - (1 if op == "<" else 0))
                                        if g_room > room:
                                            room = g_room
                                            why = "this arm is taken only for names at least %d shorter than the line" % g_room
                    key = "%s:L%s:%s" % (fn.name, c.get("l"), fmt.replace("\n", "\\n"))
                    if k <= room:
                        rule.ok(key, "%d literal character(s) on the line of a %s; %s" % (k, what, why))
                    else:
                        rule.violation(fn.file, fn.name, c.get("l"), "name-line-over-budget:%s:%s" % (fn.name, fmt.replace("\n", "\\n")),
                                       "the format `%s` puts %d literal character(s) on the line of a %s, which may be as long as the "
                                       "line length%s allows: the longest valid name is written as a line of %d characters over the "
                                       "limit, reported as over-length when the output is parsed"
                                       % (fmt.replace("\n", "\\n"), k, what, "" if not margin else " - %d" % margin, k - room))
    return n


def first_line_budget(prog, rule, unit="ciffile.c"):
    """A text field is opened with `;` on the line of the value's first line, so that line may hold one character fewer than
    the others.  The fold decision of write_char (the value handed to write_text as `fold`), evaluated for a value whose
    first and longest line have exactly LINE_LENGTH characters and nothing else remarkable, must come out true; unfolded,
    the first line is written with LINE_LENGTH + 1 characters."""
    from .chareval import _ev
    n = 0
    line_len = prog.macro_int("CIF_LINE_LENGTH")
    for fn in prog.all_functions():
        if fn.unit != unit:
            continue
        for (b, i, r, c) in fn.calls_to("write_text"):
            args = c.get("args", [])
            if len(args) < 4:
                continue
            fold = strip(args[3])
            if const(fold) is not None:
                continue
            exprs = [fold]
            if isinstance(fold, dict) and fold.get("k") == "ref":
                # unconditional or conditional stores of a constant true only add reasons to fold: the computed one decides
                def strengthens(d):
                    """`fold = fold || X`: can only turn the decision on"""
                    d = strip(d)
                    return isinstance(d, dict) and d.get("k") == "bin" and d.get("op") == "||" and \
                        fold.get("name") in (path(strip(d.get("lhs"))), path(strip(d.get("rhs"))))
                defs = [d for d in _defs_of(fn, fold.get("name")) if const(d) in (None, 0) and not strengthens(d)]
                if len(defs) != 1:
                    continue
                exprs = defs
            stats = sorted({path(x) for e in exprs for x in walk(e) if isinstance(x, dict) and x.get("k") == "member" and path(x)})
            firsts = [s_ for s_ in stats if s_.endswith("length_first")]
            n += 1
            key = "%s:fold@L%s" % (fn.name, c.get("l"))
            env = {}
            for s_ in stats:
                env[s_] = line_len if (s_.endswith("length_first") or s_.endswith("length_max")) else 0
            # the first character of the text (`text[0] == ';'`) and similar reads are left unknown
            v = _ev(exprs[0], env, 2)
            if not firsts and v in (0, None):
                rule.violation(fn.file, fn.name, c.get("l"), "first-line-not-in-fold-decision:%s" % fn.name,
                               "the fold decision `%s` does not look at the length of the value's first line, which shares its line "
                               "with the opening `;`: a first line of exactly %d characters is written as a line of %d"
                               % (show(exprs[0])[:120], line_len, line_len + 1))
            elif v == 0:
                rule.violation(fn.file, fn.name, c.get("l"), "first-line-over-budget:%s" % fn.name,
                               "the fold decision `%s` is false for a value whose first (and longest) line has exactly %d characters: "
                               "behind the opening `;` that line is written with %d characters" % (show(exprs[0])[:120], line_len, line_len + 1))
            elif v is None:
                rule.info(key, "fold decision not evaluable: no verdict")
            else:
                rule.ok(key, "a first line of %d characters is folded" % line_len)
    return n
