"""The scalar category "" can be neither given to nor taken from a loop (C04): both guards of cif_loop_set_category hold on
every path to a statement that stores the new category.

  (A) new category: every path to a store has passed the outcome `*category != 0` of a test of the new category's first
      character, or the outcome `category == NULL` (no category has no first character);
  (B) present category: every path to a store has examined the loop's present category (a call of cif_loop_get_category on
      the loop, or a test reading loop->category) - the refusal of a change *away from* "" hangs on it, whatever the new one is.
Stores: the sqlite3_step of the update and assignments to the handle's cached `category`.
"""
from .facts import strip, const, walk, show, Broken
from .interp import path
from . import cfgq


def rule(prog, rule_):
    fn = prog.fn("cif_loop_set_category")
    if len(fn.params) < 2:
        raise Broken("cif_loop_set_category: parameters not found")
    loop_p, cat_p = fn.params[0]["name"], fn.params[1]["name"]
    stores = [(b.id, i, n) for (b, i, r, n) in fn.calls_to("sqlite3_step")]
    stores += [(b.id, i, n) for (b, i, r, n) in fn.eval_sites("asg")
               if path(strip(n.get("lhs"))) in ("%s->category" % loop_p,) and n.get("op") == "="]
    if len(stores) < 2:
        raise Broken("cif_loop_set_category: the update step and the store to the cached category were not both found")

    def first_char(e):
        e = strip(e)
        if not isinstance(e, dict):
            return False
        if e.get("k") == "un" and e.get("op") == "*" and path(strip(e.get("e"))) == cat_p:
            return True
        if e.get("k") == "index" and path(strip(e.get("base"))) == cat_p and const(e.get("idx")) == 0:
            return True
        return False

    def m_nonempty(cnd):
        z = cfgq.zero_test(cnd, first_char)
        if z is None:
            return None
        return "false" if z == "true" else "true"

    def m_null(cnd):
        return cfgq.zero_test(cnd, lambda e: path(strip(e)) == cat_p)
    edges_a = cfgq.guard_edges(fn, m_nonempty) + cfgq.guard_edges(fn, m_null)
    exam = [(b.id, i) for (b, i, r, c) in fn.calls_to("cif_loop_get_category") if c.get("args") and path(strip(c["args"][0])) == loop_p]
    for b in fn.blocks.values():
        c = cfgq.cond_of(fn, b)
        if c is not None and any(isinstance(x, dict) and path(x) == "%s->category" % loop_p for x in walk(c)):
            # a test such as `loop->category != NULL && *loop->category == 0`
            if any(isinstance(x, dict) and x.get("k") == "un" and x.get("op") == "*" for x in walk(c)) or \
                    any(isinstance(x, dict) and x.get("k") == "index" for x in walk(c)):
                exam.append((b.id, len(b.roots)))
    n = 0
    for (bid, i, node) in stores:
        n += 1
        key = "cif_loop_set_category:L%s:%s" % (node.get("l"), show(node)[:40])
        kind = "update-step" if node.get("k") == "call" else "cached-category#%d" % sum(1 for (b2, i2, n2) in stores[:n] if n2.get("k") != "call")
        if not edges_a or not cfgq.must_pass_edge(fn, bid, edges_a):
            rule_.violation(fn.file, fn.name, node.get("l"), "scalar-category-can-be-given:" + kind,
                            "`%s` is reached on a path that has not found the new category to be NULL or to begin with a character: "
                            "the reserved category \"\" can be given to a loop" % show(node)[:50])
        elif not exam or not cfgq.must_precede(fn, (bid, i), exam):
            rule_.violation(fn.file, fn.name, node.get("l"), "scalar-category-can-be-taken:" + kind,
                            "`%s` is reached on a path that has not examined the loop's present category: the reserved category "
                            "\"\" can be taken from the scalar loop (by a new category of NULL, for one)" % show(node)[:50])
        else:
            rule_.ok(key, "after both tests")
    return n
