"""The scanner's private end-of-input sentinel (CIF_EOF, numerically equal to CIF_TRAVERSE_SKIP_CURRENT) must not leave the
functions that produce it: a flow-sensitive may-return analysis (A1 engine) per function of the parser unit, iterated to a
fixed point over the set of functions that may return the sentinel."""
from .facts import Broken, strip, const, walk, macro_name
from .interp import Interp, AV, path


CAP_ = 400


class EofInterp(Interp):
    def __init__(self, prog, fn, may, eof):
        super().__init__(prog, fn)
        self.may = may
        self.eof = eof
        self.not_eof = AV(None, None, frozenset([eof]))
        self.leaks = []
        # only the variables whose value can reach a return matter (closure of the returned paths under copies)
        rel = set()
        for (b, i, r, n) in fn.returns():
            if n.get("e") is not None:
                for x in walk(n["e"]):
                    if x.get("k") in ("ref", "member"):
                        pp = path(x)
                        if pp:
                            rel.add(pp)
        changed = True
        while changed:
            changed = False
            for lp, rps in self.copies:
                if lp in rel:
                    for rp in rps:
                        if rp not in rel:
                            rel.add(rp)
                            changed = True
        self.tracked = set(rel)
        self.cap = CAP_
        self.max_steps = 400000

    def initial(self):
        st = super().initial()
        sig = dict(st.sigma)
        for p in self.fn.params:
            if p.get("t", "").strip() == "int":
                sig[p["name"]] = self.not_eof       # codes handed in by callers are result codes, not the sentinel
        return st.with_sigma(sig)

    def call(self, st, n, argvals):
        callee = n.get("callee")
        if callee in self.may:
            return [(st, None)]
        # library calls return CIF codes (>= 0); what a user callback returns is the user's affair, not the sentinel
        return [(st, self.not_eof)]

    def on_return(self, st, n, av):
        if av is None or av.contains(self.eof):
            self.leaks.append((n, st))


def analyse(prog, unit="parser.c"):
    eof = prog.macro_int("CIF_EOF")
    if eof is None:
        raise Broken("CIF_EOF is not defined")
    fns = [f for f in prog.all_functions() if f.unit == unit and "int" in (f.ret or "") and "*" not in (f.ret or "")]
    # origins: functions that return the literal sentinel themselves (outside the ENSURE_CHARS family of macros)
    origins = set()
    for f in fns:
        for (b, i, r, n) in f.returns():
            e = strip(n.get("e")) if n.get("e") is not None else None
            if isinstance(e, dict) and macro_name(e) == "CIF_EOF" and "ENSURE_CHARS" not in (e.get("ms") or []):
                origins.add(f.name)
    if not origins:
        raise Broken("no function of %s returns CIF_EOF literally" % unit)
    may = set(origins)
    leaks = {}
    overflow = []
    rounds = 0
    changed = True
    while changed:
        changed = False
        rounds += 1
        if rounds > 12:
            raise Broken("CIF_EOF may-return analysis did not converge")
        for f in fns:
            if f.name in may:
                continue
            it = EofInterp(prog, f, may, eof)
            it.run()
            if it.overflow:
                overflow.append(f.name)
            if it.leaks:
                may.add(f.name)
                leaks[f.name] = it.leaks
                changed = True
    return eof, origins, may, leaks, [f.name for f in fns], sorted(set(overflow))


def forwarders(prog, may, origins):
    """functions all of whose returns are a direct call of an allowed function"""
    allowed = set(origins)
    changed = True
    while changed:
        changed = False
        for name in may - allowed:
            f = prog.fn(name)
            rets = [strip(n.get("e")) for (b, i, r, n) in f.returns() if n.get("e") is not None]
            if rets and all(isinstance(e, dict) and e.get("k") == "call" and e.get("callee") in allowed for e in rets):
                allowed.add(name)
                changed = True
    return allowed


def rule(prog, r):
    eof, origins, may, leaks, names, overflow = analyse(prog)
    n_fns = len(names)
    for name in names:
        if name not in may and name not in overflow:
            r.ok("clean:%s" % name, "no path returns the sentinel")
    allowed = forwarders(prog, may, origins)
    for name in sorted(origins):
        r.ok("origin:%s" % name, "returns the sentinel literally: its callers test for it")
    for name in sorted(allowed - origins):
        r.ok("forwarder:%s" % name, "returns what an origin returned")
    escaped = may - allowed
    for name in sorted(escaped):
        f = prog.fn(name)
        if (prog.callees(f) & escaped) - {name}:
            continue        # it only hands on what a callee reported below already let escape
        n, st = leaks[name][0]
        r.violation(f.file, name, n.get("l"), "eof-sentinel-escapes:%s" % name,
                    "%s can return CIF_EOF (%d), the scanner's private end-of-input mark: the return at L%s is reached on a path "
                    "where the value received from %s was not replaced.  Callers read %d as CIF_TRAVERSE_SKIP_CURRENT and "
                    "silently skip what they were parsing" % (name, eof, n.get("l"),
                                                             "/".join(sorted(c for c in prog.callees(f) if c in may)) or "a scan macro", eof),
                    path=["L%s" % x for x in st.trail_lines()])
    for name in overflow:
        r.unproved("state-cap:%s" % name, "state cap reached; paths explored up to the cap only")
    r.info("functions-analysed", "%d int functions of parser.c, %d may return the sentinel" % (n_fns, len(may)))
    return n_fns


# ------------------------------------------------------------------------------------------ skipping directives are consumed
def _is_handler_call(n):
    return n.get("callee") is None and n.get("fn") is not None and "handle_" in (path(strip(n["fn"])) or "")


class DirectiveInterp(EofInterp):
    def call(self, st, n, argvals):
        callee = n.get("callee")
        if callee in self.may or _is_handler_call(n):
            return [(st, None)]             # a handler may answer any directive
        return [(st, self.not_eof)]


def directive_rule(prog, r, unit="parser.c"):
    """A handler's answer SKIP_CURRENT / SKIP_SIBLINGS is acted upon (through the skip depth) by the production that receives
    it and is never handed up: the same may-return analysis, with handler calls as the only sources, over the productions
    that (transitively) call handlers.  CIF_TRAVERSE_END and error codes are meant to unwind and are not judged."""
    direct = {f.name for f in prog.all_functions() if f.unit == unit and any(_is_handler_call(n) for (b, i, rr, n) in f.calls())}
    hf = set(direct)
    changed = True
    while changed:
        changed = False
        for f in prog.all_functions():
            if f.unit == unit and f.name not in hf and prog.callees(f) & hf:
                hf.add(f.name)
                changed = True
    if len(direct) < 3:
        raise Broken("fewer than 3 productions with handler calls found in %s" % unit)
    n = 0
    for dname in ("CIF_TRAVERSE_SKIP_CURRENT", "CIF_TRAVERSE_SKIP_SIBLINGS"):
        val = prog.macro_int(dname)
        if val is None:
            raise Broken("%s is not defined" % dname)
        fns = [f for f in prog.all_functions() if f.name in hf and "int" in (f.ret or "")]
        may, leaks = set(), {}
        changed = True
        rounds = 0
        while changed and rounds < 10:
            changed = False
            rounds += 1
            for f in fns:
                if f.name in may:
                    continue
                it = DirectiveInterp(prog, f, may, val)
                it.run()
                if it.overflow:
                    r.unproved("state-cap:%s:%s" % (f.name, dname), "state cap reached")
                if it.leaks:
                    may.add(f.name)
                    leaks[f.name] = it.leaks
                    changed = True
        for f in fns:
            n += 1
            if f.name not in may:
                r.ok("%s:%s" % (f.name, dname), "never returned")
            elif not ((prog.callees(f) & may) - {f.name}):
                node, st = leaks[f.name][0]
                r.violation(f.file, f.name, node.get("l"), "directive-returned:%s:%s" % (f.name, dname),
                            "%s can return %s (%d) received from a handler: the directive is not consumed where it was answered, so "
                            "the callers unwind (a negative code ends the whole parse quietly) instead of skipping what the handler "
                            "asked to skip" % (f.name, dname, val), path=["L%s" % x for x in st.trail_lines()][-25:])
    return n

