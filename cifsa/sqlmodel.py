"""A4: the embedded SQL program — statements tied to the *_stmt field they are prepared into,
step sites, classification, and (via python's sqlite3 = SQLite's own parser) schema metadata."""
import re
import sqlite3

from .facts import Broken, path, strip, walk, walk_eval, const


def literal_text(n):
    n = strip(n)
    if isinstance(n, dict) and n.get("k") == "str" and "v" in n:
        return n["v"]
    return None


def classify(sql):
    if sql is None:
        return "unknown"
    w = sql.strip().split(None, 1)[0].lower() if sql.strip() else ""
    if w in ("insert", "update", "delete", "replace", "create", "drop", "alter"):
        return "modify"
    if w in ("select", "pragma", "explain"):
        return "read"
    if w in ("begin", "commit", "rollback", "savepoint", "release", "end"):
        return "tx"
    return "unknown"


TX_KIND = {
    "begin": "open", "savepoint s": "open",
    "commit": "commit", "release s": "commit",
    "rollback": "rollback", "rollback to s": "rollback",
}


def tx_event(call):
    """'open' | 'commit' | 'rollback' | None for a call node."""
    if call.get("callee") != "sqlite3_exec":
        return None
    args = call.get("args", [])
    if len(args) < 2:
        return None
    t = literal_text(args[1])
    if t is None:
        return None
    return TX_KIND.get(" ".join(t.lower().split()))


def _member_name(n):
    n = strip(n)
    if isinstance(n, dict) and n.get("k") == "un" and n.get("op") == "&":
        n = strip(n.get("e"))
    if isinstance(n, dict) and n.get("k") == "member":
        return n["name"]
    return None


class SqlModel:
    def __init__(self, prog):
        self.prog = prog
        self.statements = {}     # field -> {"sql":..., "sites":[...], "macro": name}
        self.conflicts = []
        for fn in prog.all_functions():
            for (b, i, r, n) in fn.calls_to("sqlite3_prepare_v2"):
                args = n.get("args", [])
                if len(args) < 4:
                    continue
                field = _member_name(args[3])
                sql = literal_text(args[1])
                if field is None or sql is None:
                    continue
                mac = None
                a1 = strip(args[1])
                for m in a1.get("ms", []):
                    if m.endswith("_SQL"):
                        mac = m
                        break
                e = self.statements.setdefault(field, {"sql": sql, "sites": [], "macro": mac})
                if e["sql"] != sql:
                    self.conflicts.append((field, fn.name, n.get("l")))
                e["sites"].append({"fn": fn.name, "file": fn.file, "line": n.get("l"), "call_id": n["id"],
                                   "via_macro": "PREPARE_STMT" in (n.get("ms") or [])})
        self._stepmaps = {}

    def sql_of(self, field):
        e = self.statements.get(field)
        return e["sql"] if e else None

    def step_field(self, fn, root, call):
        """Which statement field does this sqlite3_step call step?  None if unknown."""
        a0 = strip(call["args"][0]) if call.get("args") else None
        m = _member_name(a0)
        if m:
            return m
        if isinstance(a0, dict) and a0.get("k") == "ref":
            var = a0["name"]
            # same root first (STEP_STMT comma expression), then any single assignment in the function
            for n in walk(root):
                if n.get("k") == "asg" and n.get("op") == "=" and path(n.get("lhs")) == var:
                    mm = _member_name(n.get("rhs"))
                    if mm:
                        return mm
            cands = set()
            for (b, i, r, n) in fn.eval_sites():
                if n.get("k") == "asg" and n.get("op") == "=" and path(n.get("lhs")) == var:
                    cands.add(_member_name(n.get("rhs")))
                if n.get("k") == "decl":
                    for v in n.get("vars", []):
                        if v["name"] == var and v.get("init"):
                            cands.add(_member_name(v["init"]))
            if len(cands) == 1:
                return cands.pop()
        return None

    def step_sites(self, fn):
        out = []
        for (b, i, r, n) in fn.calls_to("sqlite3_step"):
            out.append((b, i, r, n, self.step_field(fn, r, n)))
        return out

    # ------------------------------------------------------------ schema
    def schema_statements(self):
        g = self.prog.globals.get("schema_statements")
        if not g or not g.get("init"):
            raise Broken("schema_statements[] not found")
        out = []
        for e in g["init"].get("elems", []):
            t = literal_text(e)
            if t is None:
                if const(e) == 0 or (strip(e) or {}).get("k") in ("cast", "int"):
                    continue  # NULL terminator
                continue
            out.append(t)
        if not out:
            raise Broken("schema_statements[] is empty")
        return out

    def open_db(self):
        db = sqlite3.connect(":memory:")
        for s in self.schema_statements():
            try:
                db.executescript(s) if s.strip().lower().startswith("pragma") else db.execute(s)
            except sqlite3.Error as e:
                raise Broken("schema statement rejected by SQLite: %s: %r" % (e, s[:80]))
        return db
