"""A4: the embedded SQL program — statements tied to the *_stmt field they are prepared into,
step sites, classification, and (via python's sqlite3 = SQLite's own parser) schema metadata."""
import re
import sqlite3

from .facts import Broken, path, strip, walk, walk_eval, const


def literal_text(n):
    n = strip(n)
    if isinstance(n, dict) and n.get("k") == "str" and "v" in n:
        return n["v"]
    return None


def classify(sql):
    if sql is None:
        return "unknown"
    w = sql.strip().split(None, 1)[0].lower() if sql.strip() else ""
    if w in ("insert", "update", "delete", "replace", "create", "drop", "alter"):
        return "modify"
    if w in ("select", "pragma", "explain"):
        return "read"
    if w in ("begin", "commit", "rollback", "savepoint", "release", "end"):
        return "tx"
    return "unknown"


TX_KIND = {
    "begin": "open", "savepoint s": "open",
    "commit": "commit", "release s": "commit",
    "rollback": "rollback", "rollback to s": "rollback",
}


def tx_event(call):
    """'open' | 'commit' | 'rollback' | None for a call node."""
    if call.get("callee") != "sqlite3_exec":
        return None
    args = call.get("args", [])
    if len(args) < 2:
        return None
    t = literal_text(args[1])
    if t is None:
        return None
    return TX_KIND.get(" ".join(t.lower().split()))


def tx_literal(call):
    """The normalised SQL text of a transaction-control sqlite3_exec ('begin', 'rollback to s', ...) or None."""
    if call.get("callee") != "sqlite3_exec" or len(call.get("args", [])) < 2:
        return None
    t = literal_text(call["args"][1])
    if t is None:
        return None
    t = " ".join(t.lower().split())
    return t if t in TX_KIND else None


def _member_name(n):
    n = strip(n)
    if isinstance(n, dict) and n.get("k") == "un" and n.get("op") == "&":
        n = strip(n.get("e"))
    if isinstance(n, dict) and n.get("k") == "member":
        return n["name"]
    return None


class SqlModel:
    def __init__(self, prog):
        self.prog = prog
        self.statements = {}     # field -> {"sql":..., "sites":[...], "macro": name}
        self.conflicts = []
        for fn in prog.all_functions():
            for (b, i, r, n) in fn.calls_to("sqlite3_prepare_v2"):
                args = n.get("args", [])
                if len(args) < 4:
                    continue
                field = _member_name(args[3])
                sql = literal_text(args[1])
                if field is None or sql is None:
                    continue
                mac = None
                a1 = strip(args[1])
                for m in a1.get("ms", []):
                    if m.endswith("_SQL"):
                        mac = m
                        break
                e = self.statements.setdefault(field, {"sql": sql, "sites": [], "macro": mac})
                if e["sql"] != sql:
                    self.conflicts.append((field, fn.name, n.get("l")))
                e["sites"].append({"fn": fn.name, "file": fn.file, "line": n.get("l"), "call_id": n["id"],
                                   "via_macro": "PREPARE_STMT" in (n.get("ms") or [])})
        self._stepmaps = {}

    def sql_of(self, field):
        e = self.statements.get(field)
        return e["sql"] if e else None

    def step_field(self, fn, root, call):
        """Which statement field does this sqlite3_step call step?  None if unknown."""
        a0 = strip(call["args"][0]) if call.get("args") else None
        m = _member_name(a0)
        if m:
            return m
        if isinstance(a0, dict) and a0.get("k") == "ref":
            var = a0["name"]
            # same root first (STEP_STMT comma expression), then any single assignment in the function
            for n in walk(root):
                if n.get("k") == "asg" and n.get("op") == "=" and path(n.get("lhs")) == var:
                    mm = _member_name(n.get("rhs"))
                    if mm:
                        return mm
            cands = set()
            for (b, i, r, n) in fn.eval_sites():
                if n.get("k") == "asg" and n.get("op") == "=" and path(n.get("lhs")) == var:
                    cands.add(_member_name(n.get("rhs")))
                if n.get("k") == "decl":
                    for v in n.get("vars", []):
                        if v["name"] == var and v.get("init"):
                            cands.add(_member_name(v["init"]))
            if len(cands) == 1:
                return cands.pop()
        return None

    def step_sites(self, fn):
        out = []
        for (b, i, r, n) in fn.calls_to("sqlite3_step"):
            out.append((b, i, r, n, self.step_field(fn, r, n)))
        return out

    # ------------------------------------------------------------ schema
    def schema_statements(self):
        g = self.prog.globals.get("schema_statements")
        if not g or not g.get("init"):
            raise Broken("schema_statements[] not found")
        out = []
        for e in g["init"].get("elems", []):
            t = literal_text(e)
            if t is None:
                if const(e) == 0 or (strip(e) or {}).get("k") in ("cast", "int"):
                    continue  # NULL terminator
                continue
            out.append(t)
        if not out:
            raise Broken("schema_statements[] is empty")
        return out

    def open_db(self):
        db = sqlite3.connect(":memory:")
        for s in self.schema_statements():
            try:
                db.executescript(s) if s.strip().lower().startswith("pragma") else db.execute(s)
            except sqlite3.Error as e:
                raise Broken("schema statement rejected by SQLite: %s: %r" % (e, s[:80]))
        return db


# ====================================================================== parameters, schema, C-side sites
_TOK = re.compile(r"\s*(\?\d*|[A-Za-z_][A-Za-z_0-9]*(?:\.[A-Za-z_][A-Za-z_0-9]*)?|'(?:[^']|'')*'|\d+|<>|!=|<=|>=|\|\||.)", re.S)


def sql_tokens(sql):
    return [m.group(1) for m in _TOK.finditer(sql) if m.group(1).strip()]


def parse_params(sql):
    """-> list of {n, column, context} for each parameter *occurrence* (SQLite numbering rules)."""
    toks = sql_tokens(sql)
    low = [t.lower() for t in toks]
    out = []
    largest = 0
    # insert column list
    ins_cols = None
    if low and low[0] in ("insert", "replace"):
        try:
            i = low.index("into")
            j = i + 2
            if j < len(toks) and toks[j] == "(":
                k = toks.index(")", j)
                ins_cols = [t for t in toks[j + 1:k] if t != ","]
                body_start = k + 1
            else:
                body_start = j
        except ValueError:
            body_start = 0
    else:
        body_start = 0
    # position inside the first values(...)/select-list after the column list
    list_pos = None
    depth = 0
    in_list = False
    list_depth = None
    for idx, t in enumerate(toks):
        lt = low[idx]
        if idx >= body_start and ins_cols is not None and not in_list and list_pos is None and lt in ("values", "select"):
            in_list = True
            list_pos = 0
            list_depth = depth + (1 if lt == "values" else 0)
            continue
        if t == "(":
            depth += 1
        elif t == ")":
            depth -= 1
            if in_list and depth < list_depth:
                in_list = False
        elif in_list and t == "," and depth == list_depth:
            list_pos += 1
        elif in_list and lt == "from" and depth == list_depth:
            in_list = False
        if t.startswith("?"):
            if len(t) > 1:
                n = int(t[1:])
            else:
                n = largest + 1
            largest = max(largest, n)
            col, ctx = None, "other"
            if in_list and ins_cols is not None and depth == list_depth and list_pos is not None and list_pos < len(ins_cols):
                col, ctx = ins_cols[list_pos], "insert"
            elif idx >= 2 and toks[idx - 1] in ("=", "==") and re.match(r"^[A-Za-z_]", toks[idx - 2]):
                col, ctx = toks[idx - 2].split(".")[-1], ("set" if _in_set_clause(low, idx) else "where")
            out.append({"n": n, "column": col, "context": ctx})
    return out


def _in_set_clause(low, idx):
    last_set = max((i for i in range(idx) if low[i] == "set"), default=-1)
    last_where = max((i for i in range(idx) if low[i] == "where"), default=-1)
    return last_set > last_where


def statement_target(sql):
    toks = [t.lower() for t in sql_tokens(sql)]
    if not toks:
        return None
    if toks[0] in ("insert", "replace") and "into" in toks:
        return toks[toks.index("into") + 1]
    if toks[0] == "update":
        return toks[1]
    if toks[0] == "delete" and "from" in toks:
        return toks[toks.index("from") + 1]
    return None


class Schema:
    def __init__(self, sqlm):
        self.db = sqlm.open_db()
        self.ddl = sqlm.schema_statements()
        db = self.db
        self.tables = {}
        self.views = {}
        self.triggers = {}
        for typ, name, tbl, sql in db.execute("select type, name, tbl_name, sql from sqlite_master"):
            if typ == "table" and not name.startswith("sqlite_"):
                cols = {}
                for cid, cname, ctype, notnull, dflt, pk in db.execute("pragma table_info(%s)" % name):
                    cols[cname] = {"type": ctype, "notnull": bool(notnull), "pk": pk, "default": dflt}
                uniq = []
                for seq, iname, unique, origin, partial in db.execute("pragma index_list(%s)" % name):
                    if unique:
                        uniq.append(tuple(r[2] for r in db.execute("pragma index_info(%s)" % iname)))
                pkcols = tuple(c for c, v in sorted(cols.items(), key=lambda kv: kv[1]["pk"]) if v["pk"])
                fks = {}
                for row in db.execute("pragma foreign_key_list(%s)" % name):
                    fid, seq, reftable, frm, to, on_update, on_delete, match = row
                    fk = fks.setdefault(fid, {"table": reftable, "from": [], "to": [], "on_delete": on_delete})
                    fk["from"].append(frm)
                    fk["to"].append(to)
                self.tables[name] = {"columns": cols, "unique": uniq, "pk": pkcols, "fks": list(fks.values()), "sql": sql}
            elif typ == "view":
                self.views[name] = sql
            elif typ == "trigger":
                self.triggers[name] = {"table": tbl, "sql": sql}

    def unique_sets(self, table):
        t = self.tables[table]
        s = {tuple(sorted(u)) for u in t["unique"]}
        if t["pk"]:
            s.add(tuple(sorted(t["pk"])))
        return s

    def compile(self, sql, nparams):
        """Type-check a statement against the schema with SQLite's own compiler. -> (ok, message, output columns)."""
        try:
            cur = self.db.execute("explain " + sql, [None] * nparams)
            cur.fetchall()
        except sqlite3.Error as e:
            return False, str(e), None
        cols = None
        if sql.strip().lower().startswith("select"):
            try:
                cur = self.db.execute(sql, [None] * nparams)
                cols = [d[0] for d in cur.description]
                cur.fetchall()
            except sqlite3.Error as e:
                return False, str(e), None
        return True, "", cols


BIND_KIND = {"sqlite3_bind_int": "int", "sqlite3_bind_int64": "int", "sqlite3_bind_text16": "text16", "sqlite3_bind_text": "text",
             "sqlite3_bind_double": "double", "sqlite3_bind_blob": "blob", "sqlite3_bind_null": "null"}
COLUMN_KIND = {"sqlite3_column_int": "int", "sqlite3_column_int64": "int", "sqlite3_column_text16": "text16",
               "sqlite3_column_text": "text", "sqlite3_column_double": "double", "sqlite3_column_blob": "blob",
               "sqlite3_column_bytes": "bytes", "sqlite3_column_bytes16": "bytes16", "sqlite3_column_type": "type"}


def local_consts(fn):
    """did -> constant for locals initialised once with a constant and never reassigned; did -> stmt field for handles."""
    ints, stmts, bad = {}, {}, set()
    for (b, i, r, n) in fn.eval_sites():
        if n.get("k") == "decl":
            for v in n.get("vars", []):
                init = v.get("init")
                if init is None:
                    continue
                c = const(init)
                if c is not None:
                    ints[v["did"]] = c
                m = _member_name(init)
                if m and (m.endswith("_stmt") or m == "stmt"):
                    stmts[v["did"]] = m
        elif n.get("k") == "asg":
            l = strip(n.get("lhs"))
            if isinstance(l, dict) and l.get("k") == "ref" and "did" in l:
                m = _member_name(n.get("rhs"))
                if n.get("op") == "=" and m and (m.endswith("_stmt") or m == "stmt") and l["did"] not in stmts:
                    stmts[l["did"]] = m
                else:
                    bad.add(l["did"])
        elif n.get("k") == "un" and n.get("op") in ("pre++", "pre--", "post++", "post--"):
            l = strip(n.get("e"))
            if isinstance(l, dict) and l.get("k") == "ref" and "did" in l:
                bad.add(l["did"])
    # handles copied from other local handles (sqlite3_stmt *_stmt = (stmt))
    changed = True
    while changed:
        changed = False
        for (b, i, r, n) in fn.eval_sites("decl"):
            for v in n.get("vars", []):
                init = strip(v.get("init"))
                if isinstance(init, dict) and init.get("k") == "ref" and init.get("did") in stmts and v["did"] not in stmts:
                    stmts[v["did"]] = stmts[init["did"]]
                    changed = True
                if isinstance(init, dict) and init.get("k") == "ref" and init.get("did") in ints and v["did"] not in ints \
                        and v["did"] not in bad:
                    ints[v["did"]] = ints[init["did"]]
                    changed = True
    for d in bad:
        ints.pop(d, None)
    return ints, stmts


def fold(n, ints):
    """Constant value of an index expression using single-assignment local constants."""
    n = strip(n)
    if not isinstance(n, dict):
        return None
    c = const(n)
    if c is not None:
        return c
    if n.get("k") == "ref" and n.get("did") in ints:
        return ints[n["did"]]
    if n.get("k") == "bin" and n.get("op") in ("+", "-"):
        a, b = fold(n.get("lhs"), ints), fold(n.get("rhs"), ints)
        if a is None or b is None:
            return None
        return a + b if n["op"] == "+" else a - b
    return None


def stmt_of(n, stmts):
    n = strip(n)
    m = _member_name(n)
    if m:
        return m
    if isinstance(n, dict) and n.get("k") == "ref" and n.get("did") in stmts:
        return stmts[n["did"]]
    return None


def bind_column_sites(prog):
    """All sqlite3_bind_* / sqlite3_column_* call sites with resolved statement and index."""
    out = []
    for fn in prog.all_functions():
        ints = stmts = None
        for (b, i, r, n) in fn.calls():
            c = n.get("callee") or ""
            if c in BIND_KIND or c in COLUMN_KIND:
                if ints is None:
                    ints, stmts = local_consts(fn)
                args = n.get("args", [])
                if len(args) < 2:
                    continue
                out.append({"fn": fn, "block": b.id, "root": i, "node": n, "api": c,
                            "kind": BIND_KIND.get(c) or COLUMN_KIND.get(c), "is_bind": c in BIND_KIND,
                            "stmt": stmt_of(args[0], stmts), "index": fold(args[1], ints),
                            "value": args[2] if len(args) > 2 else None,
                            "dtor": args[4] if c in ("sqlite3_bind_text16", "sqlite3_bind_text", "sqlite3_bind_blob") and len(args) > 4 else None,
                            "macros": n.get("ms") or []})
    return out
