"""Transaction typestate (A1 instance) shared by C05, C06, C14, C17.

Abstract events: open (begin / savepoint s), commit (commit / release s), rollback (rollback / rollback to s),
modifying statement executed (sqlite3_step on an insert/update/delete statement, sqlite3_exec of non-tx SQL).
Typestate ts = (mods, committed, lost, mods_out):
   mods      tuple of int, one per open transaction level opened or inherited by this function
             (bit 0 = a modifying statement ran at that level, bit 1 = the level was opened by `savepoint s`)
   committed a transaction opened by this function at its outermost level was committed successfully
   lost      a rollback-kind close discarded modifications
   mods_out  0/1/2 = number (saturating) of modifying statements run outside any transaction of this function
   outer     None / True / False: what sqlite3_get_autocommit told this function about an enclosing transaction it does not
             own (BEGIN_NESTTX asks before choosing between SAVEPOINT and BEGIN)
"""
from .facts import Broken, strip, const
from .interp import Interp, State, av_const, NONZERO
from .sqlmodel import SqlModel, tx_event, tx_literal, classify, literal_text

# Frozen from DESIGN.md A.5 — functions that by contract do not leave the depth as they found it.
# name -> (entry depth, {return class -> exit depth})
UNBALANCED = {
    "cif_loop_get_packets": (0, {"ok": 1, "err": 0}),   # returns with the iterator's transaction open on CIF_OK
    "cif_pktitr_close": (1, {"ok": 0, "err": 0}),       # entered with the iterator's transaction open; commits
    "cif_pktitr_abort": (1, {"ok": 0, "err": 0}),       # entered open; rolls back
}
# Functions entered with the iterator's transaction open and leaving it open (they work inside it).
INSIDE_ITERATOR_TX = {
    "cif_pktitr_next_packet": 1, "cif_pktitr_update_packet": 1, "cif_pktitr_remove_packet": 1,
}
# Documented "no transaction management is performed": must be called with a transaction open.
TX_REQUIRED_HELPERS = {
    "cif_container_add_scalar": "utils.h: 'does not perform transaction management'; multi-statement insert",
    "cif_container_set_all_values": "as above; updates every row of the item",
    "cif_pktitr_reset_packet_number": "pktitr.c helper run inside the iterator's transaction",
}


# functions whose unconditional ROLLBACK is their documented purpose
FULL_ROLLBACK_BY_DESIGN = {
    "cif_destroy": "cif.h: destroying a CIF releases everything belonging to it, open iterators included; its first action is to "
                   "end whatever transaction is open",
}


def may_savepoint(prog):
    """functions that can execute `savepoint s` themselves or through callees"""
    cache = getattr(prog, "_may_savepoint", None)
    if cache is not None:
        return cache
    direct = set()
    for fn in prog.all_functions():
        for (b, i, r, n) in fn.calls_to("sqlite3_exec"):
            if tx_literal(n) == "savepoint s":
                direct.add(fn.name)
    out = set(direct)
    changed = True
    while changed:
        changed = False
        for fn in prog.all_functions():
            if fn.name not in out and prog.callees(fn) & out:
                out.add(fn.name)
                changed = True
    prog._may_savepoint = out
    return out


def ret_class(av):
    if av is None:
        return "unknown"
    if av.is_const() and av.value() == 0:
        return "ok"
    if av.nonzero():
        return "err"
    return "unknown"


class TxInterp(Interp):
    def __init__(self, prog, fn, sqlm, summaries, entry_depth=0):
        super().__init__(prog, fn)
        self.sqlm = sqlm
        self.summaries = summaries
        self.entry_depth = entry_depth
        self.events = []          # (kind, line, depth_before) as seen (for evidence)
        self.helper_calls = []    # (callee, line, depth)
        self.anomalies = []       # (kind, line, state)
        self.mod_sites = []       # (line, what, depth)
        self.public = prog.public_api()
        self._seen_ev = set()
        self.may_savepoint = may_savepoint(prog)
        # a connection opened by this very function cannot carry anybody else's transaction
        self.own_connection = any(n.get("callee") in ("sqlite3_open", "sqlite3_open_v2", "sqlite3_open16") for (b, i, r, n) in fn.calls())

    def initial_ts(self):
        return (tuple([0] * self.entry_depth), False, False, 0, None)

    def _note(self, kind, node, depth):
        k = (kind, node.get("l"), node["id"])
        if k not in self._seen_ev:
            self._seen_ev.add(k)
            self.events.append((kind, node.get("l"), depth))

    def _modify(self, st, n, count=1, what=""):
        mods, committed, lost, mo, outer = st.ts
        self.mod_sites.append((n.get("l"), what, len(mods)))
        if mods:
            mods = mods[:-1] + (mods[-1] | 1,)
        else:
            mo = min(2, mo + count)
        return st.with_ts((mods, committed, lost, mo, outer))

    def call(self, st, n, argvals):
        callee = n.get("callee")
        mods, committed, lost, mo, outer = st.ts
        ev = tx_event(n)
        lit = tx_literal(n) if ev else None
        if ev == "open":
            self._note("open", n, len(mods))
            if lit == "begin" and mods:
                # SQLite refuses BEGIN while a transaction is open: only the failing outcome exists
                self.anomalies.append(("begin-inside-transaction", n.get("l"), st))
                return [(st, NONZERO)]
            ok = st.with_ts((mods + (2 if lit == "savepoint s" else 0,), committed, lost, mo, outer))
            return [(ok, av_const(0)), (st, NONZERO)]
        if ev == "commit":
            self._note("commit", n, len(mods))
            if not mods:
                self.anomalies.append(("commit-without-open", n.get("l"), st))
                return [(st, None)]
            if lit == "commit":
                # COMMIT ends the whole transaction: every open level, inherited ones included
                if outer:
                    self.anomalies.append(("full-commit-inside-enclosing-transaction", n.get("l"), st))
                ok = st.with_ts(((), True, lost, mo, outer))
                return [(ok, av_const(0)), (st, NONZERO)]
            top = mods[-1] & 1
            rest = mods[:-1]
            if rest and top:
                rest = rest[:-1] + (rest[-1] | 1,)
            ok = st.with_ts((rest, committed or (len(rest) <= self.entry_depth), lost, mo, outer))
            return [(ok, av_const(0)), (st, NONZERO)]
        if ev == "rollback":
            self._note("rollback", n, len(mods))
            if not mods:
                if lit == "rollback" and self.entry_depth == 0 and outer is not False and not self.own_connection \
                        and self.fn.name not in FULL_ROLLBACK_BY_DESIGN:
                    # nothing of this function's is open here (its BEGIN failed or was never reached): a full ROLLBACK
                    # can only hit a transaction that somebody else - an open packet iterator - holds
                    self.anomalies.append(("full-rollback-without-own-transaction", n.get("l"), st))
                return [(st, None)]     # idempotent close
            if lit == "rollback":
                # ROLLBACK (without TO) ends the whole transaction: every open level, inherited ones included
                if outer:
                    self.anomalies.append(("full-rollback-inside-enclosing-transaction", n.get("l"), st))
                return [(st.with_ts(((), committed, lost or any(m_ & 1 for m_ in mods), mo, outer)), None)]
            if (mods[-1] & 2) and len(mods) == 1 and self.entry_depth == 0 and outer is not True:
                # an outermost savepoint started a transaction of its own; ROLLBACK TO undoes the work but neither
                # removes the savepoint nor ends that transaction: the level stays open
                self.anomalies.append(("outermost-savepoint-left-open", n.get("l"), st))
                return [(st.with_ts((mods, committed, lost or bool(mods[-1] & 1), mo, outer)), None)]
            s = st.with_ts((mods[:-1], committed, lost or bool(mods[-1] & 1), mo, outer))
            return [(s, None)]
        if callee == "sqlite3_get_autocommit":
            if mods:
                return [(st, av_const(0))]      # a transaction is open: not in autocommit mode
            # nothing of this function's is open: 0 means the caller has a transaction open, which this function does not own
            return [(st.with_ts((mods, committed, lost, mo, True)), av_const(0)),
                    (st.with_ts((mods, committed, lost, mo, False)), NONZERO)]
        if callee == "sqlite3_exec":
            t = literal_text(n["args"][1]) if len(n.get("args", [])) > 1 else None
            c = classify(t) if t is not None else "modify"
            if c in ("modify", "unknown"):
                return [(self._modify(st, n, 1, "sqlite3_exec(%s)" % (t[:30] if t else "<dynamic>")), None)]
            return [(st, None)]
        if callee == "sqlite3_step":
            ck = (self.fn.key, n["id"])
            if ck not in self.sqlm._stepmaps:
                self.sqlm._stepmaps[ck] = self.sqlm.step_field(self.fn, self._cur_root, n)
            field = self.sqlm._stepmaps[ck]
            sql = self.sqlm.sql_of(field) if field else None
            c = classify(sql)
            if c == "modify" or (c == "unknown" and field is None and False):
                return [(self._modify(st, n, 1, "step %s" % field), None)]
            return [(st, None)]
        if callee in UNBALANCED:
            entry, exits = UNBALANCED[callee]
            if callee == "cif_loop_get_packets":
                ok = st.with_ts((mods + (0,), committed, lost, mo, outer))
                return [(ok, av_const(0)), (st, NONZERO)]
            # close / abort
            if not mods:
                self.anomalies.append(("iterator-close-without-open", n.get("l"), st))
                return [(st, None)]
            return [(st.with_ts(((), committed, lost, mo, outer)), None)]     # COMMIT / ROLLBACK: the whole transaction ends
        if mods and (mods[-1] & 2) and callee in self.may_savepoint:
            # our level is `savepoint s`; the callee may set another `savepoint s` and, when it fails, leave it on the stack
            # (ROLLBACK TO does not remove a savepoint): our own ROLLBACK TO s would then stop at the callee's savepoint
            self.anomalies.append(("nested-same-name-savepoint:%s" % callee, n.get("l"), st))
        if callee in TX_REQUIRED_HELPERS:
            self.helper_calls.append((callee, n.get("l"), len(mods)))
        sm = self.summaries.get(callee)
        if sm and sm.get("mods_out") and callee not in self.public:
            # a public API function is its own unit of atomicity; internal helpers count in the caller
            return [(self._modify(st, n, sm["mods_out"], "call %s" % callee), None)]
        return [(st, None)]

    def on_root(self, st, block, index, root):
        self._cur_root = root
        return st


def direct_event_functions(prog):
    out = set()
    for fn in prog.all_functions():
        for (_, _, _, n) in fn.calls():
            if n.get("callee") in ("sqlite3_exec", "sqlite3_step") or n.get("callee") in UNBALANCED:
                out.add(fn.key)
                break
    return out


class TxAnalysis:
    def __init__(self, prog):
        self.prog = prog
        self.sqlm = SqlModel(prog)
        self.results = {}       # fn.key -> TxInterp
        self.summaries = {}     # name -> {"mods_out": k}
        self.rounds = 0
        self._run()

    def entry_depth(self, fn):
        if fn.name in UNBALANCED:
            return UNBALANCED[fn.name][0]
        return INSIDE_ITERATOR_TX.get(fn.name, 0)

    def _run(self):
        prog = self.prog
        todo = {k for k in direct_event_functions(prog)}
        byname = {f.key: f for f in prog.all_functions()}
        for _ in range(6):
            self.rounds += 1
            changed = False
            for key in sorted(todo):
                fn = byname[key]
                it = TxInterp(prog, fn, self.sqlm, self.summaries, self.entry_depth(fn)).run()
                self.results[key] = it
                base = self.entry_depth(fn)
                mo = 0
                for st, av, node in it.exits:
                    mo = max(mo, st.ts[3])
                old = self.summaries.get(fn.name, {}).get("mods_out", 0)
                if mo != old:
                    self.summaries.setdefault(fn.name, {})["mods_out"] = mo
                    changed = True
            # add callers of functions with non-trivial summaries
            nontriv = {n for n, s in self.summaries.items() if s.get("mods_out")} | set(UNBALANCED) | set(TX_REQUIRED_HELPERS)
            for fn in prog.all_functions():
                if fn.key in todo:
                    continue
                if prog.callees(fn) & nontriv:
                    todo.add(fn.key)
                    changed = True
            if not changed:
                break
        self.functions = [byname[k] for k in sorted(todo)]

    def expected_exit_depth(self, fn, cls):
        if fn.name in UNBALANCED:
            ex = UNBALANCED[fn.name][1]
            return ex.get(cls)  # None for unknown
        return INSIDE_ITERATOR_TX.get(fn.name, 0)
