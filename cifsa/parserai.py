"""Context-sensitive abstract interpretation of the recursive-descent parser's skip_depth discipline (C15).

Each parse_* function is analysed once per *entry context* (nullness of its pointer parameters, abstract value of
scanner->skip_depth); contexts are discovered from the call sites, starting at parse_cif as called by
cif_parse_internal (skip_depth = 0, storing mode or syntax-only mode).  Observations record, for every handler /
syntax-callback / storing call site, the abstract skip_depth of every configuration that reaches it.
"""
import re

from .facts import Broken, strip, const, walk, walk_eval, macro_name
from .interp import Interp, State, path, av_const, AV, NONZERO, av_shift

SKIP = "scanner->skip_depth"
HANDLER_FIELDS = ("handle_cif_start", "handle_cif_end", "handle_block_start", "handle_block_end", "handle_frame_start",
                  "handle_frame_end", "handle_loop_start", "handle_loop_end", "handle_packet_start", "handle_packet_end",
                  "handle_item")
GH_H = "ghost#last-handler"          # index into HANDLER_FIELDS of the handler most recently called on the path
GH_S = "ghost#depth-store"           # node id of the last `skip_depth = c` on the path (-1: set by a callee's contract)
GH_SH = "ghost#depth-store-handler"  # GH_H at that store
GH_D = "ghost#depth-store-directive" # GH_C at that store
GH_C = "ghost#directive-selected"    # the SKIP directive (-1 / -2) most recently selected by a case label or a comparison
SYNTAX_CALLBACKS = ("keyword_callback", "dataname_callback", "whitespace_callback")
STORING_CALLS = ("cif_create_block", "cif_create_block_internal", "cif_container_create_frame",
                 "cif_container_create_frame_internal", "cif_container_create_loop", "cif_container_set_value",
                 "cif_loop_add_packet")


def indirect_target(n):
    """'handle_item' / 'error_callback' / 'keyword_callback' ... for an indirect call through the scanner, else None."""
    if n.get("callee") or not n.get("fn"):
        return None
    p = path(strip(n["fn"])) or ""
    m = re.search(r"(\w+)\)?$", p)
    return m.group(1) if m else None


def skip_writers(prog):
    """Functions that (transitively) store to ->skip_depth."""
    direct = set()
    for fn in prog.all_functions():
        if fn.unit != "parser.c":
            continue
        for (b, i, r, n) in fn.eval_sites():
            if n.get("k") == "asg" and (path(strip(n.get("lhs"))) or "").endswith("skip_depth"):
                direct.add(fn.name)
            if n.get("k") == "un" and n.get("op") in ("pre++", "pre--", "post++", "post--") and \
                    (path(strip(n.get("e"))) or "").endswith("skip_depth"):
                direct.add(fn.name)
    out = set(direct)
    changed = True
    while changed:
        changed = False
        for fn in prog.all_functions():
            if fn.unit != "parser.c" or fn.name in out:
                continue
            if prog.callees(fn) & out:
                out.add(fn.name)
                changed = True
    return out, direct


def norm_skip(av):
    """Canonical entry abstraction of skip_depth."""
    if av is None:
        return None
    if av.hi is not None and av.hi <= 0:
        return av_const(0)
    if av.is_const():
        return av if av.value() <= 3 else AV(1, None)
    if av.lo is not None and av.lo >= 1:
        return AV(1, None)
    return None


class ParserInterp(Interp):
    def __init__(self, prog, fn, ctx, writers, contract=True):
        super().__init__(prog, fn)
        self.ctx = ctx                    # (tuple of (param, 'null'|'nn'|'any'), skip AV or None)
        self.writers = writers
        self.contract = contract
        self.obs = []                     # (kind, name, call node, skip AV, state)
        self.calls_out = []               # (callee, ctx)
        keep = {SKIP, "result", "loop", "block", "frame", "container", "cif", "name", "is_block", "have_packets"}
        keep |= {p["name"] for p in fn.params}
        # any variable that receives a handler's answer (a refactoring may have renamed `result`)
        for (b, i, r, n) in fn.eval_sites():
            tgt_var, rhs = None, None
            if n.get("k") == "asg" and n.get("op") == "=":
                tgt_var, rhs = path(strip(n.get("lhs"))), n.get("rhs")
                if tgt_var and rhs is not None and any(x.get("k") == "call" and indirect_target(x) in HANDLER_FIELDS
                                                       for x in walk(rhs) if isinstance(x, dict)):
                    keep.add(tgt_var)
            elif n.get("k") == "decl":
                for v in n.get("vars", []):
                    if v.get("init") is not None and any(x.get("k") == "call" and indirect_target(x) in HANDLER_FIELDS
                                                         for x in walk(v["init"]) if isinstance(x, dict)):
                        keep.add(v["name"])
        self.tracked = {p for p in self.tracked if p in keep} | {SKIP}
        self.always_live = {SKIP, GH_H, GH_S, GH_SH, GH_D, GH_C}
        self.arith_paths = {SKIP}
        self.cap = 6000
        if fn.name == "parse_loop_packets":
            # the first-value / last-value pairing of the depth changes is keyed on the column index
            self.tracked |= {"column_index"}
            self.arith_paths |= {"column_index"}

    def initial(self):
        sig = {}
        params, skip = self.ctx
        for pname, cls in params:
            if cls == "null":
                sig[pname] = av_const(0)
            elif cls == "nn":
                sig[pname] = NONZERO
        if skip is not None:
            sig[SKIP] = skip
        self.tracked |= {p for p, _ in params}
        return State(sig, None, {}, None)

    def clobbered_by_call(self, st, node):
        self._pre_skip = st.sigma.get(SKIP)
        out = super().clobbered_by_call(st, node)
        c = node.get("callee")
        keep_skip = (c is not None and c not in self.writers) or (c is None)
        if keep_skip:
            out = [p for p in out if p != SKIP]
        return [p for p in out if not p.startswith("ghost#")]

    def assign(self, st, node, lhs, p, av, rhs):
        if p == "column_index" and av is not None and "column_index" in self.arith_paths:
            lo, hi, ex = av
            if not (av.is_const() and 0 <= av.value() <= 2):
                # widening: any later column is just "not the first"; anything else is unknown
                sig = dict(st.sigma)
                if lo is not None and lo >= 1:
                    sig[p] = AV(1, None)
                else:
                    sig.pop(p, None)
                return st.with_sigma(sig)
        if p == SKIP and node.get("k") == "asg" and node.get("op") == "=":
            sig = dict(st.sigma)
            sig[GH_S] = av_const(node.get("id", 0))
            if st.sigma.get(GH_H) is not None:
                sig[GH_SH] = st.sigma[GH_H]
            else:
                sig.pop(GH_SH, None)
            if st.sigma.get(GH_C) is not None:
                sig[GH_D] = st.sigma[GH_C]
            else:
                sig.pop(GH_D, None)
            st = st.with_sigma(sig)
        if p == SKIP and av is not None:
            lo, hi, ex = av
            if (lo is not None and lo > 6) or (hi is not None and hi > 6):
                # widening: depths beyond 4 are not distinguished
                sig = dict(st.sigma)
                sig[SKIP] = AV(min(lo, 6) if lo is not None else None, None)
                return st.with_sigma(sig)
        return st

    def on_case(self, st, blk, cond, value):
        sig = dict(st.sigma)
        if value in (-1, -2):
            sig[GH_C] = av_const(value)
        else:
            sig.pop(GH_C, None)
        return st.with_sigma(sig)

    def on_edge(self, st, blk, cond, truth):
        from . import cfgq
        t = cfgq.cmp_test(cond, lambda e: path(strip(e)) is not None or strip(e).get("k") in ("asg", "call"))
        if t and t[1] in (-1, -2) and t[0] in ("==", "!="):
            sig = dict(st.sigma)
            if (t[0] == "==") == bool(truth):
                sig[GH_C] = av_const(t[1])
            else:
                sig.pop(GH_C, None)
            return st.with_sigma(sig)
        return st

    def call(self, st, n, argvals):
        c = n.get("callee")
        skip = self._pre_skip
        tgt = indirect_target(n)
        if tgt in HANDLER_FIELDS:
            self.obs.append(("handler", tgt, n, skip, st))
            sig = dict(st.sigma)
            sig[GH_H] = av_const(HANDLER_FIELDS.index(tgt))
            sig.pop(GH_C, None)
            return [(st.with_sigma(sig), None)]
        if tgt in SYNTAX_CALLBACKS:
            self.obs.append(("syntax", tgt, n, skip, st))
            return [(st, None)]
        if tgt == "error_callback":
            self.obs.append(("error", macro_name(n["args"][0]) or "?", n, skip, st))
            return [(st, None)]
        if c in STORING_CALLS:
            self.obs.append(("store", c, n, skip, st))
        if c and c.startswith("parse_") and self.prog.has_fn(c):
            callee = self.prog.fn(c)
            params = []
            for i, p in enumerate(callee.params):
                if "*" not in p["t"] or p["name"] == "scanner":
                    continue
                v = argvals[i] if i < len(argvals) else None
                cls = "any"
                if v is not None and v.is_const() and v.value() == 0:
                    cls = "null"
                elif v is not None and v.nonzero():
                    cls = "nn"
                params.append((p["name"], cls))
            ctx = (tuple(params), norm_skip(skip))
            self.calls_out.append((c, ctx, n))
            if c in self.writers and self.contract:
                # contract of the productions (verified by C15 R4): entered skipping -> depth unchanged;
                # entered at depth 0 -> 0 or 1 afterwards
                if skip is None:
                    sig = dict(st.sigma)
                    sig.pop(SKIP, None)
                    return [(st.with_sigma(sig), None)]
                if skip.lo is not None and skip.lo >= 1:
                    sig = dict(st.sigma)
                    sig[SKIP] = skip
                    return [(st.with_sigma(sig), None)]
                if skip.hi is not None and skip.hi <= 0:
                    res = []
                    for v in (0, 1):
                        sig = dict(st.sigma)
                        sig[SKIP] = av_const(v)
                        if v:
                            sig[GH_S] = av_const(-1)
                            sig.pop(GH_SH, None)
                            sig.pop(GH_D, None)
                        res.append((st.with_sigma(sig), None))
                    return res
                sig = dict(st.sigma)
                sig[SKIP] = AV(0, None)
                return [(st.with_sigma(sig), None)]
        return [(st, None)]


class ParserAnalysis:
    """Runs the worklist over contexts for one world (storing / syntax-only)."""

    def __init__(self, prog, cif_class, forced=()):
        self.prog = prog
        self.writers, self.direct_writers = skip_writers(prog)
        self.runs = {}            # (fn name, ctx) -> ParserInterp
        root = ("parse_cif", ((("cif", cif_class),), av_const(0)))
        work = [root] + list(forced)
        while work:
            name, ctx = work.pop()
            if (name, ctx) in self.runs:
                continue
            fn = prog.fn(name)
            it = ParserInterp(prog, fn, ctx, self.writers).run()
            self.runs[(name, ctx)] = it
            if it.overflow:
                raise Broken("state cap reached in the parser analysis of %s" % name)
            for (callee, cctx, node) in it.calls_out:
                if (callee, cctx) not in self.runs:
                    work.append((callee, cctx))
            if len(self.runs) > 400:
                raise Broken("context explosion in the parser analysis")

    def observations(self, kinds):
        for (name, ctx), it in self.runs.items():
            for (kind, what, node, skip, st) in it.obs:
                if kind in kinds:
                    yield name, ctx, kind, what, node, skip, st
