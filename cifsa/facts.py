"""Program model over the extractor's JSON facts."""
import os
import re


class Broken(Exception):
    """Analysis broken: anchor vanished / instance floor not reached (exit 2)."""


def walk(node):
    """All nodes of an expression tree, pre-order, including ext sub-trees."""
    if not isinstance(node, dict):
        return
    stack = [node]
    while stack:
        n = stack.pop()
        if not isinstance(n, dict):
            continue
        yield n
        for k in _KIDS.get(n.get("k"), ()):  # ordered
            v = n.get(k)
            if isinstance(v, list):
                stack.extend(reversed([x for x in v if isinstance(x, dict)]))
            elif isinstance(v, dict):
                stack.append(v)
        if n.get("k") == "decl":
            for v in reversed(n.get("vars", [])):
                if isinstance(v.get("init"), dict):
                    stack.append(v["init"])


_KIDS = {
    "call": ("fn", "args"), "member": ("base",), "un": ("e",), "asg": ("lhs", "rhs"), "bin": ("lhs", "rhs"),
    "cond": ("c", "then", "else"), "cast": ("e",), "index": ("base", "idx"), "init": ("elems",), "ret": ("e",),
    "complit": ("e",), "other": ("kids",), "sizeof": ("of",),
}


def walk_eval(node):
    """Nodes evaluated when this root executes (ext sub-trees skipped), post-order (operands first)."""
    out = []

    def rec(n):
        if not isinstance(n, dict) or n.get("ext"):
            return
        k = n.get("k")
        if k == "decl":
            for v in n.get("vars", []):
                rec(v.get("init"))
        elif k == "sizeof":
            pass            # operand is not evaluated
        else:
            for key in _KIDS.get(k, ()):
                v = n.get(key)
                if isinstance(v, list):
                    for x in v:
                        rec(x)
                else:
                    rec(v)
        out.append(n)

    rec(node)
    return out


def strip(n):
    """Strip explicit casts."""
    while isinstance(n, dict) and n.get("k") == "cast":
        n = n.get("e")
    return n


def const(n):
    """Integer constant value of a node or None."""
    n = strip(n)
    if not isinstance(n, dict):
        return None
    if n.get("k") == "int":
        return n.get("v")
    if "cv" in n:
        return n["cv"]
    if n.get("k") == "un" and n.get("op") == "-":
        c = const(n.get("e"))
        return None if c is None else -c
    return None


def macro_name(n):
    """Innermost macro whose body spells this node (e.g. 'CIF_OK' for the literal 0), else None."""
    n = strip(n)
    if isinstance(n, dict):
        ms = n.get("ms")
        if ms:
            return ms[0]
        if n.get("k") == "cast":
            return macro_name(n.get("e"))
    return None


def path(n):
    """Access-path string for an lvalue-like expression, or None."""
    n = strip(n)
    if not isinstance(n, dict):
        return None
    k = n.get("k")
    if k == "ref":
        if n.get("dk") in ("func", "enum"):
            return None
        return n["name"]
    if k == "member":
        bs = strip(n.get("base"))
        if n.get("arrow") and isinstance(bs, dict) and bs.get("k") == "un" and bs.get("op") == "&":
            # (&x.f)->g  is  x.f.g
            b = path(bs.get("e"))
            return None if b is None else b + "." + n["name"]
        b = path(n.get("base"))
        if b is None:
            return None
        return b + ("->" if n.get("arrow") else ".") + n["name"]
    if k == "un" and n.get("op") == "*":
        b = path(n.get("e"))
        if b is None:
            return None
        return "*" + b if re.match(r"^\w+$", b) else "*(" + b + ")"
    if k == "index":
        b = path(n.get("base"))
        c = const(n.get("idx"))
        if b is None:
            return None
        if c is not None:
            return "%s[%d]" % (b, c)
        ip = path(n.get("idx"))
        return "%s[%s]" % (b, ip if ip else "?")
    return None


def root_var(n):
    """Name of the variable at the root of an access path expression."""
    n = strip(n)
    while isinstance(n, dict):
        k = n.get("k")
        if k == "ref":
            return n["name"]
        if k == "member":
            n = strip(n.get("base"))
        elif k == "un" and n.get("op") in ("*", "&"):
            n = strip(n.get("e"))
        elif k == "index":
            n = strip(n.get("base"))
        elif k == "bin" and n.get("op") in ("+", "-"):
            n = strip(n.get("lhs"))
        else:
            return None
    return None


def show(n, depth=0):
    """C-like rendering of an expression tree (for reports and keys)."""
    if not isinstance(n, dict):
        return "?"
    if depth > 12:
        return "..."
    k = n.get("k")
    d = depth + 1
    if k == "ref":
        return n["name"]
    if k == "int":
        ms = n.get("ms")
        return ms[0] if ms and re.match(r"^[A-Z][A-Z0-9_]*$", ms[0]) else str(n.get("v"))
    if k == "float":
        return str(n.get("v"))
    if k == "str":
        return '"%s"' % (n.get("v", "")[:40].replace("\n", "\\n")) if "v" in n else "L\"...\""
    if k == "member":
        return show(n["base"], d) + ("->" if n.get("arrow") else ".") + n["name"]
    if k == "un":
        op = n["op"]
        if op.startswith("post"):
            return show(n["e"], d) + op[4:]
        if op.startswith("pre"):
            return op[3:] + show(n["e"], d)
        return op + show(n["e"], d)
    if k in ("bin", "asg"):
        return "(%s %s %s)" % (show(n["lhs"], d), n["op"], show(n["rhs"], d))
    if k == "cond":
        return "(%s ? %s : %s)" % (show(n["c"], d), show(n["then"], d), show(n["else"], d))
    if k == "cast":
        if macro_name(n) == "NULL":
            return "NULL"
        return "(%s)%s" % (n.get("t", ""), show(n["e"], d))
    if k == "index":
        return "%s[%s]" % (show(n["base"], d), show(n["idx"], d))
    if k == "call":
        f = n.get("callee") or ("(" + show(n.get("fn"), d) + ")")
        return "%s(%s)" % (f, ", ".join(show(a, d) for a in n.get("args", [])))
    if k == "sizeof":
        return "sizeof(%s)" % (show(n["of"], d) if "of" in n else n.get("of_type", "?"))
    if k == "ret":
        return "return " + (show(n["e"], d) if n.get("e") else "")
    if k == "decl":
        return "; ".join("%s %s%s" % (v["t"], v["name"], (" = " + show(v["init"], d)) if v.get("init") else "")
                         for v in n.get("vars", []))
    if k == "init":
        return "{%s}" % ", ".join(show(e, d) for e in n.get("elems", [])[:8])
    return "<%s>" % n.get("cls", k)


_ICU_RE = re.compile(r"^(u_|ucnv_|unorm|uloc_|ustr|utf8_|utf16_|u8_|ubrk_|ucol_|uset_|uchar_|ures_|udata_|utrace_)[A-Za-z0-9_]*_\d{2,3}$")


class Block:
    __slots__ = ("id", "roots", "succs", "term", "label", "preds", "fn")

    def __init__(self, raw, fn):
        self.id = raw["id"]
        self.roots = raw.get("roots", [])
        self.succs = raw.get("succs", [])
        self.term = raw.get("term")
        self.label = raw.get("label")
        self.preds = []
        self.fn = fn


class Function:
    def __init__(self, raw, unit):
        self.raw = raw
        self.unit = unit
        self.name = raw["name"]
        self.file = raw["file"]
        self.line = raw["line"]
        self.endline = raw.get("endline", raw["line"])
        self.static = raw.get("static", False)
        self.params = raw.get("params", [])
        self.ret = raw.get("ret", "")
        self.locals = raw.get("locals", [])
        cfg = raw.get("cfg")
        if not cfg:
            raise Broken("no CFG for %s" % self.name)
        self.blocks = {b["id"]: Block(b, self) for b in cfg["blocks"]}
        self.entry = cfg["entry"]
        self.exit = cfg["exit"]
        for b in self.blocks.values():
            for s in b.succs:
                if s is not None:
                    self.blocks[s].preds.append(b.id)
        self._nodes = None
        self._calls = None
        self._inline_member_aliases()
        # ICU renames its entry points with a version suffix (u_fprintf -> u_fprintf_72): normalise
        for b in self.blocks.values():
            for r in list(b.roots) + ([b.term["full"]] if b.term and isinstance(b.term.get("full"), dict) else []):
                for n in walk(r):
                    if n.get("k") == "call":
                        c = n.get("callee")
                        if c and _ICU_RE.match(c):
                            n["callee_raw"] = c
                            n["callee"] = c[:c.rindex("_")]
                    elif n.get("k") == "ref" and n.get("dk") == "func" and _ICU_RE.match(n.get("name", "")):
                        n["name"] = n["name"][:n["name"].rindex("_")]

    def _inline_member_aliases(self):
        """`T *a = &(x->member);` with `a` never re-assigned and its address never taken: every use of `a` is replaced by the
        initialiser, so that `a->f` and `x->member.f` are the same access path for every rule."""
        import copy
        inits, spoiled = {}, set()
        for b in self.blocks.values():
            for r in b.roots:
                for n in walk(r):
                    k = n.get("k")
                    if k == "decl":
                        for v in n.get("vars", []):
                            ini = strip(v.get("init")) if v.get("init") is not None else None
                            if isinstance(ini, dict) and ini.get("k") == "un" and ini.get("op") == "&" \
                                    and isinstance(strip(ini.get("e")), dict) and strip(ini.get("e")).get("k") == "member" \
                                    and "*" in (v.get("t") or ""):
                                if v["name"] in inits:
                                    spoiled.add(v["name"])
                                inits[v["name"]] = ini
                    elif k == "asg":
                        l = strip(n.get("lhs"))
                        if isinstance(l, dict) and l.get("k") == "ref":
                            spoiled.add(l["name"])
                    elif k == "un" and n.get("op") in ("&", "post++", "post--", "pre++", "pre--"):
                        e = strip(n.get("e"))
                        if isinstance(e, dict) and e.get("k") == "ref":
                            spoiled.add(e["name"])
        alias = {a: i for a, i in inits.items() if a not in spoiled}
        # the aliased object's root must itself not be re-assigned (x stays the same object)
        for a, ini in list(alias.items()):
            rv = root_var(ini.get("e"))
            if rv is None or rv in spoiled and rv not in {p["name"] for p in self.params}:
                alias.pop(a)
        if not alias:
            return

        def subst(n):
            """replace `a` only where it is the base of `a->f` (bare uses - arguments, copies - keep the variable, whose
            own declaration and initialiser stay in place)"""
            if isinstance(n, dict):
                if n.get("k") == "member" and n.get("arrow"):
                    bs = n.get("base")
                    inner = bs
                    while isinstance(inner, dict) and inner.get("k") == "cast":
                        inner = inner.get("e")
                    if isinstance(inner, dict) and inner.get("k") == "ref" and inner.get("name") in alias and inner.get("dk") not in ("func", "enum"):
                        rep = copy.deepcopy(alias[inner["name"]])
                        rep["l"] = inner.get("l", rep.get("l"))
                        rep["id"] = inner.get("id", rep.get("id"))
                        for extra in ("ext", "ms"):
                            if extra in inner:
                                rep[extra] = inner[extra]
                        n["base"] = rep
                for key, v in list(n.items()):
                    if isinstance(v, dict):
                        subst(v)
                    elif isinstance(v, list):
                        for x in v:
                            subst(x)
        for b in self.blocks.values():
            for r in b.roots:
                if r.get("k") == "decl":
                    # keep the declaration of the alias itself, rewrite the other initialisers
                    for v in r.get("vars", []):
                        if v["name"] not in alias and isinstance(v.get("init"), dict):
                            holder = {"x": v["init"]}
                            subst(holder)
                            v["init"] = holder["x"]
                else:
                    subst(r)
        self.member_aliases = {a: show(i) for a, i in alias.items()}

    @property
    def key(self):
        return "%s:%s" % (self.unit, self.name)

    def nodes(self):
        """id -> node (the evaluated occurrence is preferred over ext copies)."""
        if self._nodes is None:
            m = {}
            for b in self.blocks.values():
                for r in b.roots:
                    for n in walk(r):
                        i = n.get("id")
                        if i is not None and i not in m:
                            m[i] = n
            for b in self.blocks.values():
                for r in b.roots:
                    for n in walk_eval(r):
                        m[n["id"]] = n
            self._nodes = m
        return self._nodes

    def eval_sites(self, kind=None):
        """Yield (block, root_index, root, node) for every node evaluated somewhere, in block order."""
        for bid in sorted(self.blocks, reverse=True):
            b = self.blocks[bid]
            for i, r in enumerate(b.roots):
                for n in walk_eval(r):
                    if kind is None or n.get("k") == kind:
                        yield b, i, r, n

    def calls(self):
        if self._calls is None:
            self._calls = [(b, i, r, n) for (b, i, r, n) in self.eval_sites("call")]
        return self._calls

    def calls_to(self, *names):
        return [(b, i, r, n) for (b, i, r, n) in self.calls() if n.get("callee") in names]

    def param_index(self, name):
        for i, p in enumerate(self.params):
            if p["name"] == name:
                return i
        return None

    def returns(self):
        return [(b, i, r, n) for (b, i, r, n) in self.eval_sites("ret")]

    def reachable_from(self, bid, forward=True):
        seen = {bid}
        st = [bid]
        while st:
            x = st.pop()
            nxt = self.blocks[x].succs if forward else self.blocks[x].preds
            for s in nxt:
                if s is not None and s not in seen:
                    seen.add(s)
                    st.append(s)
        return seen


def c_int_literal(text):
    """The value of an integer literal as the C compiler reads it: a leading 0 makes it octal (`072` is 58), 0x hexadecimal;
    integer suffixes and parentheses are accepted.  None if the text is not a single literal."""
    t = text.strip()
    while t.startswith("(") and t.endswith(")"):
        t = t[1:-1].strip()
    m = re.match(r"^(-?)\s*(0[xX][0-9a-fA-F]+|0[0-7]*|[1-9][0-9]*)([uUlL]*)$", t)
    if not m:
        return None
    sign, digits = m.group(1), m.group(2)
    if digits.lower().startswith("0x"):
        v = int(digits, 16)
    elif digits.startswith("0") and len(digits) > 1:
        v = int(digits, 8)
    else:
        v = int(digits)
    return -v if sign else v


class Program:
    def __init__(self, facts, info=None):
        self.info = info or {}
        self.units = facts
        self.functions = {}      # name -> Function  (non-static, or unique static)
        self.by_unit = {}        # (unit, name) -> Function
        self.macros = {}
        self.globals = {}
        self.enums = {}
        self.records = {}
        self.decls = {}
        dup = set()
        # new static helpers (absent from the snapshot of the pinned tree) are inlined into their callers first
        from . import inline as _inline
        self.inlined = _inline.apply(facts)
        for unit, raw in sorted(facts.items()):
            for f in raw["functions"]:
                fn = Function(f, unit)
                self.by_unit[(unit, fn.name)] = fn
                if fn.name in self.functions:
                    dup.add(fn.name)
                self.functions[fn.name] = fn
            for m in raw.get("macros", []):
                self.macros.setdefault(m["name"], []).append(m)
            for g in raw.get("globals", []):
                cur = self.globals.get(g["name"])
                if cur is None or (cur.get("init") is None and g.get("init") is not None):
                    self.globals[g["name"]] = dict(g, unit=unit)
            for e in raw.get("enums", []):
                self.enums[e.get("name") or e.get("typedef") or "anon"] = e
            for r in raw.get("records", []):
                self.records[r.get("name") or r.get("typedef")] = r
                if r.get("typedef"):
                    self.records[r["typedef"]] = r
            for d in raw.get("decls", []):
                self.decls.setdefault(d["name"], []).append(dict(d, unit=unit))
        self.duplicate_function_names = dup
        self._callers = None

    def fn(self, name, unit=None):
        if unit:
            f = self.by_unit.get((unit, name))
        else:
            f = self.functions.get(name)
        if f is None:
            raise Broken("anchor function %s%s not found" % (name, " in " + unit if unit else ""))
        return f

    def has_fn(self, name):
        return name in self.functions

    def all_functions(self):
        return [self.by_unit[k] for k in sorted(self.by_unit)]

    def macro(self, name, file_suffix=None):
        """Unique definition of an object/function-like macro (last definition per file wins)."""
        ms = self.macros.get(name)
        if not ms:
            raise Broken("macro %s not found" % name)
        if file_suffix:
            ms = [m for m in ms if m["file"].endswith(file_suffix)]
            if not ms:
                raise Broken("macro %s not found in %s" % (name, file_suffix))
        return ms[-1]

    def macro_defs(self, name):
        """Distinct definitions (by file,line) of a macro."""
        seen = {}
        for m in self.macros.get(name, []):
            seen[(m["file"], m["line"])] = m
        return list(seen.values())

    def macro_int(self, name):
        m = self.macro(name)
        body = m["body"].strip()
        v = c_int_literal(body)
        if v is None:
            raise Broken("macro %s is not an integer literal: %r" % (name, body))
        return v

    def public_api(self):
        """Names of functions declared in cif.h (the public entry points)."""
        out = set()
        for name, ds in self.decls.items():
            for d in ds:
                if d["file"].endswith("cif.h") and not d["file"].startswith("internal"):
                    out.add(name)
        return out

    def callers(self):
        if self._callers is None:
            m = {}
            for fn in self.all_functions():
                for (b, i, r, n) in fn.calls():
                    c = n.get("callee")
                    if c:
                        m.setdefault(c, []).append((fn, b, i, r, n))
            self._callers = m
        return self._callers

    def callees(self, fn):
        return {n.get("callee") for (_, _, _, n) in fn.calls() if n.get("callee")}

    def reachable_callees(self, name):
        seen = set()
        st = [name]
        while st:
            x = st.pop()
            f = self.functions.get(x)
            if not f:
                continue
            for c in self.callees(f):
                if c not in seen:
                    seen.add(c)
                    st.append(c)
        return seen

    def stats(self):
        nf = len(self.by_unit)
        nb = sum(len(f.blocks) for f in self.by_unit.values())
        return {"units": sorted(self.units), "functions": nf, "cfg_blocks": nb}


def source_lines(info, unit):
    p = os.path.join(info.get("srcdir", "/repo/src"), unit)
    with open(p, encoding="latin-1") as fh:
        return fh.read().split("\n")
