"""Filled extent of an array handed to a callee together with a count.

A caller builds an array `a` and a count `n` in one loop and passes both on: `G(.., a, n)`.  Where the store index of the fill
(`a[j++] = x`) is advanced only for the elements that pass a test while `n` is advanced for every element, the array is
*compacted*: only its first j elements are written (plus, usually, a terminator), and position k of the array no longer
corresponds to element k of what was counted.  A callee that reads `a[i]` for an index it runs up to `n` then reads
elements nobody wrote and, before that, elements that belong to other columns.

Instances: call sites (caller, callee, array argument, count argument) where both arguments are locals advanced in one
loop of the caller.  Verdict per instance: the callee does not subscript the array parameter by an index it compares with
the count parameter, or the fill index and the count advance under the same conditions.
"""
from .facts import strip, const, walk, show
from .interp import path
from . import loops


def _incs(fn, var):
    """blocks in which `var` is incremented by one (var += 1, var++, ++var, also inside a subscript)"""
    out = []
    for (b, i, r, n) in fn.eval_sites():
        if n.get("k") == "asg" and n.get("op") == "+=" and const(n.get("rhs")) == 1 and path(strip(n.get("lhs"))) == var:
            out.append(b.id)
        elif n.get("k") == "un" and n.get("op") in ("pre++", "post++") and path(strip(n.get("e"))) == var:
            out.append(b.id)
    return out


def _fill_indexes(fn, arr):
    """variables used as the subscript of a store `arr[j..] = x`"""
    out = set()
    for (b, i, r, n) in fn.eval_sites("asg"):
        lhs = strip(n.get("lhs"))
        if isinstance(lhs, dict) and lhs.get("k") == "index" and path(strip(lhs.get("base"))) == arr and n.get("op") == "=":
            for x in walk(lhs.get("idx")):
                if isinstance(x, dict) and x.get("k") == "ref" and path(x):
                    out.add(path(x))
    return out


def _conditions(fn, loop, bid):
    """branch blocks of the loop body on one of whose outcomes (only) block bid depends"""
    out = set()
    for tb in loop.body:
        blk = fn.blocks[tb]
        if len(blk.succs) != 2 or tb == loop.header:
            continue
        t, f = loops.control_dependents(fn, tb)
        if (bid in t) != (bid in f):
            out.add(tb)
    return out


def rule(prog, rule_, units=("parser.c",)):
    n = 0
    for fn in prog.all_functions():
        if fn.unit not in units:
            continue
        local_names = {v["name"] for v in fn.locals}
        for (b, i, r, c) in fn.calls():
            callee = c.get("callee")
            if not callee or not prog.has_fn(callee) or callee == fn.name:
                continue
            g = prog.fn(callee)
            args = c.get("args", [])
            for ai, a in enumerate(args):
                arr = path(strip(a))
                if not arr or arr not in local_names or ai >= len(g.params) or "*" not in g.params[ai].get("t", "") and "[" not in g.params[ai].get("t", ""):
                    continue
                fills = _fill_indexes(fn, arr)
                if not fills:
                    continue
                for ni, na in enumerate(args):
                    cnt = path(strip(na))
                    if ni == ai or not cnt or cnt not in local_names or ni >= len(g.params) or cnt in fills:
                        continue
                    if "int" not in g.params[ni].get("t", "") and "size_t" not in g.params[ni].get("t", ""):
                        continue
                    cnt_incs = _incs(fn, cnt)
                    if not cnt_incs:
                        continue
                    for j in sorted(fills):
                        j_incs = _incs(fn, j)
                        if not j_incs:
                            continue
                        common = [lp for lp in loops.natural_loops(fn)
                                  if any(x in lp.body for x in cnt_incs) and any(x in lp.body for x in j_incs)]
                        if not common:
                            continue
                        lp = min(common, key=lambda l: len(l.body))
                        cj = set()
                        for x in j_incs:
                            if x in lp.body:
                                cj |= _conditions(fn, lp, x)
                        cn = set()
                        for x in cnt_incs:
                            if x in lp.body:
                                cn |= _conditions(fn, lp, x)
                        n += 1
                        pa, pn = g.params[ai]["name"], g.params[ni]["name"]
                        key = "%s -> %s(%s = %s, %s = %s)" % (fn.name, callee, pa, arr, pn, cnt)
                        extra = cj - cn
                        if not extra:
                            rule_.ok(key, "the fill index `%s` and the count `%s` advance under the same conditions" % (j, cnt))
                            continue
                        # the callee: pa[i] with i related to pn
                        bounded = set()
                        trees = []
                        for blk in g.blocks.values():
                            trees += list(blk.roots)
                            if blk.term and isinstance(blk.term.get("full"), dict):
                                trees.append(blk.term["full"])
                        for tr in trees:
                            for x in walk(tr):
                                if isinstance(x, dict) and x.get("k") == "bin" and x.get("op") in ("<", "<=", ">", ">=", "!=", "=="):
                                    ps = {path(strip(x.get("lhs"))), path(strip(x.get("rhs")))}
                                    if pn in ps:
                                        bounded |= {p for p in ps if p and p != pn}
                        bad = None
                        for (b2, i2, r2, x) in g.eval_sites("index"):
                            if path(strip(x.get("base"))) != pa:
                                continue
                            iv = {path(y) for y in walk(x.get("idx")) if isinstance(y, dict) and y.get("k") == "ref" and path(y)}
                            if iv & bounded:
                                bad = (x, sorted(iv & bounded)[0])
                                break
                        if bad is None:
                            rule_.ok(key, "compacted array (`%s` advances only under a test, `%s` always): the callee does not "
                                     "subscript it by an index it runs against the count" % (j, cnt))
                        else:
                            x, iv = bad
                            cond_l = sorted(fn.blocks[t].term.get("l", 0) for t in extra if fn.blocks[t].term)
                            rule_.violation(g.file, g.name, x.get("l"), "compacted-array-read-by-count:%s:%s" % (callee, pa),
                                            "`%s` reads %s[%s] for an index it runs against `%s`, but %s (L%s) fills that array "
                                            "with `%s`, advanced only where a test passes (L%s), while `%s` counts every element: "
                                            "the array is compacted - its positions are not the counted positions, and elements "
                                            "past the ones written are read uninitialised"
                                            % (show(x)[:60], pa, iv, pn, fn.name, c.get("l"), j,
                                               ",".join(str(l) for l in cond_l), cnt))
    return n
