"""Generic memory / progress rules shared by several properties (C03, C07, C16, C17, C19).

Each function takes the Program and a report.Rule and returns the number of instances it judged, so that callers can
enforce their own floors."""
import re

from .facts import strip, const, walk, walk_eval, show, macro_name
from .interp import path
from . import cfgq, loops


# ------------------------------------------------------------------------------------------------ progress
def stuck_loops(prog, rule, only_units=None):
    """A natural loop whose body calls nothing, writes only variables that are never read before being re-written in the
    same iteration (no loop-carried state) and writes nothing through a pointer that it also reads through one computes
    the same state in every iteration: if its back edge is taken once it is taken forever."""
    n = 0
    for fn in prog.all_functions():
        if only_units and fn.unit not in only_units:
            continue
        for lp in loops.natural_loops(fn):
            n += 1
            ev, calls, dw, dr = loops.loop_rw(lp)
            key = "%s:loop@header%d" % (fn.name, lp.header)
            if calls:
                rule.ok(key, "calls %d function(s): progress not judged (callee may advance external state)" % len(calls))
                continue
            written = sorted({p for b in ev for (k, p) in ev[b] if k == "w"})
            carried = [v for v in written if loops.upward_exposed(lp, v, ev)]
            if dw and dr:
                carried.append("<memory>")
            if carried:
                rule.ok(key, "loop-carried state: %s" % ", ".join(carried[:4]))
                continue
            if not lp.exits():
                rule.ok(key, "no exit edge (deliberate endless loop left by return/goto inside a call-free body is impossible): skipped")
                continue
            conds = []
            for (b, i, t) in lp.exits():
                c = cfgq.cond_of(fn, fn.blocks[b])
                if c is not None:
                    conds.append(show(c))
            rule.violation(fn.file, fn.name, lp.line(), "stuck-loop:%s" % fn.name,
                           "the loop at L%s writes only %s, none of which is read before being re-written in the same iteration, "
                           "and calls nothing: every iteration computes the same values, so once the exit test `%s` fails it "
                           "fails forever (the loop cannot make progress)" % (lp.line(), written or "nothing", "`, `".join(conds)[:160]))
    return n


# ------------------------------------------------------------------------------------------------ aliasing field pairs
def _field_of(p):
    m = re.match(r"^(.*?)(->|\.)(\w+)$", p or "")
    return (m.group(1), m.group(3)) if m else (None, None)


def alias_pair_free(prog, rule, pair=("key", "key_orig")):
    """Two pointer fields of one entry that may hold the same allocation (the library stores `e->key_orig = e->key` when
    the original spelling equals the normalised one).  free(e->F) for F in the pair is then only safe when
      (a) it runs under the guard e->key != e->key_orig, or
      (b) the function releases both fields of e and at least one of the two releases is guarded by that inequality
          (tear-down of the whole entry), or
      (c) e->F was assigned a fresh allocation earlier in the same function on every path to the free.
    Returns (number of free sites judged, number of alias-creating stores found)."""
    f1, f2 = pair
    alias_stores = 0
    for fn in prog.all_functions():
        for (b, i, r, a) in fn.eval_sites("asg"):
            bl, fl = _field_of(path(strip(a.get("lhs"))))
            if fl not in pair:
                continue
            other = f2 if fl == f1 else f1
            for x in walk(a.get("rhs")):
                bx, fx = _field_of(path(x) if x.get("k") == "member" else None)
                if fx == other and bx == bl:
                    alias_stores += 1
    judged = 0
    for fn in prog.all_functions():
        frees = {}
        for (b, i, r, c) in fn.calls_to("free"):
            args = c.get("args", [])
            if not args:
                continue
            base, fld = _field_of(path(strip(args[0])))
            if fld in pair:
                frees.setdefault(base, []).append((b.id, i, c, fld))
        if not frees:
            continue

        def neq_edges(base):
            def m(cnd):
                c = strip(cnd)
                if not isinstance(c, dict) or c.get("k") != "bin" or c.get("op") not in ("!=", "=="):
                    return None
                ps = {path(strip(c.get("lhs"))), path(strip(c.get("rhs")))}
                if ps == {"%s->%s" % (base, f1), "%s->%s" % (base, f2)} or ps == {"%s.%s" % (base, f1), "%s.%s" % (base, f2)}:
                    return "true" if c["op"] == "!=" else "false"
                return None
            return cfgq.guard_edges(fn, m)
        for base, sites in frees.items():
            ge = neq_edges(base)
            guarded = {}
            for (bid, idx, c, fld) in sites:
                guarded[(bid, idx)] = bool(ge) and cfgq.must_pass_edge(fn, bid, ge)
            flds = {fld for (_, _, _, fld) in sites}
            teardown = flds == set(pair) and any(all(guarded[(bid, idx)] for (bid, idx, c, fld) in sites if fld == f) for f in pair)
            for (bid, idx, c, fld) in sites:
                judged += 1
                key = "%s:free(%s->%s)@%s" % (fn.name, base, fld, "guarded" if guarded[(bid, idx)] else "plain")
                if guarded[(bid, idx)]:
                    rule.ok(key, "under %s->%s != %s->%s" % (base, f1, base, f2))
                    continue
                if teardown:
                    rule.ok(key, "entry tear-down: both fields released, the other one only when distinct")
                    continue
                fresh = []
                fresh_locals = set()
                for (b2, i2, r2, d2) in fn.eval_sites("decl"):
                    for v2 in d2.get("vars", []):
                        ini = strip(v2.get("init")) if v2.get("init") is not None else None
                        if isinstance(ini, dict) and ini.get("k") == "call" and ini.get("callee") in ("malloc", "calloc", "strdup", "cif_u_strdup", "cif_u_strndup"):
                            fresh_locals.add(v2["name"])
                stale = []
                # the entry may have been built through another local and handed over by a pointer copy (`e = built;`,
                # also what an out-parameter of an extracted helper becomes when the helper is inlined)
                same_entry = {base}
                # pointers to the entry variable (`p = &e`): a store through *p is a store to e
                addr_of = {}
                for (b2, i2, r2, a) in fn.eval_sites("asg"):
                    rr0 = strip(a.get("rhs"))
                    if a.get("op") == "=" and isinstance(rr0, dict) and rr0.get("k") == "un" and rr0.get("op") == "&" and path(strip(rr0.get("e"))):
                        addr_of[path(strip(a.get("lhs")))] = path(strip(rr0.get("e")))
                for _ in range(2):
                    for (b2, i2, r2, a) in fn.eval_sites("asg"):
                        if a.get("op") != "=":
                            continue
                        lp0 = path(strip(a.get("lhs"))) or ""
                        l0 = strip(a.get("lhs"))
                        if isinstance(l0, dict) and l0.get("k") == "un" and l0.get("op") == "*":
                            in0 = strip(l0.get("e"))
                            if isinstance(in0, dict) and in0.get("k") == "un" and in0.get("op") == "&":
                                lp0 = path(strip(in0.get("e"))) or ""      # `*&e = built` (an inlined out-parameter store)
                        if lp0.startswith("*") and addr_of.get(lp0[1:].strip("()")) in same_entry:
                            lp0 = addr_of[lp0[1:].strip("()")]
                        if lp0 in same_entry:
                            rp = path(strip(a.get("rhs")))
                            if rp and re.match(r"^\w+$", rp):
                                same_entry.add(rp)
                targets = {"%s->%s" % (b_, fld) for b_ in same_entry} | {"%s.%s" % (b_, fld) for b_ in same_entry}
                for (b2, i2, r2, a) in fn.eval_sites("asg"):
                    lp = path(strip(a.get("lhs"))) or ""
                    if lp in targets:
                        rr = strip(a.get("rhs"))
                        if (isinstance(rr, dict) and rr.get("k") == "call" and rr.get("callee") in ("malloc", "calloc", "strdup", "cif_u_strdup", "cif_u_strndup")) \
                                or path(rr) in fresh_locals:
                            fresh.append((b2.id, i2))
                        else:
                            stale.append((b2.id, i2))
                # on every path to the free the field's latest store is a fresh allocation (a store of something else kills that)
                if fresh and cfgq.MustFact(fn, gen_sites=fresh, kill_sites=stale, entry_value=False).at(bid, idx):
                    rule.ok(key, "the field holds an allocation made earlier in this function")
                    continue
                rule.violation(fn.file, fn.name, c.get("l"), "alias-free:%s:%s->%s" % (fn.name, base, fld),
                               "free(%s->%s) while %s->%s may be the same allocation (entries are created with %s == %s when the "
                               "spellings coincide): the entry stays in use with a dangling %s; the release is neither guarded by "
                               "`%s->%s != %s->%s` nor part of a tear-down of both fields"
                               % (base, fld, base, f1 if fld == f2 else f2, f2, f1, f1 if fld == f2 else f2, base, f1, base, f2))
    return judged, alias_stores


# ------------------------------------------------------------------------------------------------ kind vs fields
KIND_FIELDS = {"CIF_NUMB_KIND": ("text", "digits", "su_digits"), "CIF_CHAR_KIND": ("text",)}


def dangling_under_kind(prog, rule):
    """After a function stores kind K into an object, it must not release one of K's pointer fields of that object on a
    path that then leaves the function with the kind still K (no later kind store on the object, no release of the object
    itself): the caller would be left with a value whose clean function frees the field again."""
    judged = 0
    for fn in prog.all_functions():
        stores = []
        for (b, i, r, n) in fn.eval_sites("asg"):
            lp = path(strip(n.get("lhs"))) or ""
            if n.get("op") != "=" or not re.search(r"(->|\.)kind$", lp):
                continue
            rr = strip(n.get("rhs"))
            kn = (rr.get("name") if isinstance(rr, dict) and rr.get("k") == "ref" and rr.get("dk") == "enum" else macro_name(n.get("rhs"))) or ""
            base = re.sub(r"(->|\.)kind$", "", lp)
            stores.append((b.id, i, n, base, kn))
        for (sb, si, sn, base, kn) in stores:
            if kn not in KIND_FIELDS:
                continue
            judged += 1
            root = re.match(r"[\(\*&]*(\w+)", base).group(1)
            bad = None
            # the store may sit in a `case V:` block of a switch on P: later tests of P against another constant cannot
            # succeed on paths from the store (P not re-assigned in between): remove those edges
            dead_edges = set()
            lab = fn.blocks[sb].label
            if lab and lab.get("k") == "case" and lab.get("v") is not None:
                heads = [h for h in fn.blocks.values() if sb in [x for x in h.succs if x is not None] and h.term and h.term.get("k") == "SwitchStmt"]
                for h in heads:
                    cnd = cfgq.cond_of(fn, h)
                    P = path(strip(cnd)) if cnd is not None else None
                    if not P:
                        continue
                    if any(path(strip(a2.get("lhs"))) == P for (b2, i2, r2, a2) in fn.eval_sites("asg")):
                        continue
                    for tb in fn.blocks.values():
                        c2 = cfgq.cond_of(fn, tb)
                        if c2 is None or len(tb.succs) != 2:
                            continue
                        t = cfgq.cmp_test(c2, lambda e, P=P: path(strip(e)) == P)
                        if t is None:
                            continue
                        op, cv = t
                        if op == "==":
                            dead_edges.add((tb.id, 0 if cv != lab["v"] else 1))
                        elif op == "!=":
                            dead_edges.add((tb.id, 1 if cv != lab["v"] else 0))
            for (fb, fi, fr, c) in fn.calls_to("free"):
                args = c.get("args", [])
                ap = path(strip(args[0])) if args else None
                bb, ff = _field_of(ap)
                if ff not in KIND_FIELDS[kn] or bb is None:
                    continue
                if re.match(r"[\(\*&]*(\w+)", bb).group(1) != root:
                    continue
                # is the free reachable after the store?
                after = (fb.id == sb and fi > si) or (fb.id != sb and fb.id in cfgq.reach(fn, [sb], (), dead_edges)) or \
                        (fb.id == sb and fb.id in cfgq.reach(fn, [s for s in fn.blocks[sb].succs if s is not None], (), dead_edges))
                if not after:
                    continue
                # from the free, can the exit be reached without another kind store on the object / a release of the object?
                resets = [(b2, i2) for (b2, i2, n2, base2, k2) in stores if base2 == base and (b2, i2) != (sb, si) and k2 != kn]
                for (b3, i3, r3, c3) in fn.calls():
                    if c3.get("callee") in ("free", "cif_value_free") and c3.get("args") and path(strip(c3["args"][0])) in (root, base):
                        resets.append((b3.id, i3))
                if not cfgq.must_follow(fn, (fb.id, fi), resets):
                    bad = c
                    break
            key = "%s:%s=%s" % (fn.name, base, kn)
            if bad is not None:
                rule.violation(fn.file, fn.name, bad.get("l"), "dangling-under-kind:%s:%s" % (fn.name, path(strip(bad["args"][0]))),
                               "%s is released at L%s after `%s->kind = %s` (L%s) on a path that leaves the function without "
                               "resetting the kind or releasing the object: the caller keeps a %s value with a dangling pointer, "
                               "and its clean function frees it again" % (path(strip(bad["args"][0])), bad.get("l"), base, kn, sn.get("l"), kn))
            else:
                rule.ok(key, "no field of the kind is released after the kind store on a path that keeps the kind")
    return judged


# ------------------------------------------------------------------------------------------------ intervals of expressions
INF = float("inf")


def _unsigned(t):
    t = (t or "").replace("const ", "").strip()
    return t.startswith("unsigned") or t in ("size_t", "uint32_t", "uint16_t", "uint8_t", "uint64_t", "UChar", "UChar32_unsigned")


def ival(n, env=None):
    """Interval (lo, hi) of an integer expression; `env` maps access paths to intervals.  Unsigned-typed lvalues default
    to [0, inf).  Conditional expressions refine the tested path in their arms."""
    env = env or {}
    n = strip(n)
    if not isinstance(n, dict):
        return (-INF, INF)
    c = const(n)
    if c is not None:
        return (c, c)
    k = n.get("k")
    p = path(n)
    if p is not None and k in ("ref", "member", "index", "un"):
        if p in env:
            return env[p]
        return (0, INF) if _unsigned(n.get("t")) else (-INF, INF)
    if k == "cond":
        cnd = strip(n.get("c"))
        et, ef = dict(env), dict(env)
        t = cfgq.cmp_test(cnd, lambda e: path(strip(e)) is not None)
        if t is not None:
            op, cv = t
            l = strip(cnd.get("lhs"))
            tp = path(l) if const(l) is None else path(strip(cnd.get("rhs")))
            tnode = l if const(l) is None else strip(cnd.get("rhs"))
            base = env.get(tp, (0, INF) if _unsigned(tnode.get("t")) else (-INF, INF))
            et[tp] = _refine(base, op, cv)
            ef[tp] = _refine(base, {"<": ">=", "<=": ">", ">": "<=", ">=": "<", "==": "!=", "!=": "=="}[op], cv)
        a, b = ival(n.get("then"), et), ival(n.get("else"), ef)
        return (min(a[0], b[0]), max(a[1], b[1]))
    if k == "bin":
        a, b = ival(n.get("lhs"), env), ival(n.get("rhs"), env)
        op = n.get("op")
        if op == "+":
            return (a[0] + b[0], a[1] + b[1])
        if op == "-":
            return (a[0] - b[1], a[1] - b[0])
        if op == "*" and a[0] >= 0 and b[0] >= 0:
            return (a[0] * b[0], a[1] * b[1] if INF not in (a[1], b[1]) else INF)
        if op == "/" and a[0] >= 0 and b[0] == b[1] and b[0] > 0:
            return (a[0] // b[0] if a[0] != INF else INF, a[1] // b[0] if a[1] != INF else INF)
        if op == ">>" and a[0] >= 0 and b[0] == b[1] and b[0] >= 0:
            d = 2 ** int(b[0])
            return (a[0] // d, a[1] // d if a[1] != INF else INF)
        if op == "<<" and a[0] >= 0 and b[0] == b[1] and b[0] >= 0:
            d = 2 ** int(b[0])
            return (a[0] * d, a[1] * d if a[1] != INF else INF)
    return (-INF, INF)


def _refine(iv, op, c):
    lo, hi = iv
    if op == "==":
        return (c, c)
    if op == "!=":
        if lo == c:
            lo = c + 1
        if hi == c:
            hi = c - 1
        return (lo, hi)
    if op == "<":
        return (lo, min(hi, c - 1))
    if op == "<=":
        return (lo, min(hi, c))
    if op == ">":
        return (max(lo, c + 1), hi)
    if op == ">=":
        return (max(lo, c), hi)
    return iv


def growth_positive(prog, rule):
    """Where a capacity handed to realloc is computed as `old + INC`, INC is provably >= 1 (interval evaluation of INC,
    conditional arms refined by their tests): otherwise a full container is `grown` to the same size and the next slot
    write lands outside the block."""
    judged = 0
    for fn in prog.all_functions():
        for (b, i, r, c) in fn.calls_to("realloc"):
            if len(c.get("args", [])) < 2:
                continue
            size_paths = {path(x) for x in walk(c["args"][1]) if x.get("k") in ("ref", "member") and path(x)}
            for (b2, i2, r2, a) in fn.eval_sites():
                tgt, rhs = None, None
                if a.get("k") == "asg" and a.get("op") == "=":
                    tgt, rhs = path(strip(a.get("lhs"))), a.get("rhs")
                elif a.get("k") == "decl":
                    for v in a.get("vars", []):
                        if v["name"] in size_paths and v.get("init") is not None:
                            tgt, rhs = v["name"], v["init"]
                if tgt not in size_paths or rhs is None:
                    continue
                e = strip(rhs)
                if not (isinstance(e, dict) and e.get("k") == "bin" and e.get("op") == "+"):
                    continue
                l, rr = strip(e.get("lhs")), strip(e.get("rhs"))
                old, inc = (l, rr) if path(l) and path(l) != tgt else ((rr, l) if path(rr) and path(rr) != tgt else (None, None))
                if old is None or const(inc) is not None and path(old) is None:
                    continue
                # the assignment must be able to reach the realloc (one of several reaching definitions is fine)
                if not ((b2.id == b.id and i2 < i) or (b2.id != b.id and b.id in cfgq.reach(fn, [b2.id]))):
                    continue
                judged += 1
                # guards on `old` that hold at the assignment (e.g. the else-arm of `if (cap < 10)`)
                env = {}
                op_ = path(old)
                for gb in fn.blocks.values():
                    cnd = cfgq.cond_of(fn, gb)
                    if cnd is None or len(gb.succs) != 2:
                        continue
                    t = cfgq.cmp_test(cnd, lambda e, op_=op_: path(strip(e)) == op_)
                    if t is None:
                        continue
                    cop, cv = t
                    base = env.get(op_, (0, INF) if _unsigned(strip(old).get("t")) else (-INF, INF))
                    if cfgq.must_pass_edge(fn, b2.id, [(gb.id, 0)]):
                        env[op_] = _refine(base, cop, cv)
                    elif cfgq.must_pass_edge(fn, b2.id, [(gb.id, 1)]):
                        env[op_] = _refine(base, {"<": ">=", "<=": ">", ">": "<=", ">=": "<", "==": "!=", "!=": "=="}[cop], cv)
                lo, hi = ival(inc, env)
                key = "%s:%s=%s+inc" % (fn.name, tgt, path(old))
                if lo >= 1:
                    rule.ok(key, "increment `%s` is at least %s" % (show(inc)[:80], lo))
                else:
                    rule.violation(fn.file, fn.name, a.get("l"), "growth-may-be-zero:%s:%s" % (fn.name, tgt),
                                   "the capacity passed to realloc is `%s + %s`; the increment evaluates to the interval [%s, %s], "
                                   "so for some capacities the container is not enlarged and the slot written next lies outside "
                                   "the block" % (path(old), show(inc)[:100], lo, hi))
    return judged


# ------------------------------------------------------------------------------------------------ allocation extent vs index
def _linear(n, depth=0):
    """Linear form {path or '': coeff} of an integer expression, or None."""
    n = strip(n)
    if not isinstance(n, dict) or depth > 8:
        return None
    c = const(n)
    if c is not None:
        return {"": c}
    p = path(n)
    if p is not None and n.get("k") in ("ref", "member"):
        return {p: 1, "": 0}
    if n.get("k") == "bin" and n.get("op") in ("+", "-"):
        a, b = _linear(n.get("lhs"), depth + 1), _linear(n.get("rhs"), depth + 1)
        if a is None or b is None:
            return None
        out = dict(a)
        sg = 1 if n["op"] == "+" else -1
        for k2, v in b.items():
            out[k2] = out.get(k2, 0) + sg * v
        return out
    return None


def _count_of_size(n):
    """For an allocation size expression COUNT * sizeof(T) (either order) return the COUNT node; for a bare expression
    return (node, 1-byte elements)."""
    n = strip(n)
    if isinstance(n, dict) and n.get("k") == "bin" and n.get("op") == "*":
        l, r = strip(n.get("lhs")), strip(n.get("rhs"))
        if isinstance(l, dict) and l.get("k") == "sizeof":
            return r
        if isinstance(r, dict) and r.get("k") == "sizeof":
            return l
    return None


def alloc_extent(prog, rule):
    """p = alloc(COUNT * sizeof(T)); a later p[IDX] (p, and the variables of COUNT and IDX, not re-assigned in between) with
    IDX - COUNT a non-negative constant is outside the block.  Only definite cases are reported; IDX - COUNT a negative
    constant is recorded as discharged, anything else is not judged."""
    judged = 0
    for fn in prog.all_functions():
        allocs = []
        for (b, i, r, n) in fn.eval_sites():
            tgt, rhs = None, None
            if n.get("k") == "asg" and n.get("op") == "=":
                tgt, rhs = path(strip(n.get("lhs"))), strip(n.get("rhs"))
            elif n.get("k") == "decl":
                for v in n.get("vars", []):
                    if v.get("init") is not None and isinstance(strip(v["init"]), dict) and strip(v["init"]).get("k") == "call":
                        tgt, rhs = v["name"], strip(v["init"])
            if not tgt or not isinstance(rhs, dict) or rhs.get("k") != "call" or rhs.get("callee") not in ("malloc", "realloc", "calloc"):
                continue
            args = rhs.get("args", [])
            if rhs["callee"] == "calloc" and len(args) == 2:
                cnt = args[0]
            else:
                cnt = _count_of_size(args[-1]) if args else None
            lin = _linear(cnt) if cnt is not None else None
            if lin is None:
                continue
            allocs.append((b.id, i, tgt, lin, rhs))
        if not allocs:
            continue
        writes = {}
        for (b, i, r, n) in fn.eval_sites():
            ps = []
            if n.get("k") == "asg":
                ps.append(path(strip(n.get("lhs"))))
            elif n.get("k") == "un" and n.get("op") in ("post++", "post--", "pre++", "pre--"):
                ps.append(path(strip(n.get("e"))))
            elif n.get("k") == "un" and n.get("op") == "&":
                ps.append(path(strip(n.get("e"))))
            elif n.get("k") == "decl":
                ps.extend(v["name"] for v in n.get("vars", []) if v.get("init") is not None)
            for p in ps:
                if p:
                    writes.setdefault(p, []).append((b.id, i))
        for (ab, ai, tgt, lin, call) in allocs:
            for (b, i, r, x) in fn.eval_sites("index"):
                if path(strip(x.get("base"))) != tgt:
                    continue
                li = _linear(x.get("idx"))
                if li is None:
                    continue
                diff = dict(li)
                for k2, v in lin.items():
                    diff[k2] = diff.get(k2, 0) - v
                if any(v != 0 for k2, v in diff.items() if k2 != ""):
                    continue
                # same block after the allocation, or dominated by it with no intervening writes to the variables involved
                vars_ = {k2 for k2 in list(li) + list(lin) if k2} | {tgt}
                if not ((b.id == ab and i > ai) or cfgq.must_precede(fn, (b.id, i), [(ab, ai)])):
                    continue
                clobbered = False
                for v in vars_:
                    for (wb, wi) in writes.get(v, []):
                        if (wb, wi) == (ab, ai):
                            continue
                        # a write that can happen after the allocation and before the use
                        after_alloc = (wb == ab and wi > ai) or (wb != ab and wb in cfgq.reach(fn, [ab]))
                        before_use = (wb == b.id and wi < i) or (wb != b.id and b.id in cfgq.reach(fn, [wb]))
                        if after_alloc and before_use:
                            clobbered = True
                if clobbered:
                    continue
                judged += 1
                d = diff.get("", 0)
                key = "%s:%s[%s]" % (fn.name, tgt, show(x.get("idx"))[:40])
                if d >= 0:
                    rule.violation(fn.file, fn.name, x.get("l"), "index-at-or-past-extent:%s:%s" % (fn.name, tgt),
                                   "`%s` (L%s) accesses element count%+d of the block allocated at L%s for `%s` elements: "
                                   "outside the block" % (show(x)[:60], x.get("l"), d, call.get("l"), show(_count_of_size(call["args"][-1]) if call["callee"] != "calloc" else call["args"][0])[:60]))
                else:
                    rule.ok(key, "index is count%+d" % d)
    return judged


# ------------------------------------------------------------------------------------------------ exclusive end pointers
LENGTH_ARG = {"u_memchr": 2, "memchr": 2, "u_memmove": 2, "u_memcpy": 2, "memmove": 2, "memcpy": 2, "u_strncmp": 2, "memcmp": 2,
              "u_memcmp": 2, "u_strFindFirst": 1}


def exclusive_end_guards(prog, rule):
    """A pointer E is an exclusive end when the function passes `E - X` as an element count, or dereferences some X only
    under `X < E`.  Dereferencing X under the weaker guard `X <= E` then reads one element past the data."""
    judged = 0
    for fn in prog.all_functions():
        ends = set()
        for (b, i, r, c) in fn.calls():
            ai = LENGTH_ARG.get(c.get("callee"))
            if ai is None or ai >= len(c.get("args", [])):
                continue
            a = strip(c["args"][ai])
            if isinstance(a, dict) and a.get("k") == "bin" and a.get("op") == "-":
                e = path(strip(a.get("lhs")))
                if e and "*" in (strip(a.get("lhs")).get("t") or ""):
                    ends.add(e)
        if not ends:
            continue
        for blk in fn.blocks.values():
            cnd = cfgq.cond_of(fn, blk)
            if cnd is None or len(blk.succs) != 2:
                continue
            cs = strip(cnd)
            if not isinstance(cs, dict) or cs.get("k") != "bin" or cs.get("op") not in ("<", "<=", ">", ">="):
                continue
            l, rr = strip(cs.get("lhs")), strip(cs.get("rhs"))
            op = cs["op"]
            if path(rr) in ends:
                x, strict, edge = l, op == "<", 0
                if op not in ("<", "<="):
                    continue
            elif path(l) in ends:
                x, strict, edge = rr, op == ">", 0
                if op not in (">", ">="):
                    continue
            else:
                continue
            xs = show(x)
            # dereferences of the same pointer expression dominated by the true edge
            hits = []
            for (b2, i2, r2, d) in fn.eval_sites():
                tgt = None
                if d.get("k") == "un" and d.get("op") == "*":
                    tgt = strip(d.get("e"))
                elif d.get("k") == "index" and const(d.get("idx")) == 0:
                    tgt = strip(d.get("base"))
                if tgt is None or show(tgt) != xs:
                    continue
                if cfgq.must_pass_edge(fn, b2.id, [(blk.id, edge)]):
                    hits.append(d)
            if not hits:
                continue
            judged += 1
            key = "%s:%s %s %s" % (fn.name, xs, "<" if strict else "<=", path(rr) if path(rr) in ends else path(l))
            if strict:
                rule.ok(key, "%d dereference(s) under the strict guard" % len(hits))
            else:
                rule.violation(fn.file, fn.name, hits[0].get("l"), "deref-at-exclusive-end:%s:%s" % (fn.name, xs),
                               "`%s` is dereferenced under the guard `%s`, but %s is an exclusive end (the function passes "
                               "`%s - x` as an element count): when the two are equal the access is one element past the data"
                               % (xs, show(cs), path(rr) if path(rr) in ends else path(l), path(rr) if path(rr) in ends else path(l)))
    return judged


# ------------------------------------------------------------------------------------------------ shell free with owned fields
ALLOCS = ("malloc", "calloc", "realloc", "strdup", "cif_u_strdup", "cif_u_strndup")


def shell_free_with_fields(prog, rule, functions, may_oom):
    """For functions the ownership typestate cannot model (macro families that allocate conditionally): an object whose
    pointer field has been filled with a fresh allocation must not be released by a plain free() of the object on a path
    where that field has neither been freed nor the object deep-released / handed over.  Only paths through a call that
    can fail for lack of memory are violations (the property's precondition excludes corrupt stored data); other paths are
    listed as information.
    functions: names to analyse; may_oom: names of callees that may return CIF_MEMORY_ERROR (or NULL)."""
    n = 0
    for name in functions:
        fn = prog.fn(name)
        # alias groups: v = (T *) val
        group = {}
        for (b, i, r, d) in fn.eval_sites("decl"):
            for v in d.get("vars", []):
                if v.get("init") is not None and "*" in (v.get("t") or ""):
                    src = path(strip(v["init"]))
                    if src and src.replace("_", "a").isalnum():
                        group[v["name"]] = group.get(src, src)
        def rep(x):
            return group.get(x, x)
        fresh = set()
        for (b, i, r, x) in fn.eval_sites():
            if x.get("k") == "decl":
                for v in x.get("vars", []):
                    ini = strip(v.get("init")) if v.get("init") is not None else None
                    if isinstance(ini, dict) and ini.get("k") == "call" and ini.get("callee") in ALLOCS:
                        fresh.add(v["name"])
            elif x.get("k") == "asg" and x.get("op") == "=":
                rr = strip(x.get("rhs"))
                lp = path(strip(x.get("lhs")))
                if isinstance(rr, dict) and rr.get("k") == "call" and rr.get("callee") in ALLOCS and lp and lp.replace("_", "a").isalnum():
                    fresh.add(lp)
        stores = []
        for (b, i, r, a) in fn.eval_sites("asg"):
            l = strip(a.get("lhs"))
            if not isinstance(l, dict) or l.get("k") != "member" or a.get("op") != "=":
                continue
            rr = strip(a.get("rhs"))
            is_fresh = (isinstance(rr, dict) and rr.get("k") == "call" and rr.get("callee") in ALLOCS) or (path(rr) in fresh)
            if not is_fresh:
                continue
            from .facts import root_var
            root = root_var(l)
            if root:
                stores.append((b.id, i, a, rep(root), l["name"], path(l)))
        shell_frees = [(b.id, i, c, rep(path(strip(c["args"][0])))) for (b, i, r, c) in fn.calls_to("free")
                       if c.get("args") and (path(strip(c["args"][0])) or "").replace("_", "a").isalnum()]
        for (sb, si, a, g, fld, lp) in stores:
            for (fb, fi, c, fg) in shell_frees:
                if fg != g:
                    continue
                n += 1
                barrier = set()
                for (b2, i2, r2, c2) in fn.calls():
                    cal = c2.get("callee")
                    args = c2.get("args") or []
                    ap = path(strip(args[0])) if args else None
                    if cal == "free" and ap == lp:
                        barrier.add(b2.id)
                    if cal in ("cif_value_free", "cif_value_clean", "cif_packet_free") and ap and rep(ap.lstrip("&(").split("-")[0].split(".")[0]) == g:
                        barrier.add(b2.id)
                for (b2, i2, r2, a2) in fn.eval_sites("asg"):
                    rp = path(strip(a2.get("rhs")))
                    # hand-over: the object pointer is stored somewhere that outlives the function (`value = val`, `*out = v`)
                    if rp and rep(rp) == g and path(strip(a2.get("lhs"))) and rep(path(strip(a2.get("lhs")))) != g:
                        barrier.add(b2.id)
                barrier.discard(sb)
                after = cfgq.reach(fn, [sb], barrier)
                key = "%s:%s then free(%s)@L%s" % (name, lp, path(strip(c["args"][0])), c.get("l"))
                if fb not in after or (fb == sb and fi < si):
                    rule.ok(key, "the field is released, or the object handed over / deep-released, on every path to the shell free")
                    continue
                # is there a may-OOM call on some such path between the store and the free?
                culprit = None
                for (b2, i2, r2, c2) in fn.calls():
                    if not (c2.get("callee") in may_oom and ((b2.id == sb and i2 > si) or (b2.id != sb and b2.id in after))):
                        continue
                    # the branch that tests this call's result, and its failing outcome
                    for tb in fn.blocks.values():
                        cnd = cfgq.cond_of(fn, tb)
                        if cnd is None or len(tb.succs) != 2:
                            continue

                        def holds(e, cid=c2.get("id")):
                            e = strip(e)
                            if e.get("id") == cid:
                                return True
                            # `(r = f(...))` compared with a constant
                            return e.get("k") == "asg" and strip(e.get("rhs")).get("id") == cid
                        z = cfgq.zero_test(cnd, holds)
                        if z is None:
                            continue
                        zero_edge = 0 if z == "true" else 1
                        fail_edge = zero_edge if c2.get("callee") in ALLOCS else 1 - zero_edge
                        tgt = tb.succs[fail_edge]
                        if tgt is not None and tgt not in barrier and fb in cfgq.reach(fn, [tgt], barrier):
                            culprit = c2
                    if culprit is not None:
                        break
                if culprit is not None:
                    rule.violation(fn.file, name, c.get("l"), "shell-free-leaks-field:%s:%s" % (name, fld),
                                   "`%s` receives a fresh allocation at L%s; when the later call to %s (L%s) fails (it can return "
                                   "CIF_MEMORY_ERROR) the object is released with a plain free(%s) at L%s without releasing that "
                                   "field: the allocation leaks" % (lp, a.get("l"), culprit.get("callee"), culprit.get("l"),
                                                                   path(strip(c["args"][0])), c.get("l")))
                else:
                    rule.ok(key, "the shell free is reachable with the field still owned only through failures of reads from the stored "
                            "blob (corrupt data: outside the property's preconditions), not through a call that can run out of memory")
    return n


# ------------------------------------------------------------------------------------------------ copy correspondence
DUPS = ("strdup", "cif_u_strdup", "cif_u_strndup")


def dup_field_correspondence(prog, rule):
    """`a->F = dup(b->G)` with a and b different objects of the same record type copies field G of one object into field F
    of another: F and G must be the same field (a deep copy that crosses fields silently replaces one attribute by another).
    Returns the number of such stores judged."""
    n = 0
    for fn in prog.all_functions():
        for (b, i, r, a) in fn.eval_sites("asg"):
            l = strip(a.get("lhs"))
            rr = strip(a.get("rhs"))
            if not isinstance(l, dict) or l.get("k") != "member" or a.get("op") != "=":
                continue
            if not (isinstance(rr, dict) and rr.get("k") == "call" and rr.get("callee") in DUPS and rr.get("args")):
                continue
            src = strip(rr["args"][0])
            if not isinstance(src, dict) or src.get("k") != "member":
                continue
            lb, sb_ = strip(l.get("base")), strip(src.get("base"))
            lt, st_ = (lb.get("t") or "").replace("const ", "").strip(), (sb_.get("t") or "").replace("const ", "").strip()
            if not lt or lt != st_:
                continue
            if path(lb) == path(sb_):
                continue        # same object: re-allocation of its own field
            n += 1
            key = "%s:%s=dup(%s)" % (fn.name, path(l), path(src))
            if l.get("name") == src.get("name"):
                rule.ok(key, "same field")
            else:
                rule.violation(fn.file, fn.name, a.get("l"), "copy-crosses-fields:%s:%s<-%s" % (fn.name, l.get("name"), src.get("name")),
                               "`%s` receives a copy of `%s`: the copy of one %s takes field `%s` from field `%s` of the original, so the "
                               "copy's `%s` no longer equals the original's" % (path(l), path(src), lt, l.get("name"), src.get("name"), l.get("name")))
    return n


def keep_or_replace(prog, rule):
    """Idiom `v = (changed == 0) ? e->F : fresh; ... e->F = v;` (keep the stored attribute or replace it): the comparison that
    defines `changed` must be made against e->F itself - comparing against another field decides about F with the wrong
    evidence.  Returns the number of idiom instances judged."""
    n = 0
    for fn in prog.all_functions():
        candidates = []
        for (b, i, r, d) in fn.eval_sites():
            v, init = None, None
            if d.get("k") == "decl":
                for var in d.get("vars", []):
                    if var.get("init") is not None and strip(var["init"]).get("k") == "cond":
                        v, init = var["name"], strip(var["init"])
            elif d.get("k") == "asg" and d.get("op") == "=" and isinstance(strip(d.get("rhs")), dict) and strip(d.get("rhs")).get("k") == "cond":
                v, init = path(strip(d.get("lhs"))), strip(d.get("rhs"))
            if v and init is not None:
                candidates.append((v, init))
        # the same choice written as if / else: two assignments of one local on opposite outcomes of one branch
        from . import loops as _loops
        by_var = {}
        for (b, i, r, d) in fn.eval_sites("asg"):
            lp = path(strip(d.get("lhs")))
            if d.get("op") == "=" and lp and re.match(r"^\w+$", lp):
                by_var.setdefault(lp, []).append((b, d))
        for lp, defs in by_var.items():
            if len(defs) != 2:
                continue
            (b1, d1), (b2, d2) = defs
            for tb in fn.blocks.values():
                if len(tb.succs) != 2:
                    continue
                t, f = _loops.control_dependents(fn, tb.id)
                cnd = cfgq.cond_of(fn, tb)
                if cnd is None:
                    continue
                if b1.id in t and b2.id in f:
                    candidates.append((lp, {"k": "cond", "c": cnd, "then": d1.get("rhs"), "else": d2.get("rhs")}))
                elif b1.id in f and b2.id in t:
                    candidates.append((lp, {"k": "cond", "c": cnd, "then": d2.get("rhs"), "else": d1.get("rhs")}))
        for (v, init) in candidates:
            arms = [strip(init.get("then")), strip(init.get("else"))]
            keep = [x for x in arms if isinstance(x, dict) and x.get("k") == "member"]
            fresh = [x for x in arms if isinstance(x, dict) and x.get("k") == "call" and x.get("callee") in DUPS]
            if len(keep) != 1 or len(fresh) != 1:
                continue
            kept = keep[0]
            # is the kept field later stored from v ?
            stored = [a for (b2, i2, r2, a) in fn.eval_sites("asg") if path(strip(a.get("lhs"))) == path(kept) and path(strip(a.get("rhs"))) == v]
            if not stored:
                continue
            cvars = {path(x) for x in walk(init.get("c")) if x.get("k") == "ref" and path(x)}
            cmp_fields = []
            for (b2, i2, r2, a) in fn.eval_sites("asg"):
                if path(strip(a.get("lhs"))) in cvars:
                    for x in walk(a.get("rhs")):
                        if x.get("k") == "call" and x.get("callee") in ("u_strcmp", "u_strncmp", "strcmp", "u_strcasecmp", "memcmp"):
                            for arg in x.get("args", [])[:2]:
                                sa = strip(arg)
                                if isinstance(sa, dict) and sa.get("k") == "member" and path(strip(sa.get("base"))) == path(strip(kept.get("base"))):
                                    cmp_fields.append((sa.get("name"), x))
            if not cmp_fields:
                # `if (... cmp(new, e->F) == 0 ...) changed = 0;` : the comparison guards a store to the deciding variable
                for (b2, i2, r2, a) in fn.eval_sites("asg"):
                    if path(strip(a.get("lhs"))) not in cvars:
                        continue
                    for gb in fn.blocks.values():
                        cnd = cfgq.cond_of(fn, gb)
                        if cnd is None or len(gb.succs) != 2:
                            continue
                        if not (cfgq.must_pass_edge(fn, b2.id, [(gb.id, 0)]) or cfgq.must_pass_edge(fn, b2.id, [(gb.id, 1)])):
                            continue
                        for x in walk(cnd):
                            if x.get("k") == "call" and x.get("callee") in ("u_strcmp", "u_strncmp", "strcmp", "u_strcasecmp", "memcmp"):
                                for arg in x.get("args", [])[:2]:
                                    sa = strip(arg)
                                    if isinstance(sa, dict) and sa.get("k") == "member" and path(strip(sa.get("base"))) == path(strip(kept.get("base"))):
                                        cmp_fields.append((sa.get("name"), x))
            if not cmp_fields:
                continue
            n += 1
            key = "%s:%s" % (fn.name, path(kept))
            wrong = [(f, x) for (f, x) in cmp_fields if f != kept.get("name")]
            if wrong:
                f, x = wrong[0]
                rule.violation(fn.file, fn.name, x.get("l"), "keep-or-replace-wrong-field:%s:%s" % (fn.name, kept.get("name")),
                               "whether `%s` is kept or replaced (L%s) is decided by comparing the new string with `%s->%s` (L%s), not with "
                               "`%s` itself: when the new spelling equals that other field the stored `%s` is kept although it differs"
                               % (path(kept), d.get("l"), path(strip(kept.get("base"))), f, x.get("l"), path(kept), kept.get("name")))
            else:
                rule.ok(key, "decided by comparison with the field itself")
    return n


def realloc_self_assign(prog, rule):
    """`p = realloc(p, n)`: when realloc fails the only pointer to the old block is overwritten with NULL - the block leaks
    and the object that held it is left with a NULL pointer and its old size.  The result must go to a temporary that is
    tested first.  Returns the number of realloc sites judged."""
    n = 0
    for fn in prog.all_functions():
        for (b, i, r, x) in fn.eval_sites():
            tgt, call = None, None
            if x.get("k") == "asg" and x.get("op") == "=":
                rr = strip(x.get("rhs"))
                if isinstance(rr, dict) and rr.get("k") == "call" and rr.get("callee") == "realloc":
                    tgt, call = path(strip(x.get("lhs"))), rr
            elif x.get("k") == "decl":
                for v in x.get("vars", []):
                    rr = strip(v.get("init")) if v.get("init") is not None else None
                    if isinstance(rr, dict) and rr.get("k") == "call" and rr.get("callee") == "realloc":
                        tgt, call = v["name"], rr
            if call is None or not call.get("args"):
                continue
            n += 1
            src = path(strip(call["args"][0]))
            key = "%s:%s=realloc(%s)" % (fn.name, tgt, src)
            if tgt is not None and tgt == src:
                rule.violation(fn.file, fn.name, call.get("l"), "realloc-overwrites-source:%s:%s" % (fn.name, tgt),
                               "`%s = realloc(%s, ...)`: if the re-allocation fails, NULL replaces the only pointer to the old block "
                               "(which is still allocated): the block leaks and `%s` is left NULL while its owner still records the "
                               "old size" % (tgt, src, tgt))
            else:
                rule.ok(key, "result goes to a separate variable")
    return n


# ------------------------------------------------------------------------------------------------ release of fresh objects
def release_read_sets(prog):
    """function name -> fields of its first parameter that it reads (rvalue `p->f`), closed under calls that pass the
    parameter on; only for release functions (*_free, *_clean, *_free_internal)."""
    D, P = {}, {}
    for fn in prog.all_functions():
        if not fn.params:
            D[fn.name], P[fn.name] = set(), set()
            continue
        p0 = fn.params[0]["name"]
        lhs_ids = set()
        for (b, i, r, n) in fn.eval_sites("asg"):
            if n.get("op") == "=":
                l = strip(n.get("lhs"))
                if isinstance(l, dict):
                    lhs_ids.add(l.get("id"))
        reads, passes = set(), set()
        for (b, i, r, n) in fn.eval_sites("member"):
            base = strip(n.get("base"))
            if isinstance(base, dict) and base.get("k") == "ref" and base.get("name") == p0 and n.get("arrow") and n.get("id") not in lhs_ids:
                reads.add(n["name"])
        for (b, i, r, c) in fn.calls():
            if c.get("callee") and c.get("args") and path(strip(c["args"][0])) == p0:
                passes.add(c["callee"])
        D[fn.name], P[fn.name] = reads, passes
    R = {k: set(v) for k, v in D.items()}
    for _ in range(6):
        ch = False
        for f, ps in P.items():
            for g in ps:
                for x in R.get(g, ()):
                    if x not in R[f]:
                        R[f].add(x)
                        ch = True
        if not ch:
            break
    return {f: v for f, v in R.items() if re.search(r"(_free|_clean|_free_internal)$", f) and v}


# value objects are released according to their kind (judged by the kind/field rules), not field by field
RELEASE_SKIP = ("cif_value_free", "cif_value_clean")


def must_assign_sets(prog):
    """(function, parameter index) -> fields `p->f` the function assigns on every path to its exit (initialiser helpers)."""
    cache = getattr(prog, "_must_assign", None)
    if cache is not None:
        return cache
    out = {}
    for fn in prog.all_functions():
        for idx, prm in enumerate(fn.params):
            if "*" not in (prm.get("t") or ""):
                continue
            by_field = {}
            for (b, i, r, a) in fn.eval_sites("asg"):
                l = strip(a.get("lhs"))
                if isinstance(l, dict) and l.get("k") == "member" and l.get("arrow") and path(strip(l.get("base"))) == prm["name"] and a.get("op") == "=":
                    by_field.setdefault(l["name"], []).append((b.id, i))
            fields = {f for f, sites in by_field.items() if cfgq.must_follow(fn, (fn.entry, -1), sites)}
            if fields:
                out[(fn.name, idx)] = fields
    prog._must_assign = out
    return out


def release_sees_initialised(prog, rule):
    """x = malloc(sizeof *x) ... release(x): every field of x that the release function reads must have been assigned on
    every path from the allocation to the call (an out-parameter `&x->f` handed to a callee does not count: the callee may
    fail without storing).  Returns the number of (fresh object, release call) pairs judged."""
    rel = release_read_sets(prog)
    n = 0
    for fn in prog.all_functions():
        fresh = []
        for (b, i, r, x) in fn.eval_sites():
            tgt, rr = None, None
            if x.get("k") == "asg" and x.get("op") == "=":
                tgt, rr = path(strip(x.get("lhs"))), strip(x.get("rhs"))
            elif x.get("k") == "decl":
                for v in x.get("vars", []):
                    if v.get("init") is not None:
                        tgt, rr = v["name"], strip(v["init"])
            if tgt and isinstance(rr, dict) and rr.get("k") == "call" and rr.get("callee") == "malloc" and tgt.replace("_", "a").isalnum():
                fresh.append((b.id, i, tgt))
        for (ab, ai, x) in fresh:
            after = cfgq.reach(fn, [ab])
            for (b, i, r, c) in fn.calls():
                g = c.get("callee")
                if g not in rel or g in RELEASE_SKIP or not c.get("args") or path(strip(c["args"][0])) != x:
                    continue
                if b.id not in after:
                    continue
                n += 1
                missing = []
                zero_fills = [(b2.id, i2) for (b2, i2, r2, c2) in fn.calls_to("memset")
                              if c2.get("args") and path(strip(c2["args"][0])) == x and len(c2["args"]) > 1 and const(c2["args"][1]) == 0]
                for f in sorted(rel[g]):
                    stores = [(b2.id, i2) for (b2, i2, r2, a) in fn.eval_sites("asg")
                              if (path(strip(a.get("lhs"))) or "") == "%s->%s" % (x, f) or (path(strip(a.get("lhs"))) or "").startswith("%s->%s." % (x, f))]
                    stores += zero_fills
                    # initialiser helpers: x handed to a function that assigns the field on all of its paths
                    for (b2, i2, r2, c2) in fn.calls():
                        for k2, a2 in enumerate(c2.get("args", [])):
                            if path(strip(a2)) == x and f in must_assign_sets(prog).get((c2.get("callee"), k2), ()):
                                stores.append((b2.id, i2))
                    mf = cfgq.MustFact(fn, gen_sites=stores, kill_sites=[(ab, ai)], entry_value=False)
                    if not mf.at(b.id, i):
                        missing.append(f)
                key = "%s:%s(%s)@L%s" % (fn.name, g, x, c.get("l"))
                if missing:
                    for f in missing:
                        rule.violation(fn.file, fn.name, c.get("l"), "uninitialised-at-release:%s:%s" % (fn.name, f),
                                       "%s(%s) at L%s reads %s->%s, which on some path from the allocation of %s has not been assigned "
                                       "(e.g. an earlier step failed first): an indeterminate pointer is freed or followed" % (g, x, c.get("l"), x, f, x))
                else:
                    rule.ok(key, "fields read by %s (%s) are assigned on every path" % (g, ", ".join(sorted(rel[g]))))
    return n


def uthash_fatal_recovery(prog, rule):
    """uthash 1.9.9 cannot recover from a failed allocation: HASH_ADD* links the new element in (possibly as the head, with
    hh.tbl not yet allocated) before it calls uthash_fatal().  cif_api re-defines uthash_fatal as a jump to a failure handler.
    Any walk of that table afterwards (HASH_ITER / HASH_DEL on the same head, or a release function that iterates it) follows
    an indeterminate pointer.  Reported per insertion site whose failure handler can reach such a walk."""
    n = 0
    walkers = ("cif_packet_free", "cif_pktitr_free", "cif_value_free", "cif_value_clean", "cif_map_clean", "cif_table_value_clean",
               "cif_map_entry_free_internal")
    for fn in prog.all_functions():
        adds = {}
        for (b, i, r, x) in fn.eval_sites():
            ms = x.get("ms") or []
            if not any(m.startswith("HASH_ADD") for m in ms):
                continue
            adds.setdefault(b.id, x)
        if not adds:
            continue
        # jumps out of the insertion: goto edges inside the expansion whose statement text belongs to uthash_fatal
        fatal_targets = set()
        for b in fn.blocks.values():
            for r in b.roots:
                for x in walk_eval(r):
                    ms = x.get("ms") or []
                    if "uthash_fatal" in ms and any(m.startswith("HASH_ADD") or m.startswith("HASH_MAKE") or m.startswith("HASH_EXPAND") for m in ms):
                        for s_ in b.succs:
                            if s_ is not None:
                                fatal_targets.add((b.id, s_))
        # `uthash_fatal(msg)` defined as a bare goto leaves no expression behind: also take edges from blocks of the insertion
        # (or blocks reachable from them through blocks that hold nothing but uthash text) to failure-handler labels
        ins_blocks = set()
        for b in fn.blocks.values():
            if b.roots and all(any(m.startswith("HASH_") or m.startswith("uthash") for m in (x.get("ms") or [])) for x in b.roots):
                ins_blocks.add(b.id)
        for bid in ins_blocks:
            for s0 in fn.blocks[bid].succs:
                if s0 is None:
                    continue
                s_ = s0
                # a bare `goto label;` is an empty block of its own
                hops = 0
                while not fn.blocks[s_].roots and not fn.blocks[s_].label and len([x for x in fn.blocks[s_].succs if x is not None]) == 1 and hops < 3:
                    s_ = [x for x in fn.blocks[s_].succs if x is not None][0]
                    hops += 1
                lab = fn.blocks[s_].label
                if lab and lab.get("k") == "label" and str(lab.get("name", "")).endswith("_fail"):
                    fatal_targets.add((bid, s_))
        if not fatal_targets:
            continue
        n += 1
        hits = []
        for (src, tgt) in fatal_targets:
            reach = cfgq.reach(fn, [tgt])
            for (b, i, r, c) in fn.calls():
                if b.id in reach and c.get("callee") in walkers:
                    hits.append(c)
            for b in fn.blocks.values():
                if b.id in reach:
                    for r in b.roots:
                        for x in walk_eval(r):
                            if any(m in ("HASH_ITER", "HASH_DEL", "HASH_DELETE") for m in (x.get("ms") or [])):
                                hits.append(x)
        key = "%s:uthash-fatal" % fn.name
        # whose table is it?  `head = add` inside the expansion names the head; a head reached through a parameter belongs to the caller
        from .facts import root_var
        caller_owned = None
        params = {p_["name"] for p_ in fn.params}
        for b in fn.blocks.values():
            for r in b.roots:
                for x in walk_eval(r):
                    if x.get("k") == "asg" and x.get("op") == "=" and any(m.startswith("HASH_ADD") for m in (x.get("ms") or [])):
                        lp = path(strip(x.get("lhs"))) or ""
                        if lp.endswith("head") and root_var(strip(x.get("lhs"))) in params:
                            caller_owned = lp
        if not hits and caller_owned:
            rule.violation(fn.file, fn.name, fn.line, "uthash-fatal-corrupts-callers-table:%s" % fn.name,
                           "%s inserts into the caller's table `%s` with uthash_fatal() re-defined as a jump to its failure handler; after a "
                           "failed allocation inside HASH_ADD the new element may already be linked in (as the head, without a bucket "
                           "table), the handler frees it, and the function returns CIF_MEMORY_ERROR leaving the caller a table whose "
                           "next walk (clean, free, look-up) follows freed or indeterminate pointers" % (fn.name, caller_owned))
            continue
        if hits:
            h = hits[0]
            what = h.get("callee") or (h.get("ms") or ["HASH_ITER"])[-1]
            rule.violation(fn.file, fn.name, h.get("l"), "uthash-fatal-then-walk:%s" % fn.name,
                           "%s inserts into a uthash table with uthash_fatal() re-defined as a jump to its failure handler; that handler "
                           "reaches %s (L%s), which walks the table although the failed HASH_ADD may have linked the new element "
                           "with no bucket table (uthash 1.9.9 is not recoverable after an allocation failure): invalid read / free"
                           % (fn.name, what, h.get("l")))
        else:
            rule.ok(key, "the failure handler does not walk the table")
    return n


def out_param_not_dangling(prog, rule):
    """A function that releases the object its out-parameter points to (`release(*out)`) must store into `*out` again before
    it returns: the caller cannot tell that its pointer now addresses freed memory.  Returns the number of sites judged."""
    n = 0
    for fn in prog.all_functions():
        params = {p["name"] for p in fn.params if (p.get("t") or "").count("*") >= 2}
        if not params:
            continue
        for (b, i, r, c) in fn.calls():
            g = c.get("callee") or ""
            if not (g == "free" or re.search(r"(_free|_destroy)$", g)) or not c.get("args"):
                continue
            a = strip(c["args"][0])
            if not (isinstance(a, dict) and a.get("k") == "un" and a.get("op") == "*" and path(strip(a.get("e"))) in params):
                continue
            out = path(strip(a.get("e")))
            restores = [(b2.id, i2) for (b2, i2, r2, a2) in fn.eval_sites("asg") if path(strip(a2.get("lhs"))) == "*" + out]
            # a `T **` that the function only reads (a cursor into an array of strings) is not an out-parameter; one it
            # advances (`end -= 1`) is a local cursor as well
            advanced = any(path(strip(x.get("lhs") if x.get("k") == "asg" else x.get("e"))) == out
                           for (b2, i2, r2, x) in fn.eval_sites() if x.get("k") == "asg" or (x.get("k") == "un" and x.get("op") in ("post++", "post--", "pre++", "pre--")))
            if advanced:
                continue
            is_public_out = any(d["file"].endswith("cif.h") or d["file"].endswith("utils.h") for d in prog.decls.get(fn.name, []))
            if not restores and not is_public_out:
                continue
            n += 1
            key = "%s:%s(*%s)@L%s" % (fn.name, g, out, c.get("l"))
            if restores and cfgq.must_follow(fn, (b.id, i), restores):
                rule.ok(key, "*%s is re-assigned on every path to the exit" % out)
            else:
                rule.violation(fn.file, fn.name, c.get("l"), "out-parameter-dangling:%s:%s" % (fn.name, out),
                               "%s(*%s) at L%s releases the object the caller's pointer refers to, and on some path the function "
                               "returns without storing into *%s again: the caller is left with a dangling pointer it will "
                               "release or use" % (g, out, c.get("l"), out))
    return n


# ------------------------------------------------------------------------------------------------ declarations vs definitions
def declaration_parameter_agreement(prog, rule, units=None):
    """Every declaration of a function names its parameters like the definition does, position by position.  Two
    same-typed parameters whose names are exchanged between prototype and definition make every caller that follows the
    prototype pass its arguments crosswise.  Returns the number of (declaration, definition) pairs compared."""
    n = 0
    for name, ds in sorted(prog.decls.items()):
        defs = [d for d in ds if d.get("def")]
        if not defs:
            continue
        dfn = defs[0]
        if units and dfn.get("unit") not in units:
            continue
        for d in ds:
            if d is dfn or d.get("def"):
                continue
            pa, pb = d.get("params", []), dfn.get("params", [])
            if len(pa) != len(pb) or not pa:
                continue
            n += 1
            names_a = [p.get("name") or "" for p in pa]
            names_b = [p.get("name") or "" for p in pb]
            key = "%s@%s:%s" % (name, d.get("file"), d.get("line"))
            swapped = [(i, j) for i in range(len(pa)) for j in range(len(pa)) if i < j
                       and names_a[i] and names_a[j] and names_a[i] == names_b[j] and names_a[j] == names_b[i]
                       and names_a[i] != names_a[j]]
            if swapped:
                i, j = swapped[0]
                rule.violation(d.get("file"), name, dfn.get("line"), "parameter-names-exchanged:%s" % name,
                               "%s is declared (%s:%s) with parameters %d and %d named `%s`, `%s`, but defined (%s:%s) with `%s`, `%s`: "
                               "callers written against the declaration pass the two %s arguments crosswise"
                               % (name, d.get("file"), d.get("line"), i + 1, j + 1, names_a[i], names_a[j], dfn.get("file"),
                                  dfn.get("line"), names_b[i], names_b[j], (pa[i].get("t") or "").strip()))
            else:
                rule.ok(key, "parameter names agree with the definition (or differ without being exchanged)")
    return n


# ------------------------------------------------------------------------------------------------ clean helpers reset pointers
def clean_helpers_reset(prog, rule):
    """`*_clean` functions release what an object owns but leave the object itself alive (callers re-use or re-clean it): a
    pointer field they free must be reset (`CLEAN_PTR`, or an assignment after the free) on every path to the exit, unless
    the object itself is freed as well.  Returns the number of frees judged."""
    n = 0
    for fn in prog.all_functions():
        if not re.search(r"_clean$", fn.name) or not fn.params:
            continue
        p0 = fn.params[0]["name"]
        frees_self = [(b.id, i) for (b, i, r, c) in fn.calls_to("free") if c.get("args") and path(strip(c["args"][0])) == p0]
        for (b, i, r, c) in fn.calls_to("free"):
            ap = path(strip(c["args"][0])) if c.get("args") else None
            if not ap or not ap.startswith(p0 + "->") or "[" in ap:
                continue
            if any(m.startswith("HASH_") or m.startswith("uthash") for m in (c.get("ms") or [])):
                continue        # uthash's own bookkeeping (it resets the head when the last element goes)
            n += 1
            resets = [(b2.id, i2) for (b2, i2, r2, a) in fn.eval_sites("asg") if path(strip(a.get("lhs"))) == ap and a.get("op") == "="]
            key = "%s:free(%s)" % (fn.name, ap)
            if cfgq.must_follow(fn, (b.id, i), resets + frees_self):
                rule.ok(key, "reset (or the object is freed) on every path after the free")
            else:
                rule.violation(fn.file, fn.name, c.get("l"), "clean-leaves-dangling:%s:%s" % (fn.name, ap),
                               "%s frees %s but does not reset it: the object stays alive (its kind and the pointer unchanged when the "
                               "caller is a failure handler that keeps the object), so the next clean or free releases the block again"
                               % (fn.name, ap))
    return n


# ------------------------------------------------------------------------------------------------ hash key length
def hash_key_length(prog, rule):
    """In every HASH_ADD_KEYPTR expansion the stored key length is the length in bytes of the stored key: `hh.keylen` is
    `u_strlen(K) * sizeof(UChar)` for the very expression K stored into `hh.key`, directly or through a local assigned that
    product.  (Look-ups compute the length the same way: a different length makes the entry unreachable or merges keys.)
    Returns the number of insertions judged."""
    n = 0
    for fn in prog.all_functions():
        groups = {}
        for (b, i, r, a) in fn.eval_sites("asg"):
            ms = a.get("ms") or []
            if not any(m.startswith("HASH_ADD") for m in ms):
                continue
            lp = path(strip(a.get("lhs"))) or ""
            if lp.endswith("hh.key"):
                groups.setdefault(a.get("l"), {})["key"] = a
            elif lp.endswith("hh.keylen"):
                groups.setdefault(a.get("l"), {})["len"] = a
        for line, g in sorted(groups.items(), key=lambda kv: kv[0] or 0):
            if "key" not in g or "len" not in g:
                continue
            n += 1
            kexpr = strip(g["key"].get("rhs"))
            while isinstance(kexpr, dict) and kexpr.get("k") == "cast":
                kexpr = strip(kexpr.get("e"))
            kp = path(kexpr)
            lexpr = strip(g["len"].get("rhs"))

            def strlen_arg(e, depth=0):
                """path P if e is u_strlen(P) * sizeof(..) (either order, through casts), else None / 'other'"""
                e = strip(e)
                if not isinstance(e, dict) or depth > 4:
                    return None
                if e.get("k") == "bin" and e.get("op") == "*":
                    for side in (e.get("lhs"), e.get("rhs")):
                        s_ = strip(side)
                        if isinstance(s_, dict) and s_.get("k") == "call":
                            if s_.get("callee") == "u_strlen" and s_.get("args"):
                                return ("u_strlen", path(strip(s_["args"][0])))
                            return (s_.get("callee"), path(strip(s_["args"][0])) if s_.get("args") else None)
                return None
            got = strlen_arg(lexpr)
            if got is None and path(lexpr):
                # a local holding the product
                lv = path(lexpr)
                defs = []
                for (b2, i2, r2, x) in fn.eval_sites():
                    if x.get("k") == "asg" and x.get("op") == "=" and path(strip(x.get("lhs"))) == lv:
                        defs.append(x.get("rhs"))
                    elif x.get("k") == "decl":
                        for v in x.get("vars", []):
                            if v["name"] == lv and v.get("init") is not None:
                                defs.append(v["init"])
                gots = {strlen_arg(d) for d in defs}
                if len(gots) == 1:
                    got = gots.pop()
                elif gots and None not in gots and all(g_[0] == "u_strlen" for g_ in gots):
                    # the variable is re-used: accept when one of its definitions measures the stored key
                    got = next((g_ for g_ in gots if g_[1] == kp), sorted(gots, key=str)[0])
                else:
                    got = None
            if got is not None and got[0] == "u_strlen" and got[1] != kp and kp:
                # `e->key = k; HASH_ADD_KEYPTR(.., e->key, U_BYTES(k), e)`: k is what the key field holds
                srcs = {path(strip(a2.get("rhs"))) for (b2, i2, r2, a2) in fn.eval_sites("asg")
                        if path(strip(a2.get("lhs"))) == kp and a2.get("op") == "="}
                if got[1] in srcs:
                    got = ("u_strlen", kp)
            key = "%s:HASH_ADD@L%s" % (fn.name, line)
            if got is None:
                rule.unproved(key, "key length `%s` is not recognisably u_strlen(key) * sizeof(UChar)" % show(lexpr)[:60])
            elif got[0] != "u_strlen":
                rule.violation(fn.file, fn.name, line, "hash-key-length-unit:%s" % fn.name,
                               "the key length of the insertion at L%s is computed with %s(), not u_strlen(): it is not the number of "
                               "UTF-16 code units of the key, so keys that differ only beyond that length collide (or the hash reads "
                               "past the key)" % (line, got[0]))
            elif got[1] != kp:
                rule.violation(fn.file, fn.name, line, "hash-key-length-of-other-string:%s" % fn.name,
                               "the insertion at L%s stores the key `%s` with the length of `%s`: look-ups hash `%s` over its own "
                               "length, so the entry is found only when the two strings happen to be equally long"
                               % (line, kp, got[1], kp))
            else:
                rule.ok(key, "length of the stored key itself")
    return n


# ------------------------------------------------------------------------------------------------ save / patch / restore
PATCH_EXEMPT = {
    "parse_cif": "the top-level production: whatever it returns ends the parse, and the scan buffer is released right after",
}


def patched_byte_restored(prog, rule, units=("parser.c",)):
    """`saved = *p; *p = 0; ... *p = saved;` - a terminator written into the scan buffer for the duration of a call must be
    restored on every path from the write to an exit of the function on which parsing goes on (return value 0 or a
    traversal directive; an exit with a positive code abandons the parse and the buffer with it).  Returns the number of
    patches judged."""
    from .interp import Interp
    n = 0
    for fn in prog.all_functions():
        if units and fn.unit not in units:
            continue
        saves = {}
        for (b, i, r, x) in fn.eval_sites():
            if x.get("k") == "decl":
                for v in x.get("vars", []):
                    ini = strip(v.get("init")) if v.get("init") is not None else None
                    if isinstance(ini, dict) and ini.get("k") == "un" and ini.get("op") == "*":
                        saves[v["name"]] = show(strip(ini.get("e")))
            elif x.get("k") == "asg" and x.get("op") == "=":
                rr = strip(x.get("rhs"))
                lp = path(strip(x.get("lhs")))
                if lp and isinstance(rr, dict) and rr.get("k") == "un" and rr.get("op") == "*" and lp.replace("_", "a").isalnum():
                    saves[lp] = show(strip(rr.get("e")))
        if not saves:
            continue
        patch_ids, restore_ids = {}, set()
        for sv, ptr in saves.items():
            for (b, i, r, x) in fn.eval_sites("asg"):
                l = strip(x.get("lhs"))
                if not (isinstance(l, dict) and l.get("k") == "un" and l.get("op") == "*" and show(strip(l.get("e"))) == ptr):
                    continue
                if const(x.get("rhs")) == 0:
                    patch_ids[x["id"]] = (x, sv, ptr)
                elif path(strip(x.get("rhs"))) == sv:
                    restore_ids.add(x["id"])
        if not patch_ids:
            continue

        class P(Interp):
            def initial_ts(self):
                return None

            def assign(self, st, node, lhs, p, av, rhs):
                if node.get("id") in patch_ids:
                    return st.with_ts(node["id"])
                if node.get("id") in restore_ids:
                    return st.with_ts(None)
                return st
        it = P(prog, fn)
        it.cap = 6000
        it.max_steps = 600000
        it.run()
        for pid_, (px, sv, ptr) in sorted(patch_ids.items()):
            n += 1
            key = "%s:*(%s)=0@L%s" % (fn.name, ptr, px.get("l"))
            if it.overflow:
                rule.unproved(key, "not analysed to a fixpoint")
                continue
            if fn.name in PATCH_EXEMPT:
                rule.ok(key + ":exempt", PATCH_EXEMPT[fn.name])
                continue
            # a non-zero verdict of the error callback (of either sign) abandons the parse: only a return of exactly 0 goes on
            bad = [(st, av, node) for (st, av, node) in it.exits
                   if st.ts == pid_ and (av is None or av.contains(0))]
            if bad:
                st, av, node = bad[0]
                rule.violation(fn.file, fn.name, px.get("l"), "patched-byte-not-restored:%s" % fn.name,
                               "a NUL is written over `*(%s)` at L%s (its old value kept in `%s`), and the function can then return %s "
                               "- so parsing goes on - without `*(%s) = %s`: the input buffer keeps the NUL in place of the "
                               "character the document has there" % (ptr, px.get("l"), sv, "CIF_OK" if (av is not None and av.is_const() and av.value() == 0) else "a value that may be CIF_OK", ptr, sv),
                               path=["L%s" % x for x in st.trail_lines()][-20:])
            else:
                rule.ok(key, "restored from `%s` before every exit on which parsing continues" % sv)
    return n


def capacity_matches_allocation(prog, rule, units=("value.c",)):
    """A `capacity` field records how many elements (bytes, for the byte buffers) the block its object owns can hold; growth
    decisions compare the fill count with it.  Wherever a function stores a non-constant capacity, the same function must
    allocate a block of exactly that many elements (the linear forms of the stored capacity and of the allocation count are
    equal, locals resolved through their single definition); a larger stored capacity lets later insertions write past
    the block."""
    n = 0
    for fn in prog.all_functions():
        if units and fn.unit not in units:
            continue
        stores = []
        for (b, i, r, a) in fn.eval_sites("asg"):
            lp = path(strip(a.get("lhs"))) or ""
            if (lp.endswith(".capacity") or lp.endswith("->capacity")) and a.get("op") == "=" and const(a.get("rhs")) is None:
                stores.append((b, i, a, lp))
        if not stores:
            continue
        # single-definition locals: name -> defining expression
        defs = {}
        multi = set()
        for (b, i, r, x) in fn.eval_sites():
            if x.get("k") == "decl":
                for v in x.get("vars", []):
                    if v.get("init") is not None:
                        if v["name"] in defs:
                            multi.add(v["name"])
                        defs[v["name"]] = v["init"]
            elif x.get("k") == "asg":
                l = strip(x.get("lhs"))
                if isinstance(l, dict) and l.get("k") == "ref":
                    if l["name"] in defs or x.get("op") != "=":
                        multi.add(l["name"])
                    defs[l["name"]] = x.get("rhs")
            elif x.get("k") == "un" and x.get("op") in ("post++", "post--", "pre++", "pre--"):
                l = strip(x.get("e"))
                if isinstance(l, dict) and l.get("k") == "ref":
                    multi.add(l["name"])

        # fields of local structure variables (`temp.capacity = n`) with a single store that dominates the use
        locals_ = {l["name"] for l in fn.locals}
        pdefs, pmulti = {}, set()
        for (b2, i2, r2, x) in fn.eval_sites("asg"):
            lp2 = path(strip(x.get("lhs")))
            if lp2 and "." in lp2 and "->" not in lp2 and "[" not in lp2 and lp2.split(".")[0] in locals_:
                if lp2 in pdefs or x.get("op") != "=":
                    pmulti.add(lp2)
                pdefs[lp2] = (x.get("rhs"), b2.id, i2)
        use_site = [None]

        def lin(e, depth=0):
            lf = _linear(e)
            if lf is None or depth > 4:
                return lf
            out = {"": lf.get("", 0)}
            for k2, v in lf.items():
                if not k2:
                    continue
                if k2 in pdefs and k2 not in pmulti and use_site[0] is not None and \
                        cfgq.must_precede(fn, use_site[0], [(pdefs[k2][1], pdefs[k2][2])]):
                    sub = lin(pdefs[k2][0], depth + 1)
                    if sub is not None:
                        for k3, v3 in sub.items():
                            out[k3] = out.get(k3, 0) + v * v3
                        continue
                if k2 in defs and k2 not in multi:
                    sub = lin(defs[k2], depth + 1)
                    if sub is not None:
                        for k3, v3 in sub.items():
                            out[k3] = out.get(k3, 0) + v * v3
                        continue
                out[k2] = out.get(k2, 0) + v
            return {k2: v for k2, v in out.items() if v != 0 or k2 == ""}
        allocs = []
        for (b, i, r, c) in fn.calls():
            if c.get("callee") not in ("malloc", "realloc", "calloc") or not c.get("args"):
                continue
            if c["callee"] == "calloc" and len(c["args"]) == 2:
                cnt = c["args"][0]
            else:
                cnt = _count_of_size(c["args"][-1])
                if cnt is None:
                    cnt = c["args"][-1]        # byte buffers: the size is the count
            allocs.append((c, lin(cnt), cnt))
        # where each allocation's result goes: directly into a path, or into a local that is then stored into a path
        alloc_dest = {}
        for (b, i, r, x) in fn.eval_sites():
            pairs = []
            if x.get("k") == "asg" and x.get("op") == "=":
                pairs.append((path(strip(x.get("lhs"))), x.get("rhs")))
            elif x.get("k") == "decl":
                pairs.extend((v["name"], v.get("init")) for v in x.get("vars", []) if v.get("init") is not None)
            for tgt, rhs in pairs:
                if not tgt or rhs is None:
                    continue
                for y in walk(rhs):
                    if y.get("k") == "call" and y.get("callee") in ("malloc", "realloc", "calloc"):
                        alloc_dest.setdefault(y.get("id"), set()).add(tgt)
        changed = True
        while changed:
            changed = False
            for (b, i, r, x) in fn.eval_sites("asg"):
                if x.get("op") != "=":
                    continue
                tgt, src = path(strip(x.get("lhs"))), path(strip(x.get("rhs")))
                if tgt and src:
                    for cid, ds in alloc_dest.items():
                        if src in ds and tgt not in ds:
                            ds.add(tgt)
                            changed = True
        all_allocs = allocs
        for (b, i, a, lp) in stores:
            n += 1
            use_site[0] = (b.id, i)
            want = lin(a.get("rhs"))
            use_site[0] = None
            key = "%s:L%s:%s" % (fn.name, a.get("l"), lp)
            owner = re.sub(r"(->|\.)capacity$", "", lp)
            allocs = [t for t in all_allocs if any(d.startswith(owner + "->") or d.startswith(owner + ".")
                                                   for d in alloc_dest.get(t[0].get("id"), ()))]
            if not allocs:
                rule.ok(key, "no block allocated here is stored into `%s`: the capacity describes a block handed in by the caller" % owner)
                continue
            if want is None:
                rule.unproved(key, "capacity expression `%s` is not linear" % show(a.get("rhs"))[:60])
                continue
            match = [c for (c, lf, cnt) in allocs if lf is not None and lf == want]
            smaller = [c for (c, lf, cnt) in allocs if lf is not None and lf != want
                       and all(lf.get(k2, 0) == want.get(k2, 0) for k2 in set(lf) | set(want) if k2) and want.get("", 0) <= lf.get("", 0)]
            # every allocation that can be the last one before this store must agree with it (a retry with another size)
            okids = {c.get("id") for c in match + smaller}
            call_block = {}
            for (b3, i3, r3, c3) in fn.calls():
                call_block[c3.get("id")] = b3.id
            others = {call_block.get(c.get("id")) for (c, lf, cnt) in allocs} - {None}
            stray = []
            for (c, lf, cnt) in allocs:
                if c.get("id") in okids or lf is None:
                    continue
                cb_ = call_block.get(c.get("id"))
                if cb_ is None:
                    continue
                if b.id in (cfgq.reach(fn, [cb_], others - {cb_}) | {cb_}):
                    stray.append((c, cnt))
            if (match or smaller) and stray:
                c, cnt = stray[0]
                rule.violation(fn.file, fn.name, a.get("l"), "capacity-not-last-allocation:%s" % fn.name,
                               "`%s = %s` (L%s) can follow the allocation at L%s, which asked for `%s` elements: after that (re)try "
                               "the block is smaller than the capacity recorded, and later writes that trust it overrun the block"
                               % (lp, show(a.get("rhs"))[:40], a.get("l"), c.get("l"), show(cnt)[:40]))
                continue
            if match or smaller:
                rule.ok(key, "equals the element count of the allocation at L%s" % (match or smaller)[0].get("l"))
            else:
                rule.violation(fn.file, fn.name, a.get("l"), "capacity-not-allocation-count:%s" % fn.name,
                               "`%s = %s` (L%s) is not the element count of any block this function allocates (%s): when the stored "
                               "capacity exceeds the block, later insertions that trust it write past the allocation"
                               % (lp, show(a.get("rhs"))[:50], a.get("l"),
                                  "; ".join("L%s: %s" % (c.get("l"), show(cnt)[:40]) for (c, lf, cnt) in allocs)))
    return n


INTEGRAL = re.compile(r"^(unsigned |signed )?(size_t|ssize_t|int|long|short|int32_t|uint32_t|int64_t|unsigned)( int)?$")


def clean_resets_bounds(prog, rule):
    """A `*_clean` function that releases an indexed block must also leave the counters that bound it at zero: a field F of the
    same structure is such a counter when some element access `....P[... F]` indexes the block P by it, or when it is compared
    with such a field (capacity against size).  A failure handler may keep the cleaned object and later code walks it again
    by those counters.  Decided with the A1 engine: the value of p->F at every exit is 0."""
    from .interp import Interp
    n = 0
    # which (pointer field, counter field) pairs exist, per record
    bounds = {}
    for fn in prog.all_functions():
        for (b, i, r, x) in fn.eval_sites("index"):
            bp = path(strip(x.get("base"))) or ""
            pf = re.split(r"->|\.", bp)[-1] if ("->" in bp or "." in bp) else None
            if not pf:
                continue
            for y in walk(x.get("idx")):
                yp = path(y) if y.get("k") == "member" else None
                if yp:
                    bounds.setdefault(pf, set()).add(re.split(r"->|\.", yp)[-1])
    for fn in prog.all_functions():
        for (b, i, r, x) in fn.eval_sites("bin"):
            if x.get("op") not in ("<", "<=", ">", ">=", "=="):
                continue
            lp, rp = path(strip(x.get("lhs"))), path(strip(x.get("rhs")))
            if lp and rp and ("->" in lp or "." in lp) and ("->" in rp or "." in rp):
                lf, rf = re.split(r"->|\.", lp)[-1], re.split(r"->|\.", rp)[-1]
                for pf, fs in bounds.items():
                    if lf in fs and rf not in fs and lp[:-len(lf)] == rp[:-len(rf)]:
                        fs.add(rf)
                    elif rf in fs and lf not in fs and lp[:-len(lf)] == rp[:-len(rf)]:
                        fs.add(lf)
    for fn in prog.all_functions():
        if not re.search(r"_clean$", fn.name) or not fn.params:
            continue
        p0 = fn.params[0]
        m = re.match(r"^struct (\w+) \*$", p0.get("t", "").strip())
        rec = prog.records.get(m.group(1)) if m else None
        if not rec:
            continue
        integral = {f["name"] for f in rec.get("fields", []) if INTEGRAL.match(f.get("t", "").strip())}
        unsigned = {f["name"] for f in rec.get("fields", []) if f.get("t", "").strip() in ("size_t", "unsigned", "unsigned int", "uint32_t")}
        freed = set()
        for (b, i, r, c) in fn.calls_to("free"):
            ap = path(strip(c["args"][0])) if c.get("args") else None
            if ap and ap.startswith(p0["name"] + "->") and "[" not in ap:
                freed.add(ap.split("->", 1)[1])
        frees_self = any(c.get("args") and path(strip(c["args"][0])) == p0["name"] for (b, i, r, c) in fn.calls_to("free"))
        for pf in sorted(freed):
            for cf in sorted(bounds.get(pf, set()) & integral):
                n += 1
                key = "%s:%s bounds %s" % (fn.name, cf, pf)
                if frees_self:
                    rule.ok(key, "the object itself is freed")
                    continue
                tp = "%s->%s" % (p0["name"], cf)
                seen = []

                class _I(Interp):
                    def clobbered_by_call(self, st, node):
                        # a callee that is handed neither the object nor the address of one of its fields cannot write its
                        # counters (free(p->block), the release of an element)
                        reach = False
                        for a in node.get("args", []):
                            for y in walk(a):
                                if y.get("k") == "ref" and y.get("name") == p0["name"]:
                                    par = strip(a)
                                    if path(par) == p0["name"] or (isinstance(par, dict) and par.get("k") == "un" and par.get("op") == "&"):
                                        reach = True
                        out = super().clobbered_by_call(st, node)
                        return out if reach else [q for q in out if q != tp]

                    def on_return(self, st, node, av):
                        seen.append(st.sigma.get(tp))

                    def on_fall_off(self, st):
                        seen.append(st.sigma.get(tp))
                it = _I(prog, fn)
                it.track_also([tp])
                it.run()
                if not seen:
                    rule.unproved(key, "no exit state observed")
                    continue

                def zero(av):
                    if av is None:
                        return False
                    if av.is_const():
                        return av.value() == 0
                    return cf in unsigned and av.hi is not None and av.hi <= 0
                if all(zero(v) for v in seen):
                    rule.ok(key, "`%s` is 0 at every exit (%d exit states)" % (tp, len(seen)))
                else:
                    rule.violation(fn.file, fn.name, fn.line, "clean-keeps-count:%s:%s" % (fn.name, cf),
                                   "%s releases %s->%s but can return with %s->%s not reset to 0: the object stays alive (failure "
                                   "handlers keep it, e.g. the target of an in-place copy), and the next walk over %s by that count "
                                   "reads freed memory" % (fn.name, p0["name"], pf, p0["name"], cf, pf))
    return n


def run_counters(prog, rule, units=("parser.c",)):
    """A counter of *consecutive* occurrences of a character (incremented where the scanned character equals it, and compared
    with a threshold of two or more) must be reset by every other character: from the failing edge of the equality test no
    path may come round to the test again without passing `counter = 0`.  Otherwise occurrences separated by other characters
    (a line terminator, say) are counted as one run.  Returns the number of counters judged."""
    n = 0
    for fn in prog.all_functions():
        if units and fn.unit not in units:
            continue
        locals_ = {l["name"] for l in fn.locals}
        incs = {}
        for (b, i, r, x) in fn.eval_sites():
            v = None
            if x.get("k") == "un" and x.get("op") in ("pre++", "post++"):
                v = path(strip(x.get("e")))
            elif x.get("k") == "asg" and x.get("op") == "+=" and const(x.get("rhs")) == 1:
                v = path(strip(x.get("lhs")))
            if v in locals_:
                incs.setdefault(v, []).append((b, i, x))
        for v, sites in sorted(incs.items()):
            # compared with a threshold >= 2 ?
            thr = None
            for (b, i, r, x) in fn.eval_sites("bin"):
                if x.get("op") in (">=", ">", "==") :
                    for side, other in (("lhs", "rhs"), ("rhs", "lhs")):
                        y = strip(x.get(side))
                        if isinstance(y, dict) and (path(y) == v or (y.get("k") == "un" and y.get("op") in ("pre++", "post++") and path(strip(y.get("e"))) == v)):
                            c = const(x.get(other))
                            if c is not None and c >= 2:
                                thr = c
            if thr is None:
                continue
            resets = {b.id for (b, i, r, a) in fn.eval_sites("asg") if path(strip(a.get("lhs"))) == v and a.get("op") == "=" and const(a.get("rhs")) == 0}
            if not resets:
                continue
            for (ib, ii, ix) in sites:
                # the equality test on a scanned character whose true edge guards the increment
                guard = None
                for tb in fn.blocks.values():
                    if len(tb.succs) != 2 or tb.succs[0] is None:
                        continue
                    c = cfgq.cond_of(fn, tb)
                    cs = strip(c) if c is not None else None
                    if not (isinstance(cs, dict) and cs.get("k") == "bin" and cs.get("op") == "=="):
                        continue
                    if ib.id in cfgq.reach(fn, [tb.succs[0]], {tb.id}) | {tb.succs[0]} and \
                            (tb.succs[1] is None or ib.id not in (cfgq.reach(fn, [tb.succs[1]], {tb.id}) | {tb.succs[1]})):
                        if guard is None or tb.id in cfgq.reach(fn, [guard.succs[0]], {guard.id}):
                            guard = tb
                if guard is None or guard.succs[1] is None:
                    continue
                n += 1
                key = "%s:%s (run of `%s`, threshold %d)" % (fn.name, v, show(strip(cfgq.cond_of(fn, guard)))[:30], thr)
                free = cfgq.reach(fn, [guard.succs[1]], resets | {ib.id}) | {guard.succs[1]}
                if guard.succs[1] in resets:
                    free = set()
                if guard.id in free:
                    rule.violation(fn.file, fn.name, guard.term.get("l"), "run-counter-not-reset:%s:%s" % (fn.name, v),
                                   "`%s` counts consecutive characters satisfying `%s` (L%s) up to %d, but a character that fails the "
                                   "test can reach the next test without `%s = 0`: occurrences separated by such characters are "
                                   "counted as one run" % (v, show(strip(cfgq.cond_of(fn, guard)))[:40], guard.term.get("l"), thr, v))
                else:
                    rule.ok(key, "reset on every path from the failed test to the next character")
    return n


def stale_state_copies(prog, rule, unit, field, describe, callbacks_clobber=True):
    """Locals that hold a value computed from the mutable state field `field` (e.g. the writer's last_column) must not be read
    after a call that may change the field, unless they were assigned again in between (from the field, or from values that
    are not themselves stale - the writer's `last_column = 0` after a successful write_newline()).  Forward may-dataflow per
    function, over all functions of `unit`; the set of calls that may change the field is the transitive closure of the
    functions that store to it.  Returns the number of derived locals examined."""
    def mentions_field(e):
        """the value of e depends on the field (mentions inside the argument list of a call do not count: the call's result
        is the callee's business)"""
        st = [e]
        while st:
            x = st.pop()
            if not isinstance(x, dict):
                continue
            if x.get("k") == "member" and x.get("name") == field:
                return True
            if x.get("k") == "call":
                continue
            for k2 in ("e", "lhs", "rhs", "c", "then", "else", "base", "idx"):
                if isinstance(x.get(k2), dict):
                    st.append(x[k2])
            for k2 in ("kids", "elems"):
                st.extend(y for y in (x.get(k2) or []) if isinstance(y, dict))
        return False
    writers = set()
    for f in prog.all_functions():
        for (b, i, r, a) in f.eval_sites("asg"):
            if (path(strip(a.get("lhs"))) or "").endswith(field) and ("->" in (path(strip(a.get("lhs"))) or "") or "." in (path(strip(a.get("lhs"))) or "")):
                writers.add(f.name)
    changed = True
    while changed:
        changed = False
        for f in prog.all_functions():
            if f.name not in writers and prog.callees(f) & writers:
                writers.add(f.name)
                changed = True
    n = 0
    for fn in prog.all_functions():
        if fn.unit != unit:
            continue
        locals_ = {l["name"] for l in fn.locals}
        D = set()
        for (b, i, r, x) in fn.eval_sites():
            if x.get("k") == "decl":
                for v in x.get("vars", []):
                    if v.get("init") is not None and mentions_field(v["init"]):
                        D.add(v["name"])
            elif x.get("k") == "asg" and x.get("op") == "=":
                lp = path(strip(x.get("lhs")))
                if lp in locals_ and mentions_field(x.get("rhs")):
                    D.add(lp)
        if not D:
            continue
        IN = {b: None for b in fn.blocks}
        IN[fn.entry] = frozenset()
        reports = {}

        def transfer(bid, state, record):
            st = set(state)
            for r in fn.blocks[bid].roots:
                evs = walk_eval(r)
                lhs_ids = set()
                for x in evs:
                    if x.get("k") == "asg" and x.get("op") == "=":
                        l = strip(x.get("lhs"))
                        if isinstance(l, dict) and l.get("k") == "ref":
                            lhs_ids.add(l.get("id"))
                for x in evs:
                    k = x.get("k")
                    if k == "ref" and x.get("name") in st and x.get("id") not in lhs_ids and x.get("dk") == "local":
                        if record:
                            reports.setdefault(x["name"], x)
                    elif k == "call":
                        c = x.get("callee")
                        if c in writers or (callbacks_clobber and c is None and x.get("fn") is not None):
                            st |= D
                    elif k == "asg":
                        lp = path(strip(x.get("lhs")))
                        if lp and lp.endswith(field) and lp not in locals_:
                            st |= D             # the field itself is stored: copies made before are out of date
                        elif lp in D and x.get("op") == "=":
                            if any(y.get("k") == "ref" and y.get("name") in st and y.get("name") != lp for y in walk(x.get("rhs"))):
                                st.add(lp)
                            else:
                                st.discard(lp)
                    elif k == "decl":
                        for v in x.get("vars", []):
                            if v["name"] in D:
                                st.discard(v["name"])
            return frozenset(st)
        work = [fn.entry]
        while work:
            b = work.pop()
            out = transfer(b, IN[b], False)
            for s_ in fn.blocks[b].succs:
                if s_ is None:
                    continue
                new = out if IN[s_] is None else (IN[s_] | out)
                if new != IN[s_]:
                    IN[s_] = new
                    work.append(s_)
        for b in fn.blocks:
            if IN[b] is not None:
                transfer(b, IN[b], True)
        for name in sorted(D):
            n += 1
            if name in reports:
                x = reports[name]
                rule.violation(fn.file, fn.name, x.get("l"), "stale-copy:%s:%s" % (fn.name, name),
                               "`%s` was computed from %s before a call that may change it (%s) and is read again at L%s without "
                               "having been recomputed: %s" % (name, field, ", ".join(sorted(prog.callees(fn) & writers))[:120], x.get("l"), describe))
            else:
                rule.ok("%s:%s" % (fn.name, name), "recomputed (or reset) after every call that may change %s" % field)
    return n


def hash_iter_lookahead(prog, rule):
    """HASH_ITER(hh, head, el, tmp) keeps the next element in `tmp` so that the body may delete `el`; the step is `el = tmp`.
    Anything in the loop body that stores to `tmp` (an assignment, a HASH_FIND whose output is `tmp`, its address handed to a
    callee) makes the iteration continue from the wrong element or stop early.  Returns the number of iterations examined."""
    from . import loops
    n = 0
    for fn in prog.all_functions():
        iters = {}
        for (b, i, r, x) in fn.eval_sites("asg"):
            ms = x.get("ms") or []
            if not ms or ms[0] != "HASH_ITER" or x.get("op") != "=":
                continue
            lp, rp = path(strip(x.get("lhs"))), path(strip(x.get("rhs")))
            if lp and rp and re.match(r"^\w+$", lp) and re.match(r"^\w+$", rp):
                iters[(x.get("l"), lp, rp)] = b.id          # the step `el = tmp`
        if not iters:
            continue
        lps = loops.natural_loops(fn)
        for (line, el, tmp), step_block in sorted(iters.items()):
            cands = [lp_ for lp_ in lps if step_block in lp_.body]
            if not cands:
                continue
            lp_ = min(cands, key=lambda z: len(z.body))
            n += 1
            bad = None
            for bid in lp_.body:
                for r in fn.blocks[bid].roots:
                    for x in walk_eval(r):
                        own = (x.get("ms") or [None])[0] == "HASH_ITER" and x.get("l") == line
                        if own:
                            continue
                        if x.get("k") == "asg" and path(strip(x.get("lhs"))) == tmp:
                            bad = (x, "is assigned" + (" by %s" % x["ms"][0] if x.get("ms") else ""))
                        elif x.get("k") == "un" and x.get("op") == "&" and path(strip(x.get("e"))) == tmp and \
                                not ((x.get("ms") or [None])[0] == "HASH_ITER"):
                            bad = (x, "has its address taken")
                        elif x.get("k") == "un" and x.get("op") in ("pre++", "post++", "pre--", "post--") and path(strip(x.get("e"))) == tmp:
                            bad = (x, "is modified")
            key = "%s:L%s:HASH_ITER(%s, %s)" % (fn.name, line, el, tmp)
            if bad:
                rule.violation(fn.file, fn.name, bad[0].get("l"), "hash-iter-lookahead-written:%s:%s" % (fn.name, tmp),
                               "`%s`, the look-ahead variable of the HASH_ITER at L%s, %s at L%s inside the loop body: the step "
                               "`%s = %s` then continues from that value - the iteration skips the remaining entries or ends early"
                               % (tmp, line, bad[1], bad[0].get("l"), el, tmp))
            else:
                rule.ok(key, "the body does not write the look-ahead variable")
    return n


_UNSIGNED_T = re.compile(r"^(const )?(unsigned\b.*|UChar|UChar32|size_t|uint\d+_t|u_?int\d*|_Bool|cif_kind_tp|enum .*)$")


def signed_index_lower_bound(prog, rule, units=("parser.c", "utils.c", "ciffile.c")):
    """An element access `A[i]` into an array of fixed size with an index variable of a signed type needs more than the upper
    bound test: every value the variable can have been given is non-negative by construction (a non-negative constant, a
    value of unsigned type, its own increment), or a test `i >= 0` dominates the access.  `int uc = *p` with p a `char *` is
    the classic slip: bytes from 0x80 up are negative and pass `uc < N`."""
    n = 0
    for fn in prog.all_functions():
        if units and fn.unit not in units:
            continue
        for (b, i, r, x) in fn.eval_sites("index"):
            bt = (strip(x.get("base")) or {}).get("t", "") or ""
            if not re.search(r"\[\d+\]$", bt.strip()):
                continue
            ix = strip(x.get("idx"))
            if not isinstance(ix, dict) or ix.get("k") != "ref" or const(ix) is not None:
                continue
            t = (ix.get("t") or "").strip()
            if _UNSIGNED_T.match(t) or not re.match(r"^(const )?(signed )?(int|char|short|long|ssize_t|int\d+_t)\b", t):
                continue
            var = ix["name"]
            did = ix.get("did")
            n += 1
            key = "%s:L%s:%s[%s]" % (fn.name, x.get("l"), (path(strip(x.get("base"))) or "array")[-24:], var)
            defs = []
            for (b2, i2, r2, y) in fn.eval_sites():
                if y.get("k") == "decl":
                    for v in y.get("vars", []):
                        # same declaration (two blocks may each declare a local of this name)
                        if v["name"] == var and v.get("init") is not None and (did is None or v.get("did") in (None, did)):
                            defs.append(v["init"])
                elif y.get("k") == "asg" and path(strip(y.get("lhs"))) == var and \
                        (did is None or strip(y.get("lhs")).get("did") in (None, did)):
                    if y.get("op") == "=":
                        defs.append(y.get("rhs"))
                    elif y.get("op") in ("+=",) and const(y.get("rhs")) is not None and const(y.get("rhs")) >= 0:
                        pass
                    else:
                        defs.append(y)

            def nonneg(e, depth=0):
                e0 = e
                e = strip(e)
                if not isinstance(e, dict) or depth > 4:
                    return False
                c = const(e)
                if c is not None:
                    return c >= 0
                # a conversion to an unsigned type anywhere in the chain of casts
                cc = e0
                while isinstance(cc, dict) and cc.get("k") == "cast":
                    if _UNSIGNED_T.match((cc.get("t") or "").strip()):
                        return True
                    cc = cc.get("e")
                if _UNSIGNED_T.match((e.get("t") or "").strip()):
                    return True
                if e.get("k") == "cond":
                    return nonneg(e.get("then"), depth + 1) and nonneg(e.get("else"), depth + 1)
                if e.get("k") == "bin" and e.get("op") in ("+", "*", "/", "%", "&", ">>"):
                    if e["op"] == "&":
                        return nonneg(e.get("lhs"), depth + 1) or nonneg(e.get("rhs"), depth + 1)
                    return nonneg(e.get("lhs"), depth + 1) and nonneg(e.get("rhs"), depth + 1)
                if e.get("k") == "ref" and e.get("name") == var:
                    return True
                return False
            bad = [d for d in defs if not nonneg(d)]
            # a negative starting constant made up for by an increment that every path to the access passes (`off = -1` ...
            # `off += 1; a[off]`)
            if bad and all(const(d) is not None for d in bad):
                need = -min(const(d) for d in bad)
                incs = []
                for (b2, i2, r2, y) in fn.eval_sites():
                    if y.get("k") == "asg" and y.get("op") == "+=" and path(strip(y.get("lhs"))) == var and (const(y.get("rhs")) or 0) >= need:
                        incs.append((b2.id, i2))
                    elif y.get("k") == "un" and y.get("op") in ("pre++", "post++") and path(strip(y.get("e"))) == var and need <= 1:
                        incs.append((b2.id, i2))
                if incs and cfgq.must_precede(fn, (b.id, i), incs):
                    rule.ok(key, "starts at %d and is incremented before every access" % -need)
                    continue
            if not bad and defs:
                rule.ok(key, "every value given to `%s` is non-negative by construction (%d definitions)" % (var, len(defs)))
                continue
            # a dominating lower-bound test

            def lower(cnd):
                t2 = cfgq.cmp_test(cnd, lambda e: path(strip(e)) == var)
                if t2 is None:
                    return None
                op, c = t2
                if op == ">=" and c >= 0 or op == ">" and c >= -1:
                    return "true"
                if op == "<" and c <= 0 or op == "<=" and c <= -1:
                    return "false"
                return None
            ge = cfgq.guard_edges(fn, lower)
            if ge and cfgq.must_pass_edge(fn, b.id, ge):
                rule.ok(key, "dominated by a test that `%s` is not negative" % var)
            else:
                src = show(bad[0])[:40] if bad else "a parameter or an unknown value"
                rule.violation(fn.file, fn.name, x.get("l"), "signed-index-no-lower-bound:%s:%s" % (fn.name, var),
                               "`%s` (type %s) indexes %s at L%s; it can hold `%s`, which may be negative, and no test for "
                               "`%s >= 0` dominates the access (an upper-bound test alone lets negative values through)"
                               % (var, t, (path(strip(x.get("base"))) or "the array"), x.get("l"), src, var))
    return n



def wide_copy_sizes(prog, rule):
    """memcpy / memmove / memset count bytes; ICU's u_memcpy / u_memmove count UChars.  A call of the byte family whose destination
    points to objects wider than a byte must have a size argument built with sizeof (else it moves only a fraction of the
    objects it names); a call of the UChar family must not multiply by sizeof(UChar)."""
    n = 0
    byte_like = ("void", "char", "unsigned char", "signed char", "uint8_t", "int8_t")
    for fn in prog.all_functions():
        for (b, i, r, c) in fn.calls():
            cal = c.get("callee")
            if cal not in ("memcpy", "memmove", "memset", "u_memcpy", "u_memmove", "u_memset"):
                continue
            args = c.get("args", [])
            if len(args) < 3:
                continue
            n += 1
            key = "%s:%s@L%s" % (fn.name, cal, c.get("l"))
            has_sizeof = any(isinstance(x, dict) and x.get("k") == "sizeof" for x in walk(args[2]))
            if cal.startswith("u_"):
                if has_sizeof:
                    rule.violation(fn.file, fn.name, c.get("l"), "uchar-count-in-bytes:%s:%s" % (fn.name, cal),
                                   "%s counts UChars, but its count `%s` is multiplied by a sizeof: twice as many are moved"
                                   % (cal, show(args[2])[:60]))
                else:
                    rule.ok(key, "count in UChars")
                continue
            t = (strip(args[0]).get("t") or "") if isinstance(strip(args[0]), dict) else ""
            pointee = t.replace("const", "").replace("*", " ").strip() if t.count("*") == 1 else ("pointer" if t.count("*") > 1 else "")
            if not pointee or pointee in byte_like:
                rule.ok(key, "byte-sized destination elements")
            elif has_sizeof:
                rule.ok(key, "size built with sizeof")
            else:
                # a size held in a local computed with sizeof
                sz = strip(args[2])
                okv = False
                if isinstance(sz, dict) and sz.get("k") == "ref":
                    from .writerrules import _defs_of
                    defs = _defs_of(fn, sz.get("name"))
                    okv = bool(defs) and all(any(isinstance(x, dict) and x.get("k") == "sizeof" for x in walk(d)) for d in defs)
                if okv:
                    rule.ok(key, "size held in a local computed with sizeof")
                else:
                    rule.violation(fn.file, fn.name, c.get("l"), "wide-copy-size-not-in-bytes:%s:%s" % (fn.name, cal),
                                   "%s moves bytes, its destination `%s` points to `%s` objects, and the size `%s` is not built with "
                                   "sizeof: only a fraction of the objects is moved" % (cal, show(args[0])[:40], pointee, show(args[2])[:60]))
    return n


def free_after_transfer(prog, rule):
    """After `X->f = p` (p a local pointer) the object p points to belongs to X.  A later free(p) on a path where neither p nor
    X->f was re-assigned is right only if X itself is being thrown away on that path (its shell is released too, the usual
    clean-up ladder of a constructor); if X stays alive - an entry that was found in a table, an object of the caller - X->f
    dangles and the block is released a second time when X is torn down.
    Not judged: stores and frees inside the uthash and DESERIALIZE macro families (own rules), and X a structure local to
    the function (it dies with the call)."""
    n = 0
    SKIP_MS = ("HASH_ADD", "HASH_ADD_KEYPTR", "HASH_MAKE_TABLE", "DESERIALIZE", "DESERIALIZE_USTRING", "DESERIALIZE_CHAR")
    releasers = re.compile(r"^(free|cif_\w+_free|cif_value_free)$")
    for fn in prog.all_functions():
        local_structs = {v["name"] for v in fn.locals if "*" not in v.get("t", "")}
        local_names = {v["name"] for v in fn.locals} | {p["name"] for p in fn.params}
        stores = []
        for (b, i, r, x) in fn.eval_sites("asg"):
            if x.get("op") != "=" or set(x.get("ms") or []) & set(SKIP_MS) or any(m.startswith("DESERIALIZE") or m.startswith("HASH_") for m in (x.get("ms") or [])):
                continue
            l, rr = strip(x.get("lhs")), strip(x.get("rhs"))
            lp = path(l)
            rp = path(rr) if isinstance(rr, dict) else None
            if not lp or not rp or rp not in local_names or "*" not in (rr.get("t") or ""):
                continue
            if "->" not in lp and "." not in lp:
                continue
            root = re.match(r"[\(\*&]*(\w+)", lp).group(1)
            if root in local_structs:
                continue
            stores.append((b, i, x, lp, rp, root))
        for (b, i, x, lp, rp, root) in stores:
            barrier = set()
            for (b2, i2, r2, y) in fn.eval_sites("asg"):
                p2 = path(strip(y.get("lhs")))
                if p2 in (rp, lp) and y.get("id") != x.get("id"):
                    barrier.add(b2.id)
            after = cfgq.reach(fn, [b.id], barrier_blocks=barrier)
            root_rel = [(b4.id, i4) for (b4, i4, r4, c4) in fn.calls() if c4.get("callee") and releasers.match(c4["callee"])
                        and c4.get("args") and (path(strip(c4["args"][0])) == root
                                                or re.match(r"^[\(\*&]*%s(->|\.)as_value\)?$" % re.escape(root), show(c4["args"][0])))]
            frees = [(b3, i3, c) for (b3, i3, r3, c) in fn.calls_to("free")
                     if c.get("args") and path(strip(c["args"][0])) == rp
                     and not any(m.startswith("DESERIALIZE") or m.startswith("HASH_") for m in (c.get("ms") or []))
                     and ((b3.id in after and b3.id != b.id and b3.id not in barrier) or (b3.id == b.id and i3 > i))]
            if not frees:
                continue
            n += 1
            key = "%s:%s=%s@L%s" % (fn.name, lp, rp, x.get("l"))
            bad = None
            for (b3, i3, c) in frees:
                # X is thrown away: a release of X's root lies on every path from this free to the exit, or precedes it
                rel_blocks = {rb for (rb, ri) in root_rel}
                before = any((rb == b3.id and ri < i3) for (rb, ri) in root_rel) or \
                    any(rb in cfgq.reach(fn, [b.id], barrier_blocks=[b3.id]) and rb != b3.id for rb in rel_blocks)
                later = bool(rel_blocks) and fn.exit not in cfgq.reach(fn, [b3.id], barrier_blocks=rel_blocks - {b3.id}) \
                    or any((rb == b3.id and ri > i3) for (rb, ri) in root_rel)
                if not (before or later):
                    bad = c
                    break
            if bad is None:
                rule.ok(key, "the owner `%s` is released on the paths that free `%s`" % (root, rp))
            else:
                rule.violation(fn.file, fn.name, bad.get("l"), "freed-after-transfer:%s:%s" % (fn.name, lp),
                               "`%s` was stored into `%s` at L%s and is freed at L%s while `%s` stays alive (it is not released on that "
                               "path): the field dangles and the block is released again when the owner is torn down"
                               % (rp, lp, x.get("l"), bad.get("l"), root))
    return n


def destination_cleaned_before_source_read(prog, rule, units=("value.c", "map.c", "packet.c")):
    """A function that copies one value object onto an existing one must not clean the destination before it has finished
    reading the source: the documented setters copy a new value *onto* an existing member, and the new value may be a
    member of the very object being overwritten (cif_value_set_element_at(list, i, member of list[i])); cleaning first
    releases the source.  It also empties the destination when the copy then fails.
    Instances: (function, destination parameter, source parameter) with a cif_value_clean of an object rooted at the
    destination parameter; verdict: no read of the source parameter is reachable after the clean."""
    n = 0
    readers = ("cif_u_strdup", "strdup", "u_strcpy", "cif_value_clone", "cif_value_clone_list", "cif_value_clone_table",
               "cif_value_clone_numb", "memcpy")
    for fn in prog.all_functions():
        if fn.unit not in units:
            continue
        pnames0 = [p["name"] for p in fn.params if "cif_value_tp" in p.get("t", "") or "value_s" in p.get("t", "")]
        if len(pnames0) < 2:
            continue
        for (b, i, r, c) in fn.calls_to("cif_value_clean"):
            pnames = list(pnames0)
            if not c.get("args"):
                continue
            m = re.match(r"[\(\)\*& ]*(\w+)", show(c["args"][0]))
            dst = m.group(1) if m else None
            if dst is not None and dst not in pnames:
                # a local standing for the destination parameter (`target = *clone`)
                from .writerrules import _defs_of
                roots = set()
                for d0 in _defs_of(fn, dst):
                    for x in walk(d0):
                        if isinstance(x, dict) and x.get("k") == "ref" and x.get("name") in [p_["name"] for p_ in fn.params]:
                            roots.add(x["name"])
                if len(roots) == 1:
                    dst = next(iter(roots))
                    if dst not in pnames:
                        pnames = pnames + [dst]
            if dst not in pnames:
                continue
            after = cfgq.reach(fn, [b.id])
            for src in pnames:
                if src == dst:
                    continue
                n += 1
                key = "%s:clean(%s)@L%s vs %s" % (fn.name, dst, c.get("l"), src)
                late = None
                for (b2, i2, r2, x) in fn.eval_sites():
                    later = (b2.id in after and b2.id != b.id) or (b2.id == b.id and i2 > i)
                    if not later:
                        continue
                    if x.get("k") == "member" and (path(x) or "").startswith(src + "->"):
                        late = x
                        break
                    if x.get("k") == "call" and x.get("callee") in readers and any(
                            (path(strip(a)) or "").split("->")[0].lstrip("&(*") == src for a in x.get("args", [])):
                        late = x
                        break
                if late is None:
                    rule.ok(key, "the source is not read after the destination was cleaned")
                else:
                    rule.violation(fn.file, fn.name, c.get("l"), "destination-cleaned-before-source-read:%s" % fn.name,
                                   "`%s` is cleaned at L%s and `%s` is still read afterwards (L%s): when the source is a member of the "
                                   "destination - a list element replaced by one of its own members - it has been released by then, and "
                                   "a failing copy leaves the destination emptied" % (dst, c.get("l"), src, late.get("l")))
    return n
