"""Text of character values on its way into SQLite (C07).

The managed CIF is an SQLite database in UTF-8 (cif_create opens it without changing the encoding), the API's strings are
UTF-16, and the values' text is bound with sqlite3_bind_text16 into TEXT columns.  SQLite does not store such text
verbatim: a first code unit U+FEFF or U+FFFE is taken for a byte-order mark (dropped; U+FFFE also swaps the bytes of
everything after it), and when the text is transcoded back from UTF-8 the code points U+FFFE and U+FFFF come out as
U+FFFD.  Names and codes cannot contain these code units - the name validator refuses them - but the text of a character
value is whatever the caller put there.

Rule: every sqlite3_bind_text16 whose bound expression is the text of a character value (member `text` of the value's
`as_char` alternative) is reached only after a call that examined that value's characters (a validator from the frozen
list); otherwise the function that expands the bind is reported.  Everything else bound with sqlite3_bind_text16 is
listed with its classification (name / code / category / number text).
"""
from .facts import strip, walk, show
from .interp import path
from . import cfgq

# functions that look at every character of a string and refuse the code units SQLite does not keep
CHAR_VALIDATORS = ("cif_has_disallowed_chars", "cif_validate_cif11_characters", "cif_normalize", "cif_normalize_name",
                   "cif_normalize_item_name", "cif_is_valid_name")


def _is_char_text(e):
    e = strip(e)
    if not isinstance(e, dict) or e.get("k") != "member" or e.get("name") != "text":
        return False
    b = strip(e.get("base") or e.get("e") or {})
    return isinstance(b, dict) and b.get("k") == "member" and b.get("name") == "as_char"


def rule(prog, rule_):
    n = 0
    per_fn = {}
    for fn in prog.all_functions():
        for (b, i, r, c) in fn.calls_to("sqlite3_bind_text16"):
            args = c.get("args", [])
            if len(args) < 3:
                continue
            n += 1
            if _is_char_text(args[2]):
                per_fn.setdefault(fn.name, []).append((fn, b, i, c))
            else:
                rule_.info("%s:L%s:%s" % (fn.name, c.get("l"), show(args[2])[:40]), "not the text of a character value")
    for fname, sites in sorted(per_fn.items()):
        fn = sites[0][0]
        validated = []
        for (fn_, b, i, c) in sites:
            vals = [(vb.id, vi) for (vb, vi, vr, vc) in fn.calls() if vc.get("callee") in CHAR_VALIDATORS
                    and any(_is_char_text(x) for a in vc.get("args", []) for x in walk(a) if isinstance(x, dict))]
            validated.append(bool(vals) and cfgq.must_precede(fn, (b.id, i), vals))
        key = "%s:char-text-bound-as-utf16-text" % fname
        cols = sorted({show(c["args"][1])[:20] for (_, _, _, c) in sites})
        macro = sorted({m for (_, _, _, c) in sites for m in (c.get("ms") or []) if m.isupper()})
        if all(validated):
            rule_.ok(key, "%d binds, each after a validation of the value's characters" % len(sites))
        else:
            (fn_, b, i, c) = sites[0]
            rule_.violation(fn.file, fname, c.get("l"), "char-text-not-stored-verbatim:" + fname,
                            "the text of a character value is bound with sqlite3_bind_text16 (%s%s) into the UTF-8 "
                            "database without any check of its characters: SQLite drops a leading U+FEFF, takes a leading U+FFFE "
                            "for a byte-order mark and swaps the bytes of the rest, and returns every U+FFFE / U+FFFF as U+FFFD - "
                            "such a value is not read back as it was stored" % ("/".join(macro) or "direct", "" if cols is None else ""))
    return n
