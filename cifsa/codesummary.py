"""A2 summary: the set of CIF_* result codes a function may return (flow-insensitive over-approximation:
constants returned or assigned to returned variables, codes of callees whose result feeds a returned variable,
and codes passed in through `invalidity code` parameters that are returned)."""
from .facts import strip, const, walk, macro_name
from .interp import path


def code_of(n, names):
    n = strip(n)
    if not isinstance(n, dict):
        return None
    m = macro_name(n)
    c = const(n)
    if m in names and c is not None and c == names[m]:
        return m
    return None


class CodeSummary:
    def __init__(self, prog, code_names):
        """code_names: {macro name: value} of the result codes."""
        self.prog = prog
        self.names = code_names
        self.fns = {f.name: f for f in prog.all_functions()}
        self.info = {}
        for f in prog.all_functions():
            retvars, rets, assigns = set(), [], []
            for (b, i, r, n) in f.returns():
                e = n.get("e")
                if e is None:
                    continue
                rets.append(e)
                for x in walk(e):
                    if x.get("k") in ("ref", "member"):
                        pp = path(x)
                        if pp:
                            retvars.add(pp)
            for (b, i, r, n) in f.eval_sites():
                if n.get("k") == "asg" and n.get("op") == "=":
                    assigns.append((path(strip(n.get("lhs"))), n.get("rhs")))
                elif n.get("k") == "decl":
                    for v in n.get("vars", []):
                        if v.get("init") is not None:
                            assigns.append((v["name"], v["init"]))
            changed = True
            while changed:
                changed = False
                for l, rhs in assigns:
                    if l in retvars:
                        for x in walk(rhs):
                            if x.get("k") == "ref" and x.get("dk") in ("local", "parm") and x["name"] not in retvars:
                                retvars.add(x["name"])
                                changed = True
            self.info[f.name] = (retvars, rets, assigns)
        self.codes = {n: set() for n in self.fns}
        self.pcodes = {n: set() for n in self.fns}
        for n, (retvars, rets, assigns) in self.info.items():
            f = self.fns[n]
            for e in rets + [rhs for l, rhs in assigns if l in retvars]:
                for x in self._own_nodes(e):
                    c = code_of(x, self.names)
                    if c:
                        self.codes[n].add(c)
            for pp in f.params:
                if pp["name"] in retvars and pp["t"].strip() == "int":
                    self.pcodes[n].add(pp["name"])
        changed, rounds = True, 0
        while changed and rounds < 12:
            changed = False
            rounds += 1
            for n, (retvars, rets, assigns) in self.info.items():
                for e in rets + [rhs for l, rhs in assigns if l in retvars]:
                    for x in walk(e):
                        if x.get("k") != "call":
                            continue
                        callee = x.get("callee")
                        targets = [callee] if callee in self.fns else []
                        if not callee and x.get("fn") is not None and "normalizer" in (path(strip(x["fn"])) or ""):
                            targets = ["cif_normalize_item_name", "cif_normalize_table_index"]
                        for t in targets:
                            sc = self.site_codes(t, x)
                            if not sc <= self.codes[n]:
                                self.codes[n] |= sc
                                changed = True
                            g = self.fns[t]
                            for pn in self.pcodes.get(t, ()):
                                i = g.param_index(pn)
                                if i is not None and i < len(x.get("args", [])):
                                    a = strip(x["args"][i])
                                    if isinstance(a, dict) and a.get("k") == "ref" and a.get("dk") == "parm" and a["name"] not in self.pcodes[n]:
                                        self.pcodes[n].add(a["name"])
                                        changed = True

    @staticmethod
    def _own_nodes(e):
        """Nodes of an expression outside the argument lists of calls (arguments are the callee's business)."""
        out = []
        st = [e]
        while st:
            n = st.pop()
            if not isinstance(n, dict):
                continue
            out.append(n)
            if n.get("k") == "call":
                continue
            for k in ("e", "lhs", "rhs", "c", "then", "else", "base", "idx"):
                if isinstance(n.get(k), dict):
                    st.append(n[k])
            for k in ("kids", "elems"):
                for x in n.get(k, []) or []:
                    st.append(x)
        return out

    def site_codes(self, callee, call):
        out = set(self.codes.get(callee, set()))
        f = self.fns.get(callee)
        if f:
            for pn in self.pcodes.get(callee, ()):
                i = f.param_index(pn)
                if i is not None and i < len(call.get("args", [])):
                    c = code_of(call["args"][i], self.names)
                    if c:
                        out.add(c)
        return out
