"""Inlining of *new* static helper functions into their callers, on the extractor's JSON facts.

The rules of this directory were confirmed, instance by instance, on the functions of the pinned tree
(cifsa/known_functions.json lists them per unit).  The most frequent behaviour-preserving edit that hides a rule's
instances is the extraction of a few statements into a new `static` helper.  A static function that is not in the
snapshot is therefore inlined at its call sites before any rule runs, so that every rule sees the caller in the shape it
had before the extraction; a helper whose every call was inlined disappears from the program.  Functions of the snapshot
are never inlined: today's tree is analysed exactly as written.

Supported call positions (nothing but the call's own arguments is evaluated before the call):
    H(..);   x = H(..);   T x = H(..);   return H(..);   <cmp of (x = H(..)) or H(..) with a constant>, possibly negated,
as a statement of its own or as a branch condition.  Anything else is left as a call.

Mechanics: the caller's block is split at the statement; parameters become assignments `p__H = argument`; the helper's
blocks are copied with fresh block and node numbers and renamed locals; `return e` becomes `ret__H = e` followed by the edge
to the continuation; the call node is replaced by a reference to `ret__H`.  A parameter bound to an integer constant and
never assigned in the helper decides the branches that test it (the untaken edge is removed), and blocks that become
unreachable are dropped - `finish(it, 1)` inlines to the committing arm only."""
import copy
import json
import os

from .facts import walk, strip, const

KNOWN_PATH = os.path.join(os.path.dirname(os.path.abspath(__file__)), "known_functions.json")
MAX_BLOCKS = 400
_KID_KEYS = ("fn", "base", "e", "lhs", "rhs", "c", "then", "else", "idx", "of")
_KID_LISTS = ("args", "elems", "kids")


def known_functions():
    try:
        return {u: set(v) for u, v in json.load(open(KNOWN_PATH)).items()}
    except (OSError, ValueError):
        return None


def _all_nodes(fn):
    for b in fn["cfg"]["blocks"]:
        for r in b.get("roots", []):
            for n in walk(r):
                yield n
        t = b.get("term")
        if t and isinstance(t.get("full"), dict):
            for n in walk(t["full"]):
                yield n


def _calls_in(node):
    return [n for n in walk(node) if n.get("k") == "call"]


def _strip_casts(n):
    while isinstance(n, dict) and n.get("k") == "cast":
        n = n.get("e")
    return n


def _find_slot(root, hname):
    """-> (holder dict, key, call node) where holder[key] (possibly under casts) is the call to hname in a supported position"""
    def is_call(x):
        x = _strip_casts(x)
        return isinstance(x, dict) and x.get("k") == "call" and x.get("callee") == hname

    def value_slot(holder, key):
        """holder[key] is the call itself or `lhs = call`"""
        x = holder.get(key)
        cur_h, cur_k = holder, key
        while isinstance(x, dict) and x.get("k") == "cast":
            cur_h, cur_k, x = x, "e", x.get("e")
        if not isinstance(x, dict):
            return None
        if x.get("k") == "call" and x.get("callee") == hname:
            return cur_h, cur_k, x
        if x.get("k") == "asg" and x.get("op") == "=" and is_call(x.get("rhs")) and not _calls_in(x.get("lhs")):
            return value_slot(x, "rhs")
        return None
    k = root.get("k")
    if k == "call" and root.get("callee") == hname:
        return None, None, root
    if k in ("asg", "cast"):
        return value_slot({"root": root}, "root")
    if k == "decl":
        vs = root.get("vars", [])
        if len(vs) == 1 and vs[0].get("init") is not None:
            return value_slot(vs[0], "init")
        return None
    if k == "ret":
        return value_slot(root, "e") if root.get("e") is not None else None
    if k == "un" and root.get("op") == "!":
        return value_slot(root, "e")
    if k == "bin" and root.get("op") in ("==", "!=", "<", "<=", ">", ">="):
        for a, b in (("lhs", "rhs"), ("rhs", "lhs")):
            if const(root.get(b)) is not None:
                s = value_slot(root, a)
                if s:
                    return s
    return None


def _rename(node, names, suffix, id_off, did_off):
    for n in walk(node):
        if "id" in n and isinstance(n["id"], int) and n["id"] >= 0:
            n["id"] += id_off
        if "did" in n and isinstance(n["did"], int):
            n["did"] += did_off
        if n.get("k") == "ref" and n.get("dk") in ("local", "parm", "slocal") and n.get("name") in names:
            n["name"] = n["name"] + suffix
            n["dk"] = "local"
        if n.get("k") == "decl":
            for v in n.get("vars", []):
                if v.get("name") in names:
                    v["name"] = v["name"] + suffix
                if isinstance(v.get("did"), int):
                    v["did"] += did_off
        n.pop("_p", None)
        n.pop("_fx", None)


def _pure_path(a):
    """a constant, or an access path (variable, member, address-of / dereference of such, constant index) without effects"""
    a0 = _strip_casts(a)
    if not isinstance(a0, dict):
        return False
    if const(a0) is not None and a0.get("k") in ("int", "cast", "un", "ref"):
        return True
    k = a0.get("k")
    if k == "ref":
        return a0.get("dk") in ("local", "parm", "slocal", "global")
    if k == "member":
        return _pure_path(a0.get("base"))
    if k == "un" and a0.get("op") in ("&", "*"):
        return _pure_path(a0.get("e"))
    if k == "index":
        return _pure_path(a0.get("base")) and const(a0.get("idx")) is not None
    return False


def _subst(node, name, repl, nid):
    """replace every reference to local `name` in the tree by a fresh copy of `repl`"""
    if not isinstance(node, dict):
        return node
    if node.get("k") == "ref" and node.get("name") == name:
        c = copy.deepcopy(repl)
        for x in walk(c):
            if "id" in x:
                x["id"] = nid()
            x.pop("_p", None)
        if "id" in node:
            c["id"] = node["id"]        # a terminator may refer to this node as its condition
        if node.get("ext"):
            c["ext"] = True
        return c
    for kk in _KID_KEYS:
        if isinstance(node.get(kk), dict):
            node[kk] = _subst(node[kk], name, repl, nid)
    for kk in _KID_LISTS:
        if isinstance(node.get(kk), list):
            node[kk] = [_subst(x, name, repl, nid) for x in node[kk]]
    if node.get("k") == "decl":
        for v in node.get("vars", []):
            if isinstance(v.get("init"), dict):
                v["init"] = _subst(v["init"], name, repl, nid)
    node.pop("_p", None)
    return node


def _max_ids(fn):
    mid, mdid = 0, 0
    for n in _all_nodes(fn):
        if isinstance(n.get("id"), int):
            mid = max(mid, n["id"])
        if isinstance(n.get("did"), int):
            mdid = max(mdid, n["did"])
        if n.get("k") == "decl":
            for v in n.get("vars", []):
                if isinstance(v.get("did"), int):
                    mdid = max(mdid, v["did"])
    for p in fn.get("params", []):
        if isinstance(p.get("did"), int):
            mdid = max(mdid, p["did"])
    return mid, mdid


def _assigned_names(fn):
    out = set()
    for n in _all_nodes(fn):
        if n.get("k") == "asg":
            l = _strip_casts(n.get("lhs"))
            if isinstance(l, dict) and l.get("k") == "ref":
                out.add(l.get("name"))
        elif n.get("k") == "un" and n.get("op") in ("pre++", "pre--", "post++", "post--", "&"):
            e = _strip_casts(n.get("e"))
            if isinstance(e, dict) and e.get("k") == "ref":
                out.add(e.get("name"))
    return out


def _fold_const_branches(blocks, consts):
    """consts: {renamed param name: int}.  Remove the untaken edge of branches whose condition is decided by them."""
    def ev(e):
        e = _strip_casts(e)
        if not isinstance(e, dict):
            return None
        c = const(e)
        if c is not None:
            return c
        if e.get("k") == "ref" and e.get("name") in consts:
            return consts[e["name"]]
        if e.get("k") == "un" and e.get("op") == "!":
            v = ev(e.get("e"))
            return None if v is None else int(not v)
        if e.get("k") == "bin" and e.get("op") in ("==", "!=", "&&", "||", "<", ">", "<=", ">="):
            a, b = ev(e.get("lhs")), ev(e.get("rhs"))
            op = e["op"]
            if op == "&&" and (a == 0 or b == 0):
                return 0
            if op == "||" and ((a is not None and a != 0) or (b is not None and b != 0)):
                return 1
            if a is None or b is None:
                return None
            return int({"==": a == b, "!=": a != b, "&&": bool(a) and bool(b), "||": bool(a) or bool(b),
                        "<": a < b, ">": a > b, "<=": a <= b, ">=": a >= b}[op])
        return None
    nodes = {}
    for b in blocks:
        for r in b.get("roots", []):
            for n in walk(r):
                if "id" in n:
                    nodes[n["id"]] = n
    for b in blocks:
        t = b.get("term")
        if not t or t.get("cond") is None or len(b.get("succs", [])) != 2 or t.get("k") == "SwitchStmt":
            continue
        c = nodes.get(t["cond"])
        if c is None:
            continue
        v = ev(c)
        if v is None:
            continue
        if v:
            b["succs"][1] = None
        else:
            b["succs"][0] = None


def _inline_one(caller, helper, n_inst):
    """Inline one call of `helper` in `caller` (first supported site found).  Returns True if something was inlined."""
    hname = helper["name"]
    blocks = caller["cfg"]["blocks"]
    for b in blocks:
        for ri, root in enumerate(b.get("roots", [])):
            calls = [c for c in _calls_in(root) if c.get("callee") == hname]
            if not calls:
                continue
            slot = _find_slot(root, hname)
            if slot is None:
                continue
            holder, key, call = slot
            if len(call.get("args", [])) != len(helper.get("params", [])):
                continue
            if len(calls) != 1:
                continue
            # ---- build the copy
            mid, mdid = _max_ids(caller)
            id_off, did_off = mid + 1000, mdid + 100
            suffix = "__%s%d" % (hname, n_inst)
            hcopy = copy.deepcopy(helper)
            # static locals keep their names (one object however often the helper is inlined; tables are looked up by name)
            names = {p["name"] for p in hcopy.get("params", [])} | {l["name"] for l in hcopy.get("locals", []) if not l.get("static")}
            hblocks = hcopy["cfg"]["blocks"]
            base_bid = max(x["id"] for x in blocks) + 1
            bmap = {hb["id"]: base_bid + k for k, hb in enumerate(hblocks)}
            cont_id = base_bid + len(hblocks)
            hexit = hcopy["cfg"]["exit"]
            void = (hcopy.get("ret", "").strip() == "void")
            retvar = "ret" + suffix
            line = call.get("l")
            fresh = [id_off + 900000]

            def nid():
                fresh[0] += 1
                return fresh[0]
            for hb in hblocks:
                for r in hb.get("roots", []):
                    _rename(r, names, suffix, id_off, did_off)
                t = hb.get("term")
                if t:
                    if isinstance(t.get("cond"), int):
                        t["cond"] += id_off
                    if isinstance(t.get("full"), dict):
                        _rename(t["full"], names, suffix, id_off, did_off)
                new_roots = []
                for r in hb.get("roots", []):
                    if r.get("k") == "ret":
                        if r.get("e") is not None and not void:
                            new_roots.append({"k": "asg", "op": "=", "id": r.get("id"), "l": r.get("l"), "f": r.get("f"), "t": hcopy.get("ret"),
                                              "lhs": {"k": "ref", "dk": "local", "name": retvar, "id": nid(), "l": r.get("l"), "f": r.get("f"),
                                                      "t": hcopy.get("ret")},
                                              "rhs": r["e"], "ms": r.get("ms"), "txt": r.get("txt"), "inl": hname})
                        elif r.get("e") is not None:
                            new_roots.append(r["e"])
                    else:
                        new_roots.append(r)
                hb["roots"] = new_roots
                hb["id"] = bmap[hb["id"]]
                hb["succs"] = [None if s is None else (cont_id if s == hexit else bmap[s]) for s in hb.get("succs", [])]
            hentry = bmap[hcopy["cfg"]["entry"]]
            hblocks = [hb for hb in hblocks if hb["id"] != bmap[hexit]]
            # ---- parameter bindings
            binds = []
            consts = {}
            assigned = _assigned_names(helper)
            substituted = set()
            for p, a in zip(hcopy.get("params", []), call.get("args", [])):
                pn = p["name"] + suffix
                # a parameter the helper never assigns, bound to a side-effect-free access path of the caller, is replaced by
                # that path: `init(temp)` inlines to stores into `temp->f`, not into an alias of temp
                if p["name"] not in assigned and _pure_path(a):
                    for hb in hblocks:
                        hb["roots"] = [_subst(r, pn, a, nid) for r in hb.get("roots", [])]
                        t = hb.get("term")
                        if t and isinstance(t.get("full"), dict):
                            t["full"] = _subst(t["full"], pn, a, nid)
                    substituted.add(pn)
                    if const(a) is not None:
                        consts[pn] = const(a)
                    continue
                binds.append({"k": "asg", "op": "=", "id": nid(), "l": line, "f": call.get("f"), "t": p.get("t"), "inl": hname,
                              "lhs": {"k": "ref", "dk": "local", "name": pn, "id": nid(), "l": line, "f": call.get("f"), "t": p.get("t")},
                              "rhs": a})
                c = const(a)
                if c is not None and p["name"] not in assigned:
                    consts[pn] = c
            if consts:
                _fold_const_branches(hblocks, consts)
            # ---- split the caller's block
            before = b["roots"][:ri]
            after = b["roots"][ri + 1:]
            if holder is None:
                cont_roots = after                       # `H(..);` as a statement: nothing is left of it
            else:
                holder[key] = {"k": "ref", "dk": "local", "name": retvar, "id": nid(), "l": line, "f": call.get("f"), "t": hcopy.get("ret")}
                cont_roots = [root] + after
            cont = {"id": cont_id, "roots": cont_roots, "succs": b.get("succs", [])}
            if b.get("term") is not None:
                cont["term"] = b["term"]
                full = b["term"].get("full")
                if isinstance(full, dict):
                    # the copy of the controlling expression kept with the terminator holds the call as well
                    if full.get("k") == "call" and full.get("id") == call.get("id"):
                        b["term"]["full"] = {"k": "ref", "dk": "local", "name": retvar, "id": nid(), "l": line, "f": call.get("f"),
                                             "t": hcopy.get("ret")}
                    else:
                        for x in walk(full):
                            for kk in _KID_KEYS:
                                y = x.get(kk)
                                if isinstance(y, dict) and y.get("k") == "call" and y.get("id") == call.get("id"):
                                    x[kk] = {"k": "ref", "dk": "local", "name": retvar, "id": nid(), "l": line, "f": call.get("f"),
                                             "t": hcopy.get("ret")}
                            for kk in _KID_LISTS:
                                ys = x.get(kk)
                                if isinstance(ys, list):
                                    for j, y in enumerate(ys):
                                        if isinstance(y, dict) and y.get("k") == "call" and y.get("id") == call.get("id"):
                                            ys[j] = {"k": "ref", "dk": "local", "name": retvar, "id": nid(), "l": line,
                                                     "f": call.get("f"), "t": hcopy.get("ret")}
            b["roots"] = before + binds
            b["succs"] = [hentry]
            b.pop("term", None)
            blocks.extend(hblocks)
            blocks.append(cont)
            if caller["cfg"].get("exit") == b["id"]:
                pass
            # ---- locals
            caller.setdefault("locals", [])
            for p in hcopy.get("params", []):
                if p["name"] + suffix not in substituted:
                    caller["locals"].append({"name": p["name"] + suffix, "t": p.get("t")})
            for l in hcopy.get("locals", []):
                if l.get("static"):
                    if not any(x["name"] == l["name"] for x in caller["locals"]):
                        caller["locals"].append(dict(l))
                else:
                    caller["locals"].append(dict(l, name=l["name"] + suffix))
            if not void:
                caller["locals"].append({"name": retvar, "t": hcopy.get("ret")})
            _drop_unreachable(caller)
            caller["_inlined"] = True
            return True
    return False


def _renumber(fn):
    """Give the blocks post-order numbers again (clang's convention: the entry has the highest number, numbers fall along
    forward edges), so that analyses which read program order off the block numbers keep working after an inlining."""
    cfg = fn["cfg"]
    by = {b["id"]: b for b in cfg["blocks"]}
    order, seen = [], set()
    st = [(cfg["entry"], iter([x for x in by[cfg["entry"]].get("succs", []) if x is not None]))]
    seen.add(cfg["entry"])
    while st:
        node, it = st[-1]
        adv = False
        for s_ in it:
            if s_ not in seen and s_ in by:
                seen.add(s_)
                st.append((s_, iter([x for x in by[s_].get("succs", []) if x is not None])))
                adv = True
                break
        if not adv:
            order.append(node)
            st.pop()
    if cfg["exit"] not in seen:
        order.insert(0, cfg["exit"])
    else:
        order.remove(cfg["exit"])
        order.insert(0, cfg["exit"])
    newid = {old: k for k, old in enumerate(order)}
    blocks = []
    for old in order:
        b = by[old]
        b["id"] = newid[old]
        b["succs"] = [None if x is None or x not in newid else newid[x] for x in b.get("succs", [])]
        blocks.append(b)
    cfg["blocks"] = sorted(blocks, key=lambda b: b["id"])
    cfg["entry"] = newid[cfg["entry"]]
    cfg["exit"] = newid[cfg["exit"]]


def _drop_unreachable(fn):
    cfg = fn["cfg"]
    by = {b["id"]: b for b in cfg["blocks"]}
    seen = {cfg["entry"]}
    st = [cfg["entry"]]
    while st:
        x = st.pop()
        for s in by[x].get("succs", []):
            if s is not None and s not in seen:
                seen.add(s)
                st.append(s)
    seen.add(cfg["exit"])
    cfg["blocks"] = [b for b in cfg["blocks"] if b["id"] in seen]


def apply(units, known=None):
    """units: {unit name: raw facts}.  Mutates and returns units; returns the list of (unit, helper, n call sites inlined, kept)."""
    known = known if known is not None else known_functions()
    log = []
    if not known:
        return log
    for uname, u in units.items():
        if uname not in known:
            continue
        fns = u.get("functions", [])
        new = [f for f in fns if f.get("static") and f["name"] not in known[uname] and f.get("cfg")
               and len(f["cfg"]["blocks"]) <= MAX_BLOCKS]
        if not new:
            continue
        new_names = {f["name"] for f in new}
        # helpers that call themselves are left alone
        new = [f for f in new if not any(c.get("callee") == f["name"] for c in (n for n in _all_nodes(f) if n.get("k") == "call"))]
        # inline leaf-most helpers first: a new helper that calls another new helper gets that one inlined into itself before
        order = sorted(new, key=lambda f: sum(1 for n in _all_nodes(f) if n.get("k") == "call" and n.get("callee") in new_names))
        counts = {}
        for h in order:
            inst = 0
            for caller in fns:
                if caller is h or not caller.get("cfg"):
                    continue
                guard = 0
                while guard < 12 and _inline_one(caller, h, inst):
                    inst += 1
                    guard += 1
            counts[h["name"]] = inst
        for caller in fns:
            if caller.get("cfg") and caller.get("_inlined"):
                _renumber(caller)
                caller.pop("_inlined", None)
        # drop helpers nobody refers to any more
        for h in order:
            used = False
            for f in fns:
                if f is h or not f.get("cfg"):
                    continue
                for n in _all_nodes(f):
                    if (n.get("k") == "call" and n.get("callee") == h["name"]) or \
                            (n.get("k") == "ref" and n.get("dk") == "func" and n.get("name") == h["name"]):
                        used = True
                        break
                if used:
                    break
            if not used and counts.get(h["name"]):
                u["functions"] = [f for f in u["functions"] if f is not h]
                fns = u["functions"]
            log.append((uname, h["name"], counts.get(h["name"], 0), used))
    return log
