"""A1: status-sensitive typestate dataflow over a function's CFG.

Disjunctive domain: a set of configurations per block.  A configuration is
(sigma, ts, tmp):
  sigma : access path -> abstract integer (interval + exclusion set); pointers use 0 for NULL.
          Only *status variables* are tracked: paths that occur in a branch condition or a return
          expression (closed under copies), and only while they are live.
  ts    : rule-specific typestate (any hashable value)
  tmp   : values of sub-expressions evaluated in another CFG block (?:, &&, ||), keyed by node id,
          and known call results until the end of their block

Rules subclass Interp and override the hooks (call, assign, on_return, ...).
`unknown` (None) never prunes a path and never produces a report.
"""
import re

from .facts import const, strip, walk, walk_eval
from . import facts as _facts

CAP = 400


def path(n):
    """Cached access path of a node."""
    if not isinstance(n, dict):
        return None
    try:
        return n["_p"]
    except KeyError:
        p = _facts.path(n)
        n["_p"] = p
        return p


# ---------------------------------------------------------------- abstract integers
class AV(tuple):
    """(lo, hi, excl) ; lo/hi None = unbounded; excl = frozenset of excluded ints."""
    __slots__ = ()

    def __new__(cls, lo=None, hi=None, excl=frozenset()):
        return tuple.__new__(cls, (lo, hi, frozenset(excl)))

    lo = property(lambda s: s[0])
    hi = property(lambda s: s[1])
    excl = property(lambda s: s[2])

    def is_const(self):
        return self[0] is not None and self[0] == self[1]

    def value(self):
        return self[0] if self.is_const() else None

    def contains(self, c):
        lo, hi, ex = self
        if lo is not None and c < lo:
            return False
        if hi is not None and c > hi:
            return False
        return c not in ex

    def nonzero(self):
        return not self.contains(0)

    def positive(self):
        return self[0] is not None and self[0] > 0

    def negative(self):
        return self[1] is not None and self[1] < 0

    def __repr__(self):
        lo, hi, ex = self
        if self.is_const():
            return "=%d" % lo
        s = "[%s,%s]" % ("-inf" if lo is None else lo, "+inf" if hi is None else hi)
        if ex:
            s += "\\{%s}" % ",".join(str(x) for x in sorted(ex))
        return s


_CONSTS = {}


def av_const(c):
    a = _CONSTS.get(c)
    if a is None:
        a = _CONSTS[c] = AV(c, c)
    return a


NONZERO = AV(None, None, frozenset([0]))
BOTTOM = "BOTTOM"


def _norm(lo, hi, ex):
    while lo is not None and lo in ex:
        lo += 1
    while hi is not None and hi in ex:
        hi -= 1
    if lo is not None and hi is not None and lo > hi:
        return BOTTOM
    ex = frozenset(x for x in ex if (lo is None or x > lo) and (hi is None or x < hi))
    return AV(lo, hi, ex)


def av_refine(av, op, c):
    """Refine av (None = unknown) with `value op c`; returns AV or BOTTOM."""
    lo, hi, ex = av if av is not None else (None, None, frozenset())
    if op == "==":
        if av is not None and not av.contains(c):
            return BOTTOM
        return av_const(c)
    if op == "!=":
        return _norm(lo, hi, set(ex) | {c})
    if op == "<":
        op, c = "<=", c - 1
    if op == ">":
        op, c = ">=", c + 1
    if op == "<=":
        hi = c if hi is None else min(hi, c)
    elif op == ">=":
        lo = c if lo is None else max(lo, c)
    else:
        return av
    return _norm(lo, hi, ex)


def av_shift(av, d):
    """av + d for a constant d (exclusions shifted too)."""
    if av is None:
        return None
    lo, hi, ex = av
    return AV(None if lo is None else lo + d, None if hi is None else hi + d, frozenset(x + d for x in ex))


def av_truth(av):
    if av is None:
        return None
    if av.is_const():
        return av.value() != 0
    if av.nonzero():
        return True
    return None


NEG = {"==": "!=", "!=": "==", "<": ">=", ">=": "<", ">": "<=", "<=": ">"}
FLIP = {"==": "==", "!=": "!=", "<": ">", ">": "<", "<=": ">=", ">=": "<="}


# ---------------------------------------------------------------- configuration
class State:
    """Immutable by convention: sigma/tmp dicts are never mutated in place after construction."""
    __slots__ = ("sigma", "ts", "tmp", "trail", "_key")

    def __init__(self, sigma, ts, tmp, trail):
        self.sigma = sigma
        self.ts = ts
        self.tmp = tmp
        self.trail = trail
        self._key = None

    def key(self):
        k = self._key
        if k is None:
            k = self._key = (tuple(sorted(self.sigma.items())) if self.sigma else (), self.ts,
                             tuple(sorted((i, v[0], v[1]) for i, v in self.tmp.items())) if self.tmp else ())
        return k

    def with_ts(self, ts):
        return State(self.sigma, ts, self.tmp, self.trail)

    def with_sigma(self, sigma):
        return State(sigma, self.ts, self.tmp, self.trail)

    def with_tmp(self, tmp):
        return State(self.sigma, self.ts, tmp, self.trail)

    def get(self, p):
        return self.sigma.get(p)

    def trail_lines(self):
        out = []
        t = self.trail
        while t is not None:
            out.append(t[1])
            t = t[0]
        out.reverse()
        res = []
        for x in out:
            if not res or res[-1] != x:
                res.append(x)
        return res


_MENT = {}


def _mentions(q, p):
    """Does path q depend on path p (p is a proper part of q)?"""
    if q == p or p not in q:
        return False
    k = (q, p)
    r = _MENT.get(k)
    if r is None:
        r = _MENT[k] = re.search(r"(?<![\w])%s(?![\w])" % re.escape(p), q) is not None
    return r


def mentioned_paths(tree, include_ext=False):
    """All access paths read or written in an expression tree."""
    out = set()
    it = walk(tree) if include_ext else walk_eval(tree)
    for n in it:
        if n.get("k") in ("ref", "member", "index") or (n.get("k") == "un" and n.get("op") == "*"):
            p = path(n)
            if p:
                out.add(p)
    return out


EFFECT_KINDS = ("call", "asg", "decl", "ret")


def has_effects(root):
    e = root.get("_fx")
    if e is None:
        e = False
        for n in walk_eval(root):
            k = n.get("k")
            if k in EFFECT_KINDS or (k == "un" and n.get("op") in ("pre++", "pre--", "post++", "post--")):
                e = True
                break
        root["_fx"] = e
    return e


class Interp:
    TMP_TTL = 2

    def __init__(self, prog, fn):
        self.prog = prog
        self.fn = fn
        self.nodes = fn.nodes()
        self.exits = []          # (state, av, ret_node or None)
        self.overflow = False
        self.local_names = {p["name"] for p in fn.params} | {l["name"] for l in fn.locals}
        cache = fn.raw.get("_icache")
        if cache is None:
            cache = fn.raw["_icache"] = self._precompute()
        self.ext_ids, self.addr_taken, self.base_tracked, self.copies, self.live_in = cache
        self.tracked = set(self.base_tracked)
        self.always_live = set()
        self.arith_paths = set()     # paths whose += / -= constant updates are followed (counters would diverge)
        self.cap = CAP
        self.max_steps = 60000

    # ------------------------------------------------------------ precomputation
    def _precompute(self):
        fn = self.fn
        ext_ids = set()
        addr_taken = set()
        cond_paths = set()
        copies = []          # (lhs path, set(rhs paths))
        for b in fn.blocks.values():
            for r in b.roots:
                for n in walk(r):
                    if n.get("ext"):
                        ext_ids.add(n["id"])
                    k = n.get("k")
                    if k == "un" and n.get("op") == "&":
                        p = path(strip(n.get("e")))
                        if p:
                            addr_taken.add(p)
                    elif k == "cond":
                        cond_paths |= mentioned_paths(n.get("c"), True)
                    elif k == "ret" and n.get("e"):
                        cond_paths |= mentioned_paths(n["e"], True)
                    elif k == "asg" and n.get("op") == "=":
                        lp = path(strip(n.get("lhs")))
                        if lp:
                            copies.append((lp, mentioned_paths(n.get("rhs"), True)))
                    elif k == "decl":
                        for v in n.get("vars", []):
                            if v.get("init"):
                                copies.append((v["name"], mentioned_paths(v["init"], True)))
            if b.term and b.term.get("cond") is not None:
                c = self.nodes.get(b.term["cond"])
                if c:
                    cond_paths |= mentioned_paths(c, True)
        tracked = set(cond_paths)
        changed = True
        while changed:
            changed = False
            for lp, rps in copies:
                if lp in tracked:
                    for rp in rps:
                        if rp not in tracked:
                            tracked.add(rp)
                            changed = True
        # liveness (conservative): use = any mention other than the exact lhs of '='; def = exact lhs of '=' / decl
        use = {}
        defs = {}
        for bid, b in fn.blocks.items():
            u, d = set(), set()
            for r in b.roots:
                ru, rd = set(), set()
                lhs_ids = set()
                ev = walk_eval(r)
                for n in ev:
                    k = n.get("k")
                    if k == "asg" and n.get("op") == "=":
                        l = strip(n.get("lhs"))
                        lp = path(l)
                        if lp:
                            rd.add(lp)
                            lhs_ids.add(l.get("id"))
                    elif k == "decl":
                        for v in n.get("vars", []):
                            rd.add(v["name"])
                for n in ev:
                    if n.get("id") in lhs_ids:
                        continue
                    if n.get("k") in ("ref", "member", "index") or (n.get("k") == "un" and n.get("op") == "*"):
                        p = path(n)
                        if p:
                            ru.add(p)
                u |= (ru - d)
                d |= rd
            if b.term and b.term.get("cond") is not None:
                c = self.nodes.get(b.term["cond"])
                if c:
                    u |= (mentioned_paths(c, True) - d)
            use[bid], defs[bid] = u, d
        live_in = {bid: set(use[bid]) for bid in fn.blocks}
        changed = True
        while changed:
            changed = False
            for bid, b in fn.blocks.items():
                out = set()
                for s in b.succs:
                    if s is not None:
                        out |= live_in[s]
                d = defs[bid]
                new = use[bid] | {p for p in out if p not in d}
                if not new <= live_in[bid]:
                    live_in[bid] |= new
                    changed = True
        return ext_ids, addr_taken, tracked, copies, live_in

    def track_also(self, paths):
        """Rule-specific extra status variables (closed under copies)."""
        t = self.tracked
        t |= set(paths)
        self.always_live |= set(paths)
        changed = True
        while changed:
            changed = False
            for lp, rps in self.copies:
                if lp in t:
                    for rp in rps:
                        if rp not in t:
                            t.add(rp)
                            changed = True

    # ------------------------------------------------------------ hooks
    def initial_ts(self):
        return None

    def initial(self):
        return State({}, self.initial_ts(), {}, None)

    def call(self, st, node, argvals):
        """-> list of (state, av).  Default: unknown result."""
        return [(st, None)]

    def assign(self, st, node, lhs, p, av, rhs):
        """Called after sigma is updated for an assignment/initialisation; returns the state."""
        return st

    def on_return(self, st, node, av):
        self.exits.append((st, av, node))

    def on_fall_off(self, st):
        self.exits.append((st, None, None))

    def on_branch(self, st, cond, truth):
        return st

    def on_constrain(self, st, target, p, av):
        return st

    def on_edge(self, st, blk, cond, truth):
        return st

    def on_case(self, st, blk, cond, value):
        """Called on the edge from a switch to `case value:` (after the controlling expression was constrained)."""
        return st

    def on_root(self, st, block, index, root):
        return st

    def pure_root(self, st, block, index, root):
        """Called instead of evaluation for roots without calls/assignments."""
        return st

    def clobbered_by_call(self, st, node):
        """Paths of sigma invalidated by this call (default: heap paths and globals, and &x arguments)."""
        out = []
        sig = st.sigma
        if not sig:
            return out
        for p in sig:
            if "->" in p or "*" in p or "[" in p:
                out.append(p)
            else:
                m = re.match(r"\w+", p)
                if m and m.group(0) not in self.local_names:
                    out.append(p)
        for a in node.get("args", []):
            a = strip(a)
            if isinstance(a, dict) and a.get("k") == "un" and a.get("op") == "&":
                p = path(strip(a.get("e")))
                if p:
                    if p in sig:
                        out.append(p)
                    out.extend(q for q in sig if _mentions(q, p))
        return out

    # ------------------------------------------------------------ sigma helpers
    def set_path(self, st, p, av):
        sig = st.sigma
        kill = [q for q in sig if _mentions(q, p)]
        keep = av is not None and p in self.tracked
        if not kill:
            if not keep and p not in sig:
                return st
            if keep and sig.get(p) == av:
                return st
        sig = dict(sig)
        for q in kill:
            del sig[q]
        if keep:
            sig[p] = av
        else:
            sig.pop(p, None)
        return st.with_sigma(sig)

    # ------------------------------------------------------------ evaluation
    def eval(self, n, st):
        """-> list of (state, av)."""
        if not isinstance(n, dict):
            return [(st, None)]
        if n.get("ext"):
            t = st.tmp.get(n["id"])
            return [(st, t[0] if t else None)]
        k = n.get("k")
        res = self._eval(n, k, st)
        nid = n.get("id")
        if nid in self.ext_ids:
            out = []
            for s, v in res:
                tmp = dict(s.tmp)
                tmp[nid] = (v, 0)
                out.append((s.with_tmp(tmp), v))
            return out
        if k == "call":
            out = []
            for s, v in res:
                if v is not None:
                    tmp = dict(s.tmp)
                    tmp[nid] = (v, -1)
                    s = s.with_tmp(tmp)
                out.append((s, v))
            return out
        return res

    def _seq(self, nodes, st):
        """Evaluate nodes left to right -> list of (state, [avs])."""
        cur = [(st, [])]
        for x in nodes:
            if len(cur) == 1:
                s, vals = cur[0]
                cur = [(s2, vals + [v]) for s2, v in self.eval(x, s)]
            else:
                nxt = []
                for s, vals in cur:
                    for s2, v in self.eval(x, s):
                        nxt.append((s2, vals + [v]))
                cur = nxt
        return cur

    def _eval(self, n, k, st):
        if k == "int":
            return [(st, av_const(n["v"]))]
        if "cv" in n and k not in EFFECT_KINDS:
            return [(st, av_const(n["cv"]))]
        if k == "cast":
            return self.eval(n.get("e"), st)
        if k == "ref":
            if n.get("dk") == "func":
                return [(st, NONZERO)]
            return [(st, st.sigma.get(n["name"]))]
        if k in ("member", "index"):
            kids = [n.get("base")] + ([n.get("idx")] if k == "index" else [])
            p = path(n)
            return [(s, s.sigma.get(p) if p else None) for s, _ in self._seq(kids, st)]
        if k == "str":
            return [(st, NONZERO)]
        if k == "float":
            return [(st, None)]
        if k == "sizeof":
            return [(st, av_const(n["cv"]) if "cv" in n else None)]
        if k == "un":
            op = n["op"]
            out = []
            for s, v in self.eval(n.get("e"), st):
                if op == "!":
                    t = av_truth(v)
                    out.append((s, None if t is None else av_const(0 if t else 1)))
                elif op == "-":
                    out.append((s, av_const(-v.value()) if v is not None and v.is_const() else None))
                elif op == "&":
                    out.append((s, NONZERO))
                elif op == "*":
                    p = path(n)
                    out.append((s, s.sigma.get(p) if p else None))
                elif op in ("pre++", "pre--", "post++", "post--"):
                    p = path(strip(n.get("e")))
                    if p:
                        s = self.set_path(s, p, None)
                    s = self.assign(s, n, n.get("e"), p, None, None)
                    out.append((s, None))
                else:
                    out.append((s, None))
            return out
        if k == "bin":
            op = n["op"]
            return [(s, self._binop(op, a, b)) for s, (a, b) in self._seq([n.get("lhs"), n.get("rhs")], st)]
        if k == "asg":
            out = []
            lhs = n.get("lhs")
            p = path(strip(lhs))
            for s, (_, v) in self._seq([self._lhs_base(lhs), n.get("rhs")], st):
                if n["op"] != "=":
                    if n["op"] in ("+=", "-=") and p in self.arith_paths and v is not None and v.is_const():
                        v = av_shift(s.sigma.get(p), v.value() if n["op"] == "+=" else -v.value())
                    else:
                        v = None
                if p:
                    s = self.set_path(s, p, v)
                s = self.assign(s, n, lhs, p, v, n.get("rhs"))
                out.append((s, v))
            return out
        if k == "cond":
            out = []
            for s, _ in self._seq([n.get("c")], st):
                th, el = n["then"], n["else"]
                if th.get("ext") or el.get("ext"):
                    a = s.tmp.get(th["id"]) if th.get("ext") else None
                    b = s.tmp.get(el["id"]) if el.get("ext") else None
                    if a is not None and b is None:
                        out.append((s, a[0]))
                    elif b is not None and a is None:
                        out.append((s, b[0]))
                    elif a is not None and b is not None:
                        out.append((s, a[0] if a[1] < b[1] else b[0] if b[1] < a[1] else (a[0] if a[0] == b[0] else None)))
                    else:
                        out.append((s, None))
                else:
                    for s2, (x, y) in self._seq([th, el], s):
                        out.append((s2, x if x == y else None))
            return out
        if k == "call":
            kids = ([n["fn"]] if n.get("fn") else []) + list(n.get("args", []))
            out = []
            for s, vals in self._seq(kids, st):
                if n.get("fn"):
                    vals = vals[1:]
                clob = self.clobbered_by_call(s, n)
                if clob:
                    sig = dict(s.sigma)
                    for p in clob:
                        sig.pop(p, None)
                    s = s.with_sigma(sig)
                out.extend(self.call(s, n, vals))
            return out
        if k == "decl":
            cur = [st]
            for v in n.get("vars", []):
                nxt = []
                for s in cur:
                    if v.get("init") is not None:
                        for s2, val in self.eval(v["init"], s):
                            s2 = self.set_path(s2, v["name"], val)
                            s2 = self.assign(s2, n, {"k": "ref", "name": v["name"], "dk": "local", "t": v.get("t", ""),
                                                     "id": -1, "l": n.get("l"), "_p": v["name"]}, v["name"], val, v["init"])
                            nxt.append(s2)
                    else:
                        nxt.append(self.set_path(s, v["name"], None))
                cur = nxt
            return [(s, None) for s in cur]
        if k == "ret":
            out = []
            for s, v in (self.eval(n.get("e"), st) if n.get("e") else [(st, None)]):
                self.on_return(s, n, v)
                out.append((s, v))
            return out
        if k == "init":
            return [(s, None) for s, _ in self._seq(n.get("elems", []), st)]
        if k == "complit":
            return [(s, NONZERO) for s, _ in self.eval(n.get("e"), st)]
        if k == "other":
            return [(s, None) for s, _ in self._seq(n.get("kids", []), st)]
        return [(st, None)]

    @staticmethod
    def _lhs_base(lhs):
        """The part of an lvalue that is evaluated (its base/index), not the lvalue read itself."""
        l = strip(lhs)
        if not isinstance(l, dict):
            return None
        if l.get("k") == "member":
            return l.get("base")
        if l.get("k") == "un" and l.get("op") == "*":
            return l.get("e")
        if l.get("k") == "index":
            return {"k": "other", "kids": [l.get("base"), l.get("idx")], "id": -2}
        return None

    @staticmethod
    def _binop(op, a, b):
        if op == ",":
            return b
        if a is None or b is None:
            if op == "&&" and ((a is not None and av_truth(a) is False) or (b is not None and av_truth(b) is False)):
                return av_const(0)
            if op == "||" and ((a is not None and av_truth(a) is True) or (b is not None and av_truth(b) is True)):
                return av_const(1)
            return None
        if op in NEG:
            if b.is_const():
                r, src = av_refine(a, op, b.value()), a
            elif a.is_const():
                r, src = av_refine(b, FLIP[op], a.value()), b
            else:
                return None
            if r is BOTTOM:
                return av_const(0)
            if r == src:
                return av_const(1)
            return None
        if op == "&&":
            ta, tb = av_truth(a), av_truth(b)
            if ta is False or tb is False:
                return av_const(0)
            if ta and tb:
                return av_const(1)
            return None
        if op == "||":
            ta, tb = av_truth(a), av_truth(b)
            if ta or tb:
                return av_const(1)
            if ta is False and tb is False:
                return av_const(0)
            return None
        if a.is_const() and b.is_const():
            x, y = a.value(), b.value()
            if op == "+":
                return av_const(x + y)
            if op == "-":
                return av_const(x - y)
            if op == "*":
                return av_const(x * y)
            if op == "&":
                return av_const(x & y)
            if op == "|":
                return av_const(x | y)
        return None

    # ------------------------------------------------------------ branch refinement
    def refine(self, st, n, truth):
        n = strip(n)
        if not isinstance(n, dict):
            return st
        k = n.get("k")
        c = const(n)
        if c is not None and k not in ("asg", "call"):
            return st if bool(c) == truth else None
        if k == "un" and n.get("op") == "!":
            return self.refine(st, n.get("e"), not truth)
        if k == "bin":
            op = n["op"]
            if op in NEG:
                lc, rc = const(n.get("lhs")), const(n.get("rhs"))
                if rc is not None:
                    target, cc, o = n.get("lhs"), rc, op
                elif lc is not None:
                    target, cc, o = n.get("rhs"), lc, FLIP[op]
                else:
                    return self.on_branch(st, n, truth)
                if not truth:
                    o = NEG[o]
                return self.constrain(st, target, o, cc)
            if op == "&&":
                if truth:
                    s = self.refine(st, n.get("lhs"), True)
                    return None if s is None else self.refine(s, n.get("rhs"), True)
                return self.on_branch(st, n, truth)
            if op == "||":
                if not truth:
                    s = self.refine(st, n.get("lhs"), False)
                    return None if s is None else self.refine(s, n.get("rhs"), False)
                return self.on_branch(st, n, truth)
            if op == ",":
                return self.refine(st, n.get("rhs"), truth)
        return self.constrain(st, n, "!=" if truth else "==", 0)

    def constrain(self, st, target, op, c):
        target = strip(target)
        if not isinstance(target, dict):
            return st
        k = target.get("k")
        if k == "asg" and target.get("op") == "=":
            return self.constrain(st, target.get("lhs"), op, c)
        if k == "bin":
            top = target.get("op")
            if top == ",":
                return self.constrain(st, target.get("rhs"), op, c)
            if (top in NEG or top in ("&&", "||")) and c in (0, 1) and op in ("==", "!="):
                truth = (c != 0) if op == "==" else (c == 0)
                return self.refine(st, target, truth)
        if k == "un" and target.get("op") == "!" and op in ("==", "!=") and c in (0, 1):
            truth = (c != 0) if op == "==" else (c == 0)
            return self.refine(st, target, truth)
        p = path(target)
        if p is not None:
            cur = st.sigma.get(p)
            new = av_refine(cur, op, c)
            if new is BOTTOM:
                return None
            if p in self.tracked and new != cur:
                sig = dict(st.sigma)
                sig[p] = new
                st = st.with_sigma(sig)
            return self.on_constrain(st, target, p, new)
        cur = self.peek(st, target)
        new = av_refine(cur, op, c)
        if new is BOTTOM:
            return None
        return self.on_constrain(st, target, None, new)

    def peek(self, st, n):
        """Value of an already evaluated non-lvalue expression, from tmp (no effects)."""
        n = strip(n)
        if not isinstance(n, dict):
            return None
        k = n.get("k")
        if k == "int":
            return av_const(n["v"])
        if "cv" in n and k not in EFFECT_KINDS:
            return av_const(n["cv"])
        t = st.tmp.get(n.get("id"))
        if t is not None:
            return t[0]
        if k == "cond":
            th, el = n["then"], n["else"]
            a = st.tmp.get(strip(th).get("id")) if isinstance(strip(th), dict) else None
            b = st.tmp.get(strip(el).get("id")) if isinstance(strip(el), dict) else None
            if a is not None and b is None:
                return a[0]
            if b is not None and a is None:
                return b[0]
            if a is not None and b is not None:
                return a[0] if a[1] < b[1] else b[0] if b[1] < a[1] else (a[0] if a[0] == b[0] else None)
            return None
        if k == "bin" and n.get("op") == ",":
            return self.peek(st, n.get("rhs"))
        if k == "asg" and n.get("op") == "=":
            p = path(strip(n.get("lhs")))
            return st.sigma.get(p) if p else None
        p = path(n)
        if p:
            return st.sigma.get(p)
        return None

    # ------------------------------------------------------------ fixpoint
    def run(self):
        fn = self.fn
        IN = {b: {} for b in fn.blocks}
        init = self.initial()
        IN[fn.entry][init.key()] = init
        work = [(fn.entry, init)]
        steps = 0
        live_in = self.live_in
        while work:
            bid, st = work.pop()
            blk = fn.blocks[bid]
            steps += 1
            if steps > self.max_steps:
                self.overflow = True
                break
            if bid == fn.exit:
                continue
            if blk.roots:
                st = State(st.sigma, st.ts, st.tmp, (st.trail, blk.roots[0].get("l")))
            states = [st]
            returned = False
            for i, r in enumerate(blk.roots):
                if not has_effects(r) and r.get("id") not in self.ext_ids:
                    states = [s2 for s2 in (self.pure_root(s, blk, i, r) for s in states) if s2 is not None]
                    continue
                nxt = []
                for s in states:
                    s = self.on_root(s, blk, i, r)
                    if s is None:
                        continue
                    for s2, _ in self.eval(r, s):
                        nxt.append(s2)
                states = nxt
                if r.get("k") == "ret":
                    returned = True
            if returned:
                continue
            term = blk.term
            cond = None
            if term and term.get("cond") is not None:
                cond = self.nodes.get(term["cond"])
            succs = blk.succs
            dedup = {}
            for s in states:
                dedup[s.key()] = s
            for s in dedup.values():
                outs = []
                if term and term.get("k") == "SwitchStmt" and cond is not None:
                    case_vals = []
                    for sid in succs:
                        if sid is None:
                            continue
                        lab = fn.blocks[sid].label
                        if lab and lab.get("k") == "case" and "v" in lab:
                            case_vals.append(lab["v"])
                    for sid in succs:
                        if sid is None:
                            continue
                        lab = fn.blocks[sid].label
                        if lab and lab.get("k") == "case" and "v" in lab:
                            s2 = self.constrain(s, cond, "==", lab["v"])
                            if s2 is not None:
                                s2 = self.on_case(s2, blk, cond, lab["v"])
                        else:
                            s2 = s
                            for v in case_vals:
                                if s2 is None:
                                    break
                                s2 = self.constrain(s2, cond, "!=", v)
                        if s2 is not None:
                            outs.append((sid, s2))
                elif len(succs) == 2 and cond is not None:
                    for idx, truth in ((0, True), (1, False)):
                        sid = succs[idx]
                        if sid is None:
                            continue
                        s2 = self.refine(s, cond, truth)
                        if s2 is not None and term.get("k") in ("&&", "||") and cond.get("id") in self.ext_ids:
                            # the operand's truth value is known on this edge: the enclosing && / || (evaluated in the
                            # join block) reads it from the temporaries
                            old_t = s2.tmp.get(cond["id"])
                            oldv = old_t[0] if old_t else None
                            newv = None
                            if not truth:
                                newv = av_const(0)
                            elif oldv is None or av_truth(oldv) is None:
                                newv = (av_refine(oldv, "!=", 0) if oldv is not None else NONZERO)
                                if newv is BOTTOM:
                                    newv = None
                            if newv is not None:
                                tmp = dict(s2.tmp)
                                tmp[cond["id"]] = (newv, 0)
                                s2 = s2.with_tmp(tmp)
                        if s2 is not None:
                            s2 = self.on_edge(s2, blk, cond, truth)
                        if s2 is not None:
                            outs.append((sid, s2))
                else:
                    for sid in succs:
                        if sid is not None:
                            outs.append((sid, s))
                for sid, s2 in outs:
                    if sid == fn.exit:
                        self.on_fall_off(s2)
                        continue
                    # age temporaries; drop dead status variables
                    tmp = s2.tmp
                    if tmp:
                        tmp = {k: (v[0], v[1] + 1) for k, v in tmp.items() if 0 <= v[1] < self.TMP_TTL}
                    sig = s2.sigma
                    if sig:
                        li = live_in[sid]
                        dead = [p for p in sig if p not in li and p not in self.addr_taken and p not in self.always_live]
                        if dead:
                            sig = {p: v for p, v in sig.items() if p not in dead}
                    if tmp is not s2.tmp or sig is not s2.sigma:
                        s2 = State(sig, s2.ts, tmp, s2.trail)
                    kk = s2.key()
                    d = IN[sid]
                    if kk in d:
                        continue
                    if len(d) >= self.cap:
                        self.overflow = True
                        continue
                    d[kk] = s2
                    work.append((sid, s2))
        self.IN = IN
        self.steps = steps
        return self
