"""A name that has been normalised is not validated again (C09).

Validation applies the length limit (and the first-character rule) to the string it is given; normalisation can lengthen a
name (case folding turns one sharp s into `ss`, NFD/NFC can change the count as well).  A valid name close to the limit,
once normalised, fails a second validation.  So an expression known to hold normaliser output (the classification of
C09 R2) must not be handed to a *validating* name parameter.

Validating parameters are computed: (f, p) where f passes its parameter p as the name to cif_normalize_name /
cif_normalize_item_name or to a map's `normalizer`, closed over direct forwarding of parameters.
"""
from .facts import strip, show
from .interp import path

VALIDATING_NORMALISERS = {"cif_normalize_name": 0, "cif_normalize_item_name": 0}


def validating_params(prog):
    v = {}
    changed = True

    def name_arg(fn, c):
        """index of the argument of this call that is validated as a name, or None"""
        cal = c.get("callee")
        if cal in VALIDATING_NORMALISERS:
            return VALIDATING_NORMALISERS[cal]
        if cal is None and c.get("fn") is not None and "normalizer" in (path(strip(c["fn"])) or ""):
            return 0
        for (f, p), idx in v.items():
            if f == cal:
                return idx
        return None
    while changed:
        changed = False
        for fn in prog.all_functions():
            for (b, i, r, c) in fn.calls():
                idx = name_arg(fn, c)
                args = c.get("args", [])
                if idx is None or idx >= len(args):
                    continue
                ap = path(strip(args[idx]))
                pi = fn.param_index(ap) if ap else None
                if pi is not None and (fn.name, ap) not in v:
                    v[(fn.name, ap)] = pi
                    changed = True
    return v


def rule(prog, rule_, classify, outputs_of):
    v = validating_params(prog)
    by_fn = {}
    for (f, p), idx in v.items():
        by_fn.setdefault(f, []).append(idx)
    n = 0
    for fn in prog.all_functions():
        outs = None
        for (b, i, r, c) in fn.calls():
            cal = c.get("callee")
            idxs = list(by_fn.get(cal, []))
            if cal in VALIDATING_NORMALISERS:
                idxs.append(VALIDATING_NORMALISERS[cal])
            for idx in idxs:
                args = c.get("args", [])
                if idx >= len(args):
                    continue
                if outs is None:
                    outs = outputs_of(fn)
                verdict, detail = classify(prog, fn, args[idx], outs)
                n += 1
                key = "%s -> %s(%s)@L%s" % (fn.name, cal, show(args[idx])[:30], c.get("l"))
                if verdict == "ok" and "NULL" not in detail:
                    rule_.violation(fn.file, fn.name, c.get("l"), "normalised-name-validated-again:%s:%s" % (fn.name, cal),
                                    "`%s` holds a normalised name (%s) and is handed to %s, which validates it as a name: "
                                    "normalisation can lengthen a name (a sharp s folds to `ss`), so a valid name near the length "
                                    "limit is refused here" % (show(args[idx])[:40], detail[:80], cal))
                else:
                    rule_.ok(key, "not known to be normaliser output")
    return n, v
