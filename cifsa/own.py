"""Ownership typestate (A1 instance) for C16 R1 / C17 R3 / C14 R1: heap resources acquired by a function are released
or transferred exactly once on every path; nothing is released twice or used after release.

ts = (aliases, status)
   aliases : tuple of (access path, resource id) — names under which a resource is reachable in this function
   status  : tuple of (resource id, 'owned' | 'released' | 'gone')      gone = transferred / moved / given away
Resource ids are the node ids of the acquiring calls.  Precision is favoured over recall: an acquisition is tracked
only when its success is established (result tested), `unknown` is never a report.
"""
import re

from .facts import strip, const, walk, walk_eval, show, macro_name
from .interp import Interp, State, path, av_const, AV, NONZERO, _mentions

# functions whose *return value* is a fresh allocation owned by the caller
ALLOC_RET = {"malloc", "calloc", "strdup", "cif_u_strdup", "to_digits", "cif_buf_create"}
# callee -> {out-parameter index: 'always' | 'if_null'}   (owned by the caller when the call returns CIF_OK)
ALLOC_OUT = {
    "cif_create": {0: "always"}, "cif_parse_options_create": {0: "always"}, "cif_write_options_create": {0: "always"},
    "cif_create_block": {2: "always"}, "cif_create_block_internal": {3: "always"}, "cif_get_block": {2: "always"},
    "cif_get_all_blocks": {1: "always"}, "cif_container_create_frame": {2: "always"},
    "cif_container_create_frame_internal": {3: "always"}, "cif_container_get_frame": {2: "always"},
    "cif_container_get_all_frames": {1: "always"}, "cif_container_get_code": {1: "always"},
    "cif_container_create_loop": {3: "always"}, "cif_container_get_category_loop": {2: "always"},
    "cif_container_get_item_loop": {2: "always"}, "cif_container_get_all_loops": {1: "always"},
    "cif_container_get_value": {2: "if_null"}, "cif_loop_get_category": {1: "always"}, "cif_loop_get_names": {1: "always"},
    "cif_loop_get_names_internal": {1: "always"},
    "cif_loop_get_packets": {1: "always"}, "cif_pktitr_next_packet": {1: "if_null"}, "cif_packet_create": {0: "always"},
    "cif_packet_create_norm": {0: "always"}, "cif_packet_get_names": {1: "always"}, "cif_packet_remove_item": {2: "always"},
    "cif_value_create": {1: "always"}, "cif_value_clone": {1: "if_null"}, "cif_value_get_text": {1: "always"},
    "cif_value_remove_element_at": {2: "always"}, "cif_value_get_keys": {1: "always"},
    "cif_value_remove_item_by_key": {2: "always"}, "cif_normalize": {2: "always"}, "cif_normalize_name": {2: "always"},
    "cif_normalize_item_name": {2: "always"}, "cif_normalize_table_index": {2: "always"}, "cif_cstr_to_ustr": {2: "always"},
    "cif_value_serialize": {1: "always"}, "format_text_decimal": {5: "always"}, "format_text_sci": {5: "always"},
    "cif_unicode_normalize": {3: "always"}, "cif_fold_case": {2: "always"},
}
# release functions: callee -> index of the released argument; 'deep' ones release what the object owns as well
RELEASE = {
    "free": (0, False), "cif_value_free": (0, True), "cif_packet_free": (0, True), "cif_loop_free": (0, True),
    "cif_container_free": (0, True), "cif_block_free": (0, True), "cif_frame_free": (0, True), "cif_pktitr_free": (0, True),
    "cif_buf_free": (0, True), "cif_buf_free_metadata": (0, False), "cif_destroy": (0, True), "cif_pktitr_close": (0, True),
    "cif_pktitr_abort": (0, True), "cif_map_entry_free_internal": (0, True), "cif_container_destroy": (0, True),
    "cif_loop_destroy": (0, True), "sqlite3_free": (0, False),
}
# callee -> argument indexes whose ownership passes to the callee
TAKES = {"cif_value_init_char": [1], "cif_value_parse_numb": [1], "cif_packet_create_norm": [1]}
BIND_WITH_DTOR = {"sqlite3_bind_text16": (2, 4), "sqlite3_bind_text": (2, 4), "sqlite3_bind_blob": (2, 4)}
SHALLOW_COPY = {"memcpy": 1}


def auto_release(prog):
    """Helpers of the library itself that release a pointer parameter on every path (`static void free_names(a, end) { ...
    free(a); }`): callee -> (argument index, deep).  A helper that also releases what hangs off the parameter (it frees
    elements reached through it) counts as deep."""
    cache = getattr(prog, "_auto_release", None)
    if cache is not None:
        return cache
    from . import cfgq
    out = {}
    for fn in prog.all_functions():
        if fn.name in RELEASE or fn.name in ALLOC_OUT:
            continue
        for idx, prm in enumerate(fn.params):
            if "*" not in (prm.get("t") or ""):
                continue
            sites = []
            deep = False
            for (b, i, r, c) in fn.calls():
                cal = c.get("callee")
                if cal in RELEASE and c.get("args") and len(c["args"]) > RELEASE[cal][0]:
                    ap = path(strip(c["args"][RELEASE[cal][0]]))
                    if ap == prm["name"]:
                        sites.append((b.id, i))
                    elif ap and prm["name"] in re.findall(r"[A-Za-z_]\w*", ap):
                        deep = True
            if sites and cfgq.must_follow(fn, (fn.entry, -1), sites):
                out[fn.name] = (idx, deep)
                break
    prog._auto_release = out
    return out


def auto_takes(prog):
    """Helpers of the library itself that store a pointer parameter into a field of an object reached through another
    parameter on every path (`static void set_cached(loop, text) { free(loop->text); loop->text = text; }`): the argument
    is handed over.  callee -> [argument indexes]."""
    cache = getattr(prog, "_auto_takes", None)
    if cache is not None:
        return cache
    from . import cfgq
    from .facts import root_var
    out = {}
    for fn in prog.all_functions():
        if fn.name in TAKES or fn.name in ALLOC_OUT or not fn.static:
            continue
        pnames = [prm["name"] for prm in fn.params]
        for idx, prm in enumerate(fn.params):
            if "*" not in (prm.get("t") or ""):
                continue
            sites = []
            for (b, i, r, a) in fn.eval_sites("asg"):
                l = strip(a.get("lhs"))
                if a.get("op") == "=" and path(strip(a.get("rhs"))) == prm["name"] and isinstance(l, dict) and l.get("k") == "member" \
                        and root_var(l) in pnames and root_var(l) != prm["name"]:
                    sites.append((b.id, i))
            if sites and cfgq.must_follow(fn, (fn.entry, -1), sites):
                out.setdefault(fn.name, []).append(idx)
    prog._auto_takes = out
    return out


def _root(p):
    m = re.match(r"^[\(\*&]*([A-Za-z_]\w*)", p or "")
    return m.group(1) if m else None


class OwnInterp(Interp):
    def __init__(self, prog, fn):
        super().__init__(prog, fn)
        self.reports = []          # (kind, resource node, node, state, detail)
        self.acq_nodes = {}
        self.local_structs = {l["name"] for l in fn.locals if not l["t"].strip().endswith("*") and ("struct" in l["t"] or l["t"].strip().endswith("_tp") or l["t"].strip().endswith("_t"))}
        self.params = {p["name"] for p in fn.params}
        self.cap = 6000
        self.max_steps = 400000
        self.release = dict(RELEASE)
        self.release.update(auto_release(prog))
        self.takes = dict(TAKES)
        self.takes.update(auto_takes(prog))
        # keep the state space small: status variables are pointers, result codes and flags of this function
        keep = {p["name"] for p in fn.params} | {l["name"] for l in fn.locals}
        self.tracked = {p for p in self.tracked if _root(p) in keep and not p.startswith("scanner->")}

    # ---- ts helpers
    def initial_ts(self):
        return ((), (), False)

    @staticmethod
    def _unpack(ts):
        return dict(ts[0]), dict(ts[1])

    @staticmethod
    def _with(st, al, stt):
        return st.with_ts((tuple(sorted(al.items())), tuple(sorted(stt.items())), st.ts[2]))

    def _failed(self, st):
        """the same state on the branch where an allocation failed"""
        return st.with_ts((st.ts[0], st.ts[1], True))

    def _new_resource(self, st, node, pathname):
        al, stt = self._unpack(st.ts)
        rid = node["id"]
        self.acq_nodes[rid] = node
        # a re-acquisition at the same site (next loop iteration) starts with no names
        al = {p: r for p, r in al.items() if r != rid}
        stt[rid] = "owned"
        if pathname:
            al[pathname] = rid
        return self._with(st, al, stt)

    def _gone(self, al, stt, rid, how):
        """rid leaves this function's responsibility; resources hanging off its names go with it when deep."""
        stt[rid] = how
        names = [p for p, r in al.items() if r == rid]
        for p, r in list(al.items()):
            if r != rid and stt.get(r) == "owned" and any(_mentions(p, nm) or p.startswith(nm + "->") or p.startswith(nm + ".") for nm in names):
                stt[r] = how

    # ---- events
    def call(self, st, n, argvals):
        c = n.get("callee")
        args = n.get("args", [])
        al, stt = self._unpack(st.ts)
        if c == "cif_value_clean" and args:
            # releases what hangs off the value, not the value object: modelled for a local structure given by address
            a0 = strip(args[0])
            if isinstance(a0, dict) and a0.get("k") == "un" and a0.get("op") == "&":
                base = path(strip(a0.get("e")))
                if base:
                    changed = False
                    for q, r0 in list(al.items()):
                        if (q.startswith(base + ".") or q.startswith(base + "->")) and stt.get(r0) == "owned":
                            stt[r0] = "released"
                            changed = True
                    if changed:
                        return [(self._with(st, al, stt), None)]
        if c in self.release and len(args) > self.release[c][0]:
            idx, deep = self.release[c]
            p = path(strip(args[idx]))
            a0 = strip(args[idx])
            if p is None and deep and isinstance(a0, dict) and a0.get("k") == "un" and a0.get("op") == "&":
                # a deep release of a local structure (`cif_value_clean(&fresh)`): what hangs off its fields goes with it
                base = path(strip(a0.get("e")))
                if base:
                    changed = False
                    for q, r0 in list(al.items()):
                        if (q.startswith(base + ".") or q.startswith(base + "->")) and stt.get(r0) == "owned":
                            stt[r0] = "released"
                            changed = True
                    if changed:
                        return [(self._with(st, al, stt), None)]
            rid = al.get(p) if p else None
            if rid is not None:
                cur = stt.get(rid)
                if cur == "released":
                    self.reports.append(("double-release", self.acq_nodes.get(rid), n, st, "`%s` is released again by %s" % (p, c)))
                elif cur == "owned":
                    if deep:
                        self._gone(al, stt, rid, "released")
                    stt[rid] = "released"
                    return [(self._with(st, al, stt), None)]
            return [(st, None)]
        if c == "realloc" and len(args) >= 1:
            p = path(strip(args[0]))
            rid = al.get(p) if p else None
            ok = st
            if rid is not None and stt.get(rid) == "owned":
                stt2 = dict(stt)
                stt2[rid] = "gone"
                ok = self._with(st, al, stt2)
            ok = self._new_resource(ok, n, None)
            return [(ok, NONZERO), (self._failed(st), av_const(0))]
        if c in ALLOC_RET:
            if any(m.startswith("HASH_") or m.startswith("uthash_") for m in (n.get("ms") or [])):
                return [(st, None)]          # uthash's own bucket/table allocations are managed by uthash
            return [(self._new_resource(st, n, None), NONZERO), (self._failed(st), av_const(0))]
        if c in ALLOC_OUT:
            outs = []
            okst = st
            tracked_any = False
            for idx, cond in ALLOC_OUT[c].items():
                if idx >= len(args):
                    continue
                a = strip(args[idx])
                if not (isinstance(a, dict) and a.get("k") == "un" and a.get("op") == "&"):
                    continue
                vp = path(strip(a.get("e")))
                if not vp:
                    continue
                if cond == "if_null":
                    cur = st.sigma.get(vp)
                    if not (cur is not None and cur.is_const() and cur.value() == 0):
                        continue
                root = _root(vp)
                if root in self.params and ("->" in vp or "*" in vp):
                    continue           # stored straight into the caller's object
                okst = self._new_resource(okst, {"id": n["id"] * 16 + idx + 1, "l": n.get("l"), "callee": c, "k": "call", "out": vp}, vp)
                self.acq_nodes[n["id"] * 16 + idx + 1] = dict(n, out=vp)
                tracked_any = True
                okst = self.set_path(okst, vp, NONZERO)
            if tracked_any:
                # the callee may fail for any reason, not only for lack of memory: not an OOM-only path
                return [(okst, av_const(0)), (st, NONZERO)]
            return [(st, None)]
        if c in self.takes:
            changed = False
            for idx in self.takes[c]:
                if idx < len(args):
                    p = path(strip(args[idx]))
                    rid = al.get(p) if p else None
                    if rid is not None and stt.get(rid) == "owned":
                        self._gone(al, stt, rid, "gone")
                        changed = True
            if changed:
                return [(self._with(st, al, stt), None)]
        if c in BIND_WITH_DTOR and len(args) > BIND_WITH_DTOR[c][1]:
            vi, di = BIND_WITH_DTOR[c]
            d = strip(args[di])
            if isinstance(d, dict) and d.get("k") == "ref" and d.get("name") == "free":
                p = path(strip(args[vi]))
                rid = al.get(p) if p else None
                if rid is not None and stt.get(rid) == "owned":
                    stt[rid] = "gone"
                    return [(self._with(st, al, stt), None)]
        if c in SHALLOW_COPY and len(args) > SHALLOW_COPY[c]:
            src0 = strip(args[SHALLOW_COPY[c]])
            if isinstance(src0, dict) and src0.get("k") == "un" and src0.get("op") == "&":
                src0 = strip(src0.get("e"))         # memcpy(dst, &local_struct, ..): the structure itself is the source
            p = path(src0)
            # contents of *src move to *dst: what hangs off src (under any of its names) goes with them
            if p:
                changed = False
                names = {p}
                if p in al:
                    names |= {q for q, r in al.items() if r == al[p]}
                for q, r in list(al.items()):
                    if any(q.startswith(nm + "->") or q.startswith(nm + ".") or q.startswith("(*" + nm) for nm in names) and stt.get(r) == "owned":
                        stt[r] = "gone"
                        changed = True
                if changed:
                    return [(self._with(st, al, stt), None)]
        # use after release: a released pointer handed to another function
        for a in args:
            p = path(strip(a))
            rid = al.get(p) if p else None
            if rid is not None and stt.get(rid) == "released" and c not in self.release:
                self.reports.append(("use-after-release", self.acq_nodes.get(rid), n, st, "`%s` is passed to %s after it was released" % (p, c)))
        return [(st, None)]

    def assign(self, st, node, lhs, p, av, rhs):
        if rhs is not None and not st.ts[2] and macro_name(rhs) == "CIF_MEMORY_ERROR":
            st = self._failed(st)        # the path reports an allocation failure (incl. uthash_fatal expansions)
        al, stt = self._unpack(st.ts)
        if p is None:
            # a store through a computed lvalue ( *(cursor++) = v ): v is handed to memory we do not track
            r0 = strip(rhs) if rhs is not None else None
            rid0 = None
            if isinstance(r0, dict):
                rid0 = al.get(path(r0)) if path(r0) else (r0.get("id") if r0.get("k") == "call" and stt.get(r0.get("id")) == "owned" else None)
            if rid0 is not None and stt.get(rid0) == "owned" and lhs is not None:
                self._gone(al, stt, rid0, "gone")
                return self._with(st, al, stt)
            return st
        changed = False
        r = strip(rhs) if rhs is not None else None
        rid = None
        if isinstance(r, dict):
            if r.get("k") == "call" and r.get("id") in stt and stt[r["id"]] == "owned" and r["id"] not in al.values():
                rid = r["id"]                   # fresh allocation being bound to its first name
            elif r.get("k") == "cond":
                for arm in (r.get("then"), r.get("else")):
                    a = strip(arm)
                    if isinstance(a, dict) and a.get("k") == "call" and stt.get(a.get("id")) == "owned" and a["id"] not in al.values() \
                            and st.tmp.get(a["id"]) is not None:
                        rid = a["id"]           # x = c ? borrowed : fresh()
            else:
                rp = path(r)
                if rp in al:
                    rid = al[rp]
                elif r.get("k") == "un" and r.get("op") == "&":
                    ip = path(strip(r.get("e")))
                    base = _root(ip)
                    if ip and base in al and re.match(r"^%s->\w+$" % re.escape(base), ip):
                        rid = al[base]          # interior pointer to (the first member of) an owned object
        # the old binding of p (and of paths through p) disappears
        for q in [q for q in al if q == p or _mentions(q, p)]:
            del al[q]
            changed = True
        if rid is not None and any(m.startswith(("LL_", "DL_", "CDL_")) for m in (node.get("ms") or [])):
            # utlist: the element is linked into a list; list elements are outside this rule's reach
            if stt.get(rid) == "owned":
                self._gone(al, stt, rid, "gone")
            return self._with(st, al, stt)
        if rid is not None:
            root = _root(p)
            if "[" in p and not re.match(r"^\w+$", p):
                # array slot: the element now belongs to the array (elements are outside this rule's reach)
                if stt.get(rid) == "owned":
                    self._gone(al, stt, rid, "gone")
                return self._with(st, al, stt)
            is_local_name = re.match(r"^\w+$", p) and root not in self.params or root in self.local_structs
            base_owned = root in self.local_structs or (root in al and stt.get(al[root]) == "owned")
            owned_field = ("->" in p or "." in p) and base_owned
            if is_local_name or owned_field:
                al[p] = rid
            else:
                # stored into memory this function does not own (out-parameter, caller's struct, list, array slot)
                if stt.get(rid) == "owned":
                    self._gone(al, stt, rid, "gone")
            changed = True
        if changed:
            return self._with(st, al, stt)
        return st

    def on_branch(self, st, cond, truth):
        """`a != b` / `a == b` between pointers: a pointer to a fresh owned allocation differs from every other pointer."""
        c = strip(cond)
        if isinstance(c, dict) and c.get("k") == "bin" and c.get("op") in ("==", "!="):
            al, stt = self._unpack(st.ts)
            lp, rp = path(strip(c.get("lhs"))), path(strip(c.get("rhs")))
            if lp and rp and lp != rp:
                la, ra = al.get(lp), al.get(rp)
                for a, b in ((la, ra), (ra, la)):
                    if a is not None and stt.get(a) == "owned" and b != a:
                        equal = False
                        if (c["op"] == "==") == truth and not equal:
                            return None
                        return st
        return st

    def on_return(self, st, node, av):
        al, stt = self._unpack(st.ts)
        e = strip(node.get("e")) if node.get("e") else None
        if e is not None:
            for x in walk(e):
                xp = path(x) if x.get("k") in ("ref", "member") else None
                if xp in al and stt.get(al[xp]) == "owned":
                    self._gone(al, stt, al[xp], "gone")          # returned (possibly through a copying call)
                if x.get("k") == "call" and stt.get(x.get("id")) == "owned":
                    stt[x["id"]] = "gone"                        # return f(): a fresh allocation returned directly
        for rid, s in stt.items():
            if s == "owned":
                names = sorted(p for p, r in al.items() if r == rid)
                self.reports.append(("leak", self.acq_nodes.get(rid), node, st, "still owned at `%s` (names: %s)" % (node.get("txt", "return"), ", ".join(names) or "none left")))
        super().on_return(self._with(st, al, stt), node, av)

    def on_fall_off(self, st):
        al, stt = self._unpack(st.ts)
        for rid, s in stt.items():
            if s == "owned":
                self.reports.append(("leak", self.acq_nodes.get(rid), None, st, "still owned at the end of the function"))
        super().on_fall_off(st)


def acquiring_functions(prog):
    out = []
    for fn in prog.all_functions():
        for (b, i, r, n) in fn.calls():
            c = n.get("callee")
            if c in ALLOC_RET or c == "realloc" or c in ALLOC_OUT:
                out.append(fn)
                break
    return out


def analyse(prog):
    res = {}
    for fn in acquiring_functions(prog):
        res[fn.key] = OwnInterp(prog, fn).run()
    return res
