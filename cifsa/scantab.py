"""A3 for the scanner: reconstruct char_class / meta_class as initialised by INIT_V2_SCANNER (CIF 2.0) and patched by
SET_V1 (CIF 1.1); reserved-word recognisers of next_token / scan_unquoted / cif_is_reserved_string."""
import re

from .facts import Broken, strip, const, walk, walk_eval, macro_name
from .interp import path
from . import cfgq


def rpo(fn):
    order = []
    seen = set()

    def dfs(b):
        stack = [(b, iter(reversed(fn.blocks[b].succs)))]
        seen.add(b)
        while stack:
            x, it = stack[-1]
            adv = False
            for s in it:
                if s is not None and s not in seen:
                    seen.add(s)
                    stack.append((s, iter(reversed(fn.blocks[s].succs))))
                    adv = True
                    break
            if not adv:
                order.append(x)
                stack.pop()
    dfs(fn.entry)
    order.reverse()
    return {b: i for i, b in enumerate(order)}


def _table_store(n):
    """asg `X->char_class[idx] = v` / meta_class -> (table, idx_node, rhs) or None."""
    if n.get("k") != "asg" or n.get("op") != "=":
        return None
    l = strip(n.get("lhs"))
    if not isinstance(l, dict) or l.get("k") != "index":
        return None
    b = strip(l.get("base"))
    if not isinstance(b, dict) or b.get("k") != "member" or b.get("name") not in ("char_class", "meta_class"):
        return None
    return b["name"], strip(l.get("idx")), n.get("rhs")


def class_name(rhs):
    m = macro_name(rhs)
    return m


class ScannerTables:
    def __init__(self, prog):
        self.prog = prog
        fn = prog.fn("cif_parse_internal")
        self.fn = fn
        order = rpo(fn)
        self.table_max = prog.macro_int("CHAR_TABLE_MAX") if "CHAR_TABLE_MAX" in prog.macros else None
        if self.table_max is None:
            raise Broken("CHAR_TABLE_MAX not found")
        nodes = fn.nodes()
        stores = []
        for (b, i, r, n) in fn.eval_sites("asg"):
            ts = _table_store(n)
            if ts:
                stores.append((order.get(b.id, 1 << 30), i, b, n, ts))
        stores.sort(key=lambda x: (x[0], x[1]))
        self.v2_char = {}
        self.v2_meta = {}
        self.v1_char_patch = {}
        self.v1_meta_patch = {}
        self.raw = []
        self.dynamic = []
        for (_, i, b, n, (table, idx, rhs)) in stores:
            ms = n.get("ms") or []
            in_v1 = "SET_V1" in ms
            in_init = "INIT_V2_SCANNER" in ms
            if not (in_v1 or in_init):
                self.dynamic.append((n.get("l"), table))
                continue
            val = const(rhs)
            cname = class_name(rhs)
            ic = const(idx)
            tgt_char = self.v1_char_patch if in_v1 else self.v2_char
            tgt_meta = self.v1_meta_patch if in_v1 else self.v2_meta
            tgt = tgt_char if table == "char_class" else tgt_meta
            if ic is not None and val is not None:
                key = ic
                if table == "meta_class":
                    key = macro_name(idx) or ic
                tgt[key] = (cname, val)
                self.raw.append((table, key, cname, val, "V1" if in_v1 else "V2"))
                continue
            # loop-carried store: idx is the loop variable of `for (_i = a; _i < b; ...)`
            rng = self._loop_range(fn, b, idx)
            if rng is not None and val is not None:
                lo, hi = rng
                for k in range(lo, hi):
                    tgt[k if table == "char_class" else k] = (cname, val)
                self.raw.append((table, "%d..%d" % (lo, hi - 1), cname, val, "V1" if in_v1 else "V2"))
            else:
                # run-time (option-driven) stores: extra whitespace / EOL characters
                self.dynamic.append((n.get("l"), table))
        if len(self.v2_char) < 100:
            raise Broken("char_class table reconstruction found only %d entries" % len(self.v2_char))

    def _loop_range(self, fn, body_block, idx):
        if not isinstance(idx, dict) or idx.get("k") != "ref":
            return None
        var = idx["name"]
        for p in body_block.preds:
            pb = fn.blocks[p]
            c = cfgq.cond_of(fn, pb)
            if c is None:
                continue
            t = cfgq.cmp_test(c, lambda e: path(strip(e)) == var)
            if t is None:
                continue
            op, bound = t
            if op == "<":
                hi = bound
            elif op == "<=":
                hi = bound + 1
            else:
                continue
            # init: a predecessor of the condition block whose last store to var is a constant
            for pp in pb.preds:
                ib = fn.blocks[pp]
                init = None
                for r in ib.roots:
                    for n in walk_eval(r):
                        if n.get("k") == "asg" and n.get("op") == "=" and path(strip(n.get("lhs"))) == var and const(n.get("rhs")) is not None:
                            init = const(n.get("rhs"))
                if init is not None:
                    return init, hi
        return None

    def char_class(self, version):
        t = dict(self.v2_char)
        if version == 1:
            t.update(self.v1_char_patch)
        return t

    def meta_of_class(self, version):
        """class macro name -> metaclass macro name (GENERAL_META default set by the constant loop)."""
        out = {}
        default = None
        for k, (cname, val) in self.v2_meta.items():
            if isinstance(k, int):
                default = cname
        for k, (cname, val) in self.v2_meta.items():
            if not isinstance(k, int):
                out[k] = cname
        if version == 1:
            for k, (cname, val) in self.v1_meta_patch.items():
                if not isinstance(k, int):
                    out[k] = cname
        return out, default


# ------------------------------------------------------------------ reserved words
def _class_letter(cname):
    if cname == "UNDERSC_CLASS":
        return "_"
    m = re.match(r"^([A-Z])_CLASS$", cname or "")
    return m.group(1).lower() if m else None


def _token_index(n):
    """index of `token[i]` / `*token` inside an expression, or None."""
    for x in walk(n):
        if x.get("k") == "index" and path(strip(x.get("base"))) == "token":
            return const(x.get("idx"))
        if x.get("k") == "un" and x.get("op") == "*" and path(strip(x.get("e"))) == "token":
            return 0
    return None


def _reserved_word_helpers(prog):
    """static helpers of parser.c every path of which invokes the error callback with CIF_RESERVED_WORD"""
    cache = getattr(prog, "_rw_helpers", None)
    if cache is not None:
        return cache
    out = set()
    for fn in prog.all_functions():
        if fn.unit != "parser.c" or fn.name == "next_token":
            continue
        sites = []
        for (b, i, r, n) in fn.eval_sites("call"):
            if not n.get("callee") and n.get("args") and macro_name(n["args"][0]) == "CIF_RESERVED_WORD":
                sites.append((b.id, i))
        if sites and cfgq.must_follow(fn, (fn.entry, -1), sites):
            out.add(fn.name)
    prog._rw_helpers = out
    return out


def next_token_words(prog):
    """-> {word: set(outcomes)} read off next_token's class-comparison chain (true edges only)."""
    fn = prog.fn("next_token")
    nodes = fn.nodes()

    def cls_test(c):
        c = strip(c)
        if not isinstance(c, dict) or c.get("k") != "bin" or c.get("op") != "==":
            return None
        cname = macro_name(c.get("rhs"))
        if not cname or not cname.endswith("_CLASS"):
            return None
        i = _token_index(c.get("lhs"))
        if i is None:
            return None
        return i, cname

    def len_test(c):
        t = cfgq.cmp_test(c, lambda e: path(strip(e)) == "token_length")
        return t

    starts = [b for b in fn.blocks.values() if cfgq.cond_of(fn, b) is not None and len_test(cfgq.cond_of(fn, b)) is not None]
    if not starts:
        raise Broken("next_token: reserved-word recogniser not found")
    region_entry = max(starts, key=lambda b: b.id)    # clang numbers blocks backwards: highest id = earliest
    out = {}
    seen = set()
    stack = [(region_entry.id, (), ())]
    steps = 0
    while stack:
        bid, cons, lens = stack.pop()
        lens = tuple(sorted(set(lens)))
        key = (bid, cons, lens)
        if key in seen or bid > region_entry.id:
            continue            # clang numbers blocks backwards: a larger id is a back edge out of the region
        seen.add(key)
        steps += 1
        if steps > 20000:
            raise Broken("next_token: reserved-word region too large to enumerate")
        b = fn.blocks[bid]
        outcome = None
        for r in b.roots:
            for n in walk_eval(r):
                if n.get("k") == "asg" and path(strip(n.get("lhs"))) == "ttype":
                    names = sorted({x["name"] for x in walk(n.get("rhs")) if x.get("k") == "ref" and x.get("dk") == "enum"})
                    outcome = "|".join(names)
                if n.get("k") == "call" and not n.get("callee"):
                    a0 = n.get("args", [None])[0]
                    if macro_name(a0) == "CIF_RESERVED_WORD":
                        outcome = "error:CIF_RESERVED_WORD"
                elif n.get("k") == "call" and n.get("callee") in _reserved_word_helpers(prog):
                    # a helper of parser.c that does nothing but report CIF_RESERVED_WORD to the error callback
                    outcome = "error:CIF_RESERVED_WORD"
                if n.get("k") == "asg" and path(strip(n.get("lhs"))) == "scanner->ttype":
                    outcome = outcome or "END-OF-REGION"
        if outcome == "END-OF-REGION":
            continue
        if outcome and cons:
            word = "".join(_class_letter(dict(cons).get(i)) or "?" for i in range(max(dict(cons)) + 1))
            eq = sorted({l for l in lens if l[0] in ("==", "!=")})
            out.setdefault(word, set()).add(outcome + ("" if not eq else " [" + ",".join("len%s%d" % l for l in eq) + "]"))
            continue
        c = cfgq.cond_of(fn, b)
        if c is not None and len(b.succs) == 2:
            ct = cls_test(c)
            lt = len_test(c)
            t, f = b.succs
            if ct:
                prev = dict(cons).get(ct[0])
                if t is not None and (prev is None or prev == ct[1]):
                    stack.append((t, tuple(sorted(set(cons) | {ct})), lens))
                if f is not None:
                    stack.append((f, cons, lens))
            elif lt:
                neg = {"==": "!=", "!=": "==", ">": "<=", "<=": ">", "<": ">=", ">=": "<"}
                if t is not None:
                    stack.append((t, cons, lens + ((lt[0], lt[1]),)))
                if f is not None:
                    stack.append((f, cons, lens + ((neg[lt[0]], lt[1]),)))
            else:
                for s in b.succs:
                    if s is not None:
                        stack.append((s, cons, lens))
        else:
            for s in b.succs:
                if s is not None:
                    stack.append((s, cons, lens))
    return out


def scan_unquoted_words(prog):
    fn = prog.fn("scan_unquoted")
    out = {}
    for (b, i, r, n) in fn.eval_sites("decl"):
        for v in n.get("vars", []):
            if v["name"].endswith("_classes") and v.get("init") and strip(v["init"]).get("k") == "init":
                letters = [_class_letter(macro_name(e)) or "?" for e in strip(v["init"])["elems"]]
                out[v["name"]] = "".join(letters)
    if not out:
        raise Broken("scan_unquoted: data_classes/save_classes not found")
    return out
