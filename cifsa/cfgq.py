"""CFG queries: reachability with barriers, must-pass-through, guarded-by-edge facts with kills."""
from .facts import walk_eval, strip, const
from .interp import path


def sites(fn, pred):
    """[(block id, root index, root, node)] for evaluated nodes satisfying pred."""
    return [(b.id, i, r, n) for (b, i, r, n) in fn.eval_sites() if pred(n)]


def reach(fn, starts, barrier_blocks=(), removed_edges=()):
    """Blocks reachable from `starts` (block ids) without entering barrier blocks / using removed edges.
    A start that is itself a barrier is still expanded."""
    barrier = set(barrier_blocks)
    removed = set(removed_edges)
    seen = set(starts)
    st = list(starts)
    while st:
        x = st.pop()
        for idx, s in enumerate(fn.blocks[x].succs):
            if s is None or (x, idx) in removed or s in seen or s in barrier:
                continue
            seen.add(s)
            st.append(s)
    return seen


def must_precede(fn, site, events):
    """Every path entry -> site=(bid, idx) passes one of events=[(bid, idx)] first."""
    sb, si = site
    for (eb, ei) in events:
        if eb == sb and ei < si:
            return True
    barrier = {eb for (eb, ei) in events if eb != sb}
    if fn.entry in barrier:
        return True
    return sb not in reach(fn, [fn.entry], barrier)


def must_follow(fn, site, events, exits=None):
    """Every path from site=(bid, idx) to the function exit passes one of events."""
    sb, si = site
    for (eb, ei) in events:
        if eb == sb and ei > si:
            return True
    barrier = {eb for (eb, ei) in events if eb != sb}
    r = reach(fn, [sb], barrier)
    return fn.exit not in r


def must_pass_edge(fn, site_block, edges):
    """Every path entry -> site_block uses one of `edges` [(bid, succ index)]."""
    if site_block == fn.entry:
        return False
    return site_block not in reach(fn, [fn.entry], (), edges)


def cond_of(fn, blk):
    if blk.term and blk.term.get("cond") is not None:
        return fn.nodes().get(blk.term["cond"])
    return None


def guard_edges(fn, matcher):
    """matcher(cond_node) -> None | 'true' | 'false' : which outcome of the branch is the *permitted* one.
    Returns [(bid, succ index)] of permitted edges (two-way branches only)."""
    out = []
    for b in fn.blocks.values():
        if len(b.succs) != 2:
            continue
        c = cond_of(fn, b)
        if c is None:
            continue
        m = matcher(c)
        if m == "true":
            out.append((b.id, 0))
        elif m == "false":
            out.append((b.id, 1))
    return out


def zero_test(cond, target_pred):
    """If cond tests an expression E with target_pred(E) against zero, return which outcome means E == 0 /
    E is 'low' : returns ('true'|'false') for the outcome on which E == 0, else None.
    Recognises E, !E, E == 0, E != 0, 0 == E, 0 != E."""
    c = strip(cond)
    if not isinstance(c, dict):
        return None
    if target_pred(c):
        return "false"
    if c.get("k") == "un" and c.get("op") == "!":
        r = zero_test(c.get("e"), target_pred)
        return None if r is None else ("true" if r == "false" else "false")
    if c.get("k") == "bin" and c.get("op") in ("==", "!="):
        l, r = strip(c.get("lhs")), strip(c.get("rhs"))
        if const(r) == 0 and isinstance(l, dict) and target_pred(l):
            return "true" if c["op"] == "==" else "false"
        if const(l) == 0 and isinstance(r, dict) and target_pred(r):
            return "true" if c["op"] == "==" else "false"
    return None


def cmp_test(cond, target_pred):
    """cond is `E op C` (or `C op E`) with target_pred(E): returns (op normalised with E on the left, C) or None."""
    c = strip(cond)
    if not isinstance(c, dict) or c.get("k") != "bin" or c.get("op") not in ("<", "<=", ">", ">=", "==", "!="):
        return None
    flip = {"<": ">", ">": "<", "<=": ">=", ">=": "<=", "==": "==", "!=": "!="}
    l, r = strip(c.get("lhs")), strip(c.get("rhs"))
    if isinstance(l, dict) and target_pred(l) and const(r) is not None:
        return c["op"], const(r)
    if isinstance(r, dict) and target_pred(r) and const(l) is not None:
        return flip[c["op"]], const(l)
    return None


class MustFact:
    """Forward must-dataflow of one boolean fact.
    gen_edges: set of (bid, succ idx) establishing the fact; gen/kill sites: (bid, root idx)."""

    def __init__(self, fn, gen_edges=(), gen_sites=(), kill_sites=(), entry_value=False):
        self.fn = fn
        self.gen_edges = set(gen_edges)
        self.gen = {}
        self.kill = {}
        for (b, i) in gen_sites:
            self.gen.setdefault(b, []).append(i)
        for (b, i) in kill_sites:
            self.kill.setdefault(b, []).append(i)
        self.IN = {b: None for b in fn.blocks}     # None = not yet reached (top)
        self.IN[fn.entry] = entry_value
        self._solve()

    def _through(self, bid, val, upto=None):
        ev = sorted([(i, True) for i in self.gen.get(bid, [])] + [(i, False) for i in self.kill.get(bid, [])])
        for i, v in ev:
            if upto is not None and i >= upto:
                break
            val = v
        return val

    def _solve(self):
        fn = self.fn
        work = [fn.entry]
        while work:
            b = work.pop()
            val = self.IN[b]
            if val is None:
                continue
            out = self._through(b, val)
            for idx, s in enumerate(fn.blocks[b].succs):
                if s is None:
                    continue
                v = True if (b, idx) in self.gen_edges else out
                old = self.IN[s]
                new = v if old is None else (old and v)
                if new != old:
                    self.IN[s] = new
                    work.append(s)

    def at(self, bid, idx):
        """Fact value just before root idx of block bid (None if unreachable)."""
        v = self.IN.get(bid)
        if v is None:
            return None
        return self._through(bid, v, upto=idx)
