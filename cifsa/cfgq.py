"""CFG queries: reachability with barriers, must-pass-through, guarded-by-edge facts with kills."""
from .facts import walk_eval, strip, const
from .interp import path


def sites(fn, pred):
    """[(block id, root index, root, node)] for evaluated nodes satisfying pred."""
    return [(b.id, i, r, n) for (b, i, r, n) in fn.eval_sites() if pred(n)]


def reach(fn, starts, barrier_blocks=(), removed_edges=()):
    """Blocks reachable from `starts` (block ids) without entering barrier blocks / using removed edges.
    A start that is itself a barrier is still expanded."""
    barrier = set(barrier_blocks)
    removed = set(removed_edges)
    seen = set(starts)
    st = list(starts)
    while st:
        x = st.pop()
        for idx, s in enumerate(fn.blocks[x].succs):
            if s is None or (x, idx) in removed or s in seen or s in barrier:
                continue
            seen.add(s)
            st.append(s)
    return seen


def must_precede(fn, site, events):
    """Every path entry -> site=(bid, idx) passes one of events=[(bid, idx)] first."""
    sb, si = site
    for (eb, ei) in events:
        if eb == sb and ei < si:
            return True
    barrier = {eb for (eb, ei) in events if eb != sb}
    if fn.entry in barrier:
        return True
    return sb not in reach(fn, [fn.entry], barrier)


def must_follow(fn, site, events, exits=None):
    """Every path from site=(bid, idx) to the function exit passes one of events."""
    sb, si = site
    for (eb, ei) in events:
        if eb == sb and ei > si:
            return True
    barrier = {eb for (eb, ei) in events if eb != sb}
    r = reach(fn, [sb], barrier)
    return fn.exit not in r


def must_pass_edge(fn, site_block, edges):
    """Every path entry -> site_block uses one of `edges` [(bid, succ index)]."""
    if site_block == fn.entry:
        return False
    return site_block not in reach(fn, [fn.entry], (), edges)


def cond_of(fn, blk):
    if blk.term and blk.term.get("cond") is not None:
        return fn.nodes().get(blk.term["cond"])
    return None


def guard_edges(fn, matcher):
    """matcher(cond_node) -> None | 'true' | 'false' : which outcome of the branch is the *permitted* one.
    Returns [(bid, succ index)] of permitted edges (two-way branches only)."""
    out = []
    for b in fn.blocks.values():
        if len(b.succs) != 2:
            continue
        c = cond_of(fn, b)
        if c is None:
            continue
        m = matcher(c)
        if m == "true":
            out.append((b.id, 0))
        elif m == "false":
            out.append((b.id, 1))
    return out


def zero_test(cond, target_pred):
    """If cond tests an expression E with target_pred(E) against zero, return which outcome means E == 0 /
    E is 'low' : returns ('true'|'false') for the outcome on which E == 0, else None.
    Recognises E, !E, E == 0, E != 0, 0 == E, 0 != E."""
    c = strip(cond)
    if not isinstance(c, dict):
        return None
    if target_pred(c):
        return "false"
    if c.get("k") == "un" and c.get("op") == "!":
        r = zero_test(c.get("e"), target_pred)
        return None if r is None else ("true" if r == "false" else "false")
    if c.get("k") == "bin" and c.get("op") in ("==", "!="):
        l, r = strip(c.get("lhs")), strip(c.get("rhs"))
        if const(r) == 0 and isinstance(l, dict) and target_pred(l):
            return "true" if c["op"] == "==" else "false"
        if const(l) == 0 and isinstance(r, dict) and target_pred(r):
            return "true" if c["op"] == "==" else "false"
    return None


def cmp_test(cond, target_pred):
    """cond is `E op C` (or `C op E`) with target_pred(E): returns (op normalised with E on the left, C) or None."""
    c = strip(cond)
    if not isinstance(c, dict) or c.get("k") != "bin" or c.get("op") not in ("<", "<=", ">", ">=", "==", "!="):
        return None
    flip = {"<": ">", ">": "<", "<=": ">=", ">=": "<=", "==": "==", "!=": "!="}
    l, r = strip(c.get("lhs")), strip(c.get("rhs"))
    if isinstance(l, dict) and target_pred(l) and const(r) is not None:
        return c["op"], const(r)
    if isinstance(r, dict) and target_pred(r) and const(l) is not None:
        return flip[c["op"]], const(l)
    return None


class MustFact:
    """Forward must-dataflow of one boolean fact.
    gen_edges: set of (bid, succ idx) establishing the fact; gen/kill sites: (bid, root idx)."""

    def __init__(self, fn, gen_edges=(), gen_sites=(), kill_sites=(), entry_value=False):
        self.fn = fn
        self.gen_edges = set(gen_edges)
        self.gen = {}
        self.kill = {}
        for (b, i) in gen_sites:
            self.gen.setdefault(b, []).append(i)
        for (b, i) in kill_sites:
            self.kill.setdefault(b, []).append(i)
        self.IN = {b: None for b in fn.blocks}     # None = not yet reached (top)
        self.IN[fn.entry] = entry_value
        self._solve()

    def _through(self, bid, val, upto=None):
        ev = sorted([(i, True) for i in self.gen.get(bid, [])] + [(i, False) for i in self.kill.get(bid, [])])
        for i, v in ev:
            if upto is not None and i >= upto:
                break
            val = v
        return val

    def _solve(self):
        fn = self.fn
        work = [fn.entry]
        while work:
            b = work.pop()
            val = self.IN[b]
            if val is None:
                continue
            out = self._through(b, val)
            for idx, s in enumerate(fn.blocks[b].succs):
                if s is None:
                    continue
                v = True if (b, idx) in self.gen_edges else out
                old = self.IN[s]
                new = v if old is None else (old and v)
                if new != old:
                    self.IN[s] = new
                    work.append(s)

    def at(self, bid, idx):
        """Fact value just before root idx of block bid (None if unreachable)."""
        v = self.IN.get(bid)
        if v is None:
            return None
        return self._through(bid, v, upto=idx)


def fact_reach(fn, starts, barriers=(), init_facts=(), within=None, budget=200000, removed_edges=()):
    """Blocks reachable from `starts` without entering `barriers`, following only branch outcomes consistent with the zero /
    non-zero facts established by the branches already taken on the path (a fact is about the C-like text of the tested
    expression; it is dropped when a variable it mentions is written, and facts about memory reached through pointers are
    dropped at any store through a pointer and at calls).  Returns {block id: one trail of block ids leading to it}.
    `within`: optional set of block ids the search must stay inside.  init_facts: iterable of (expression text, is_zero)."""
    import re as _re
    from .facts import show
    from . import loops as _loops

    def key_of(e):
        e = strip(e)
        return show(e) if isinstance(e, dict) else None

    def branch_fact(cnd):
        holder = {}

        def pred(e):
            if e.get("k") == "asg" and e.get("op") == "=":
                # `(x = y) != 0` tests x after the assignment
                l = strip(e.get("lhs"))
                if isinstance(l, dict) and l.get("k") == "ref":
                    holder["k"] = l["name"]
                    return True
                return False
            k = key_of(e)
            if k is not None and e.get("k") in ("ref", "un", "index", "member"):
                holder["k"] = k
                return True
            return False
        z = zero_test(cnd, pred)
        if z is None or "k" not in holder:
            return None
        return holder["k"], z

    kcache = {}

    def kills(b):
        r_ = kcache.get(b.id)
        if r_ is None:
            ws, through, called = set(), False, False
            for r in b.roots:
                rd, wr, calls, dw, dr = _loops.rw(r)
                ws |= set(wr)
                through = through or dw
                called = called or bool(calls)
            r_ = kcache[b.id] = (ws, through, called)
        return r_

    def mentions(key, var):
        return _re.search(r"\b%s\b" % _re.escape(var), key) is not None

    barriers = set(barriers)
    removed = set(removed_edges)
    gcache = {}
    found = {}
    seen = set()
    stack = [(s, frozenset(init_facts), (s,)) for s in starts if s is not None]
    steps = 0
    while stack:
        bid, facts, trail = stack.pop()
        steps += 1
        if steps > budget:
            raise Exception("fact_reach: budget exceeded in %s" % fn.name)
        if (bid, facts) in seen:
            continue
        seen.add((bid, facts))
        if within is not None and bid not in within:
            continue
        if bid not in found:
            found[bid] = trail
        if bid in barriers:
            continue
        b = fn.blocks[bid]
        ws, through, called = kills(b)
        if facts:
            roots_w = {w.lstrip("*(").split("->")[0].split(".")[0].split("[")[0] for w in ws}
            facts = frozenset((k, v) for (k, v) in facts
                              if not any(mentions(k, w) for w in roots_w)
                              and not ((through or called) and ("*" in k or "[" in k or "->" in k)))
        # assignments of constants and copies between plain locals establish facts of their own
        gens = gcache.get(bid)
        if gens is None:
            gens = []
            from .facts import walk_eval as _we
            for r in b.roots:
                for x in _we(r):
                    if x.get("k") == "asg" and x.get("op") == "=":
                        l = strip(x.get("lhs"))
                        if isinstance(l, dict) and l.get("k") == "ref":
                            rr = strip(x.get("rhs"))
                            c = const(rr)
                            if c is not None:
                                gens.append((l["name"], "const", c == 0))
                            elif isinstance(rr, dict) and rr.get("k") == "ref":
                                gens.append((l["name"], "copy", rr["name"]))
                    elif x.get("k") == "decl":
                        for v in x.get("vars", []):
                            if v.get("init") is not None and const(v["init"]) is not None:
                                gens.append((v["name"], "const", const(v["init"]) == 0))
            gcache[bid] = gens
        if gens:
            fd = dict(facts)
            for (name, kind, val) in gens:
                if kind == "const":
                    fd[name] = val
                elif val in fd:
                    fd[name] = fd[val]
                else:
                    fd.pop(name, None)
            facts = frozenset(fd.items())
        cnd = cond_of(fn, b) if len(b.succs) == 2 else None
        bf = branch_fact(cnd) if cnd is not None else None
        for idx, s in enumerate(b.succs):
            if s is None or (bid, idx) in removed:
                continue
            f2 = facts
            if bf is not None:
                k, zero_on = bf
                is_zero = (idx == 0) == (zero_on == "true")
                known = dict(facts).get(k)
                if known is not None and known != is_zero:
                    continue
                f2 = facts | {(k, is_zero)}
            stack.append((s, f2, trail + (s,)))
    return found


def exclusive(fn, b1, b2):
    """True when blocks b1 and b2 lie on alternative branches: neither reaches the other once loop back edges are removed."""
    from . import loops as _loops
    dag = getattr(fn, "_dag_reach", None)
    if dag is None:
        back = set()
        for lp in _loops.natural_loops(fn):
            for t in lp.tails:
                for idx, s_ in enumerate(fn.blocks[t].succs):
                    if s_ == lp.header:
                        back.add((t, idx))
        dag = fn._dag_reach = {"back": back, "cache": {}}
    def fwd(b):
        r = dag["cache"].get(b)
        if r is None:
            r = dag["cache"][b] = reach(fn, [b], (), dag["back"])
        return r
    if b1 == b2:
        return False
    return b2 not in fwd(b1) and b1 not in fwd(b2)

