"""Release of a pointer that was never set (C16 / C17).

A local pointer declared without an initialiser is handed, by address, to a function that stores an object there only
when it succeeds.  On the path through that function's failure the local still holds whatever was on the stack; a
`free(p)` (or a `*_free(p)` of the library) reached on that path without an assignment in between releases a wild pointer.

Instances: (function, local, call that receives &local).  A call is judged only when the local cannot have been assigned
before it.  The failure path is followed with the zero / non-zero facts of the branches (cfgq.fact_reach), the success
outcome of the first test of the call's result being removed.
"""
import re

from .facts import strip, const, walk, walk_eval, show
from .interp import path
from . import cfgq

RELEASERS = re.compile(r"^(free|cif_\w+_free|cif_value_free|cif_container_free|cif_loop_free|cif_packet_free|cif_pktitr_close|cif_pktitr_abort)$")


def _uninit_pointer_locals(fn):
    out = {}
    for (b, i, r, n) in fn.eval_sites("decl"):
        for v in n.get("vars", []):
            if "*" in v.get("t", "") and v.get("init") is None and not v.get("static"):
                out[v["name"]] = (b.id, i)
    return out


def _writes(fn, var):
    out = []
    for (b, i, r, n) in fn.eval_sites():
        if n.get("k") == "asg" and path(strip(n.get("lhs"))) == var:
            out.append((b.id, i, n))
    return out


def rule(prog, rule_):
    n = 0
    for fn in prog.all_functions():
        ptrs = _uninit_pointer_locals(fn)
        if not ptrs:
            continue
        for (b, i, r, c) in fn.calls():
            if not c.get("callee") or RELEASERS.match(c["callee"]):
                continue
            for a in c.get("args", []):
                a = strip(a)
                if not (isinstance(a, dict) and a.get("k") == "un" and a.get("op") == "&"):
                    continue
                v = path(strip(a.get("e")))
                if v not in ptrs:
                    continue
                writes = _writes(fn, v)
                # other calls that receive &v count as writes too
                others = [(b2.id, i2) for (b2, i2, r2, c2) in fn.calls() if c2.get("id") != c.get("id")
                          and any(isinstance(strip(x), dict) and strip(x).get("k") == "un" and strip(x).get("op") == "&"
                                  and path(strip(strip(x).get("e"))) == v for x in c2.get("args", []))]
                before = cfgq.reach(fn, [fn.entry], barrier_blocks=[b.id])
                if any(wb in before and wb != b.id for (wb, wi, wn) in writes) or any(ob in before and ob != b.id for (ob, oi) in others) \
                        or any(wb == b.id and wi < i for (wb, wi, wn) in writes):
                    continue            # may have been set before this call: another rule's business
                # the variable that receives the call's result
                rvar = None
                for x in walk_eval(r):
                    if x.get("k") == "asg" and x.get("op") == "=" and any(y.get("id") == c.get("id") for y in walk(x.get("rhs")) if isinstance(y, dict)):
                        rvar = path(strip(x.get("lhs")))
                for (b2, i2, r2, d) in fn.eval_sites("decl"):
                    for dv in d.get("vars", []):
                        if dv.get("init") is not None and any(y.get("id") == c.get("id") for y in walk(dv["init"]) if isinstance(y, dict)):
                            rvar = dv["name"]
                n += 1
                key = "%s:%s<-%s@L%s" % (fn.name, v, c["callee"], c.get("l"))
                # success edges of the first test(s) of the result
                removed = []
                if rvar:
                    rw = {wb for (wb, wi, wn) in _writes(fn, rvar) if wb != b.id}
                    region = cfgq.reach(fn, [b.id], barrier_blocks=rw) | {b.id}

                    def ok_edge(cnd):
                        z = cfgq.zero_test(cnd, lambda e: path(strip(e)) == rvar or (
                            strip(e).get("k") == "asg" and path(strip(strip(e).get("lhs"))) == rvar))
                        return z
                    removed = [(bid, idx) for (bid, idx) in cfgq.guard_edges(fn, ok_edge) if bid in region]
                    # a switch on the result: the `case 0` edge
                    for bid in region:
                        blk = fn.blocks[bid]
                        if blk.term and blk.term.get("k") == "SwitchStmt":
                            cnd = cfgq.cond_of(fn, blk)
                            if cnd is not None and any(path(y) == rvar for y in walk(cnd) if isinstance(y, dict)):
                                for idx, s in enumerate(blk.succs):
                                    if s is not None and fn.blocks[s].label and fn.blocks[s].label.get("k") == "case" \
                                            and fn.blocks[s].label.get("v") == 0:
                                        removed.append((bid, idx))
                else:
                    cnd = cfgq.cond_of(fn, b) if len(b.succs) == 2 else None
                    if cnd is not None and any(isinstance(y, dict) and y.get("id") == c.get("id") for y in walk(cnd)):
                        z = cfgq.zero_test(cnd, lambda e: True)
                        t = cfgq.cmp_test(cnd, lambda e: True)
                        if t and t[1] == 0 and t[0] in ("==", "!="):
                            removed = [(b.id, 0 if t[0] == "==" else 1)]
                        elif z:
                            removed = [(b.id, 0 if z == "true" else 1)]
                if not removed:
                    rule_.info(key, "the call's result is not tested in a recognised form: no verdict")
                    continue
                barrier = {wb for (wb, wi, wn) in writes} | {ob for (ob, oi) in others}
                try:
                    found = cfgq.fact_reach(fn, [b.id], barriers=barrier, removed_edges=removed)
                except Exception:
                    rule_.unproved(key, "path search budget exceeded")
                    continue
                bad = None
                for (b3, i3, r3, c3) in fn.calls():
                    if not c3.get("callee") or not RELEASERS.match(c3["callee"]) or not c3.get("args"):
                        continue
                    if path(strip(c3["args"][0])) != v:
                        continue
                    if b3.id in found and (b3.id != b.id or i3 > i) and b3.id not in barrier:
                        bad = (c3, found[b3.id])
                        break
                if bad:
                    c3, trail = bad
                    rule_.violation(fn.file, fn.name, c3.get("l"), "release-of-unset-pointer:%s:%s" % (fn.name, v),
                                    "`%s` is declared without an initialiser and set only by %s (L%s) when that succeeds; on the path "
                                    "where it fails, `%s` at L%s releases whatever the variable held" % (v, c["callee"], c.get("l"), show(c3)[:40], c3.get("l")),
                                    path=["B%s" % t for t in trail][-20:])
                else:
                    rule_.ok(key, "not released on the failure path of the call")
    return n
