"""Loop and dependence structure over a function's CFG: dominators, post-dominators, natural loops, per-root
read/write sets, upward-exposed uses, control dependence."""
from .facts import walk_eval, strip
from .interp import path


def _dom(fn, forward=True):
    """Iterative dominator sets (forward) / post-dominator sets (backward) as {block: frozenset}."""
    blocks = list(fn.blocks)
    root = fn.entry if forward else fn.exit
    nxt = (lambda b: [s for s in fn.blocks[b].succs if s is not None]) if forward else (lambda b: fn.blocks[b].preds)
    prv = (lambda b: fn.blocks[b].preds) if forward else (lambda b: [s for s in fn.blocks[b].succs if s is not None])
    # restrict to blocks reachable from root
    seen = {root}
    st = [root]
    while st:
        x = st.pop()
        for s in nxt(x):
            if s not in seen:
                seen.add(s)
                st.append(s)
    full = frozenset(seen)
    dom = {b: full for b in seen}
    dom[root] = frozenset([root])
    changed = True
    order = sorted(seen, reverse=forward)
    while changed:
        changed = False
        for b in order:
            if b == root:
                continue
            ps = [p for p in prv(b) if p in seen]
            if not ps:
                continue
            new = None
            for p in ps:
                new = dom[p] if new is None else (new & dom[p])
            new = new | {b}
            if new != dom[b]:
                dom[b] = new
                changed = True
    return dom


def dominators(fn):
    d = getattr(fn, "_dom", None)
    if d is None:
        d = fn._dom = _dom(fn, True)
    return d


def postdominators(fn):
    d = getattr(fn, "_pdom", None)
    if d is None:
        d = fn._pdom = _dom(fn, False)
    return d


class Loop:
    __slots__ = ("header", "tails", "body", "fn")

    def __init__(self, fn, header):
        self.fn = fn
        self.header = header
        self.tails = []
        self.body = {header}

    def exits(self):
        """[(block, succ index, target)] edges leaving the loop."""
        out = []
        for b in self.body:
            for i, s in enumerate(self.fn.blocks[b].succs):
                if s is not None and s not in self.body:
                    out.append((b, i, s))
        return out

    def line(self):
        ls = [n.get("l") for b in self.body for r in self.fn.blocks[b].roots for n in walk_eval(r) if n.get("l")]
        return min(ls) if ls else self.fn.line


def natural_loops(fn):
    """Natural loops keyed by header (back edges t->h with h dominating t; loops sharing a header are merged)."""
    ls = getattr(fn, "_loops", None)
    if ls is not None:
        return ls
    dom = dominators(fn)
    loops = {}
    for b in fn.blocks.values():
        if b.id not in dom:
            continue
        for s in b.succs:
            if s is not None and s in dom[b.id]:
                lp = loops.setdefault(s, Loop(fn, s))
                lp.tails.append(b.id)
                st = [b.id]
                while st:
                    x = st.pop()
                    if x in lp.body:
                        continue
                    lp.body.add(x)
                    st.extend(p for p in fn.blocks[x].preds if p in dom)
    fn._loops = ls = list(loops.values())
    return ls


# ------------------------------------------------------------------ reads and writes of one root expression
def rw(root):
    """(reads, writes, calls, derefw, derefr) of the nodes evaluated by `root`, in evaluation order:
    reads/writes are lists of access paths; derefw/derefr tell whether something is written/read through a pointer,
    array element or struct reached by pointer."""
    reads, writes, calls = [], [], []
    derefw = derefr = False
    lhs_ids = set()
    nodes = walk_eval(root)
    for n in nodes:
        k = n.get("k")
        if k == "asg":
            l = strip(n.get("lhs"))
            if isinstance(l, dict) and n.get("op") == "=":
                lhs_ids.add(l.get("id"))
        elif k == "un" and n.get("op") == "&":
            e = strip(n.get("e"))
            if isinstance(e, dict):
                lhs_ids.add(e.get("id"))
    for n in nodes:
        k = n.get("k")
        if k == "decl":
            for v in n.get("vars", []):
                if v.get("init") is not None:
                    writes.append(v["name"])
        elif k == "asg":
            p = path(strip(n.get("lhs")))
            if p is None:
                derefw = True
            else:
                writes.append(p)
                if not _plain(p):
                    derefw = True
                if n.get("op") != "=":
                    reads.append(p)
        elif k == "un" and n.get("op") in ("post++", "post--", "pre++", "pre--"):
            p = path(strip(n.get("e")))
            if p is None:
                derefw = True
            else:
                writes.append(p)
                reads.append(p)
                if not _plain(p):
                    derefw = True
        elif k == "un" and n.get("op") == "&":
            p = path(strip(n.get("e")))
            if p is not None:
                writes.append(p)       # address taken: whoever receives it may write
                reads.append(p)
        elif k == "call":
            calls.append(n)
        elif k in ("ref", "member", "index") or (k == "un" and n.get("op") == "*"):
            if n.get("id") in lhs_ids:
                continue
            p = path(n)
            if p is not None:
                if k == "ref" and n.get("dk") in ("func", "enum"):
                    continue
                reads.append(p)
                if not _plain(p):
                    derefr = True
            elif k != "ref":
                derefr = True
    return reads, writes, calls, derefw, derefr


def _plain(p):
    return p.replace("_", "a").isalnum()


def loop_rw(loop):
    """Per-block ordered event lists [('r'|'w', path)] plus summary flags."""
    fn = loop.fn
    ev = {}
    calls = []
    dw = dr = False
    for b in loop.body:
        lst = []
        for r in fn.blocks[b].roots:
            reads, writes, cs, w, rd = rw(r)
            # within one root: reads happen before the write of an assignment (rhs first) - approximate by reads then writes
            # except declarations/plain assignments whose own lhs is not read
            for p in reads:
                lst.append(("r", p))
            for p in writes:
                lst.append(("w", p))
            calls.extend(cs)
            dw = dw or w
            dr = dr or rd
        ev[b] = lst
    return ev, calls, dw, dr


def upward_exposed(loop, var, ev):
    """True if `var` may be read inside the loop on some path from the header before being written in that iteration."""
    fn = loop.fn
    seen = set()
    st = [loop.header]
    while st:
        b = st.pop()
        if b in seen:
            continue
        seen.add(b)
        killed = False
        for kind, p in ev.get(b, []):
            if p == var or p.startswith(var + ".") or p.startswith(var + "->") or p.startswith(var + "["):
                if kind == "r":
                    return True
                if p == var:
                    killed = True
                    break
        if killed:
            continue
        for s in fn.blocks[b].succs:
            if s is not None and s in loop.body and s != loop.header:
                st.append(s)
    return False


# ------------------------------------------------------------------ control dependence
def control_dependents(fn, bid):
    """For a two-way branch block: ({blocks control dependent on the true edge}, {... on the false edge})."""
    pdom = postdominators(fn)
    b = fn.blocks[bid]
    out = []
    for idx, s in enumerate(b.succs[:2]):
        dep = set()
        if s is not None and s in pdom:
            # blocks post-dominating s (walking up the post-dominator sets) that do not post-dominate bid
            mine = pdom.get(bid, frozenset())
            for x in pdom[s]:
                if x not in mine or x == bid:
                    if x != bid:
                        dep.add(x)
        out.append(dep)
    while len(out) < 2:
        out.append(set())
    return out[0], out[1]
