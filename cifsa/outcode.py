"""A failure indicator comes with its code (C03 / C17).

A function that reports failure by a negative return value and the reason through an `int *` out-parameter (the character
sources of the scanner: `read_func(source, dest, count, &error)`) must have stored through that parameter on every path
to a return of a negative constant: the caller returns the pointed-to variable as the parse result, and that variable is an
uninitialised local of the caller.

Instances: returns of a negative constant in functions that have an `int *` parameter they store through at least once.
"""
from .facts import strip, const, walk_eval
from .interp import path
from . import cfgq


def rule(prog, rule_):
    n = 0
    for fn in prog.all_functions():
        for p in fn.params:
            t = p.get("t", "").replace(" ", "")
            if t != "int*":
                continue
            name = p["name"]
            stores = []
            for (b, i, r, x) in fn.eval_sites("asg"):
                lhs = strip(x.get("lhs"))
                if isinstance(lhs, dict) and lhs.get("k") == "un" and lhs.get("op") == "*" and path(strip(lhs.get("e"))) == name:
                    stores.append((b.id, i))
                elif isinstance(lhs, dict) and lhs.get("k") == "index" and path(strip(lhs.get("base"))) == name and const(lhs.get("idx")) == 0:
                    stores.append((b.id, i))
            if not stores:
                continue
            for (b, i, r, x) in fn.returns():
                c = const(x.get("e")) if x.get("e") is not None else None
                if c is None or c >= 0:
                    continue
                n += 1
                key = "%s:return %d@L%s" % (fn.name, c, x.get("l"))
                if cfgq.must_precede(fn, (b.id, i), stores):
                    rule_.ok(key, "after a store through `%s`" % name)
                else:
                    rule_.violation(fn.file, fn.name, x.get("l"), "failure-without-code:%s" % fn.name,
                                    "`return %d` is reached on a path that has not stored through `%s`: the caller takes the "
                                    "negative result for a failure and returns the variable `%s` points to - an uninitialised local - "
                                    "as the result code" % (c, name, name))
    return n
