"""Constant evaluation of the per-character validation macro over the CFG: for a chosen code unit K and CIF version V, which
outcomes (reported as CIF_DISALLOWED_CHAR / accepted silently) can an expansion of SCAN_UCHAR reach?  Branch conditions that
depend only on the character, on values computed from it inside the expansion and on the version are decided; any other
condition is followed both ways (sparse conditional constant propagation restricted to one macro expansion)."""
from .facts import Broken, strip, const, walk, walk_eval, macro_name
from .interp import path
from . import cfgq

MACRO = "SCAN_UCHAR"


def _ev(e, env, version):
    """value of a side-effect-free expression, None if unknown"""
    e = strip(e)
    if not isinstance(e, dict):
        return None
    c = const(e)
    if c is not None:
        return c
    k = e.get("k")
    if k in ("ref", "member"):
        p = path(e)
        if p in env:
            return env[p]
        if p and p.endswith("cif_version"):
            return version
        return None
    if k == "cast":
        return _ev(e.get("e"), env, version)
    if k == "un":
        v = _ev(e.get("e"), env, version)
        if v is None:
            return None
        return {"!": int(not v), "-": -v, "~": ~v, "+": v}.get(e.get("op"))
    if k == "cond":
        cv = _ev(e.get("c"), env, version)
        if cv is None:
            a, b = _ev(e.get("then"), env, version), _ev(e.get("else"), env, version)
            return a if (a is not None and a == b) else None
        return _ev(e.get("then") if cv else e.get("else"), env, version)
    if k == "bin":
        op = e.get("op")
        if op in ("&&", "||"):
            a = _ev(e.get("lhs"), env, version)
            if a is not None and ((op == "&&" and not a) or (op == "||" and a)):
                return int(op == "||")
            b = _ev(e.get("rhs"), env, version)
            if b is not None and ((op == "&&" and not b) or (op == "||" and b)):
                return int(op == "||")
            if a is None or b is None:
                return None
            return int(bool(a) and bool(b)) if op == "&&" else int(bool(a) or bool(b))
        a, b = _ev(e.get("lhs"), env, version), _ev(e.get("rhs"), env, version)
        if a is None or b is None:
            return None
        try:
            if op in ("%", "/"):
                if b == 0 or a < 0 or b < 0:
                    return None
                return a % b if op == "%" else a // b
            return {"&": a & b, "|": a | b, "^": a ^ b, "+": a + b, "-": a - b, "==": int(a == b), "!=": int(a != b),
                    "<": int(a < b), "<=": int(a <= b), ">": int(a > b), ">=": int(a >= b), "<<": a << b, ">>": a >> b,
                    "*": a * b}[op]
        except (KeyError, ValueError):
            return None
    return None


def instances(prog, unit="parser.c"):
    """[(fn, line, entry block id, entry root index, char variable)] for every expansion of the macro"""
    out = []
    for fn in prog.all_functions():
        if fn.unit != unit:
            continue
        seen = set()
        for (b, i, r, n) in fn.eval_sites("asg"):
            ms = n.get("ms") or []
            if MACRO not in ms or n.get("op") != "=":
                continue
            rhs = strip(n.get("rhs"))
            if not (isinstance(rhs, dict) and rhs.get("k") == "un" and rhs.get("op") == "*"
                    and (path(strip(rhs.get("e"))) or "").endswith("next_char")):
                continue
            cv = path(strip(n.get("lhs")))
            if cv is None or (fn.name, n.get("l")) in seen:
                continue
            seen.add((fn.name, n.get("l")))
            out.append((fn, n.get("l"), b.id, i, cv))
    return out


def outcomes(prog, fn, line, bid, idx, cvar, K, version, code):
    """set of outcomes {'reported', 'accepted'} of the expansion at `line` for code unit K"""
    res = set()
    stack = [(bid, idx + 1, (("%s" % cvar, K),))]
    seen = set()
    steps = 0
    while stack:
        b_id, start, envt = stack.pop()
        if (b_id, start, envt) in seen:
            continue
        seen.add((b_id, start, envt))
        steps += 1
        if steps > 20000:
            raise Broken("%s: evaluation of %s at L%s exceeded its budget" % (fn.name, MACRO, line))
        env = dict(envt)
        b = fn.blocks[b_id]
        stop = False
        for i in range(start, len(b.roots)):
            r = b.roots[i]
            inside = any(MACRO in (x.get("ms") or []) and x.get("l") == line for x in walk(r))
            if not inside:
                res.add("accepted")
                stop = True
                break
            for x in walk(r):
                if x.get("ext"):
                    continue
                if x.get("k") == "call" and x.get("callee") is None and x.get("fn") is not None \
                        and (path(strip(x["fn"])) or "").endswith("error_callback") and x.get("args"):
                    if const(x["args"][0]) == code:
                        res.add("reported")
                        stop = True
                        break
                    res.add("other-report")
                    stop = True
                    break
            if stop:
                break
            for x in walk(r):
                if x.get("ext"):
                    continue
                if x.get("k") == "asg":
                    lp = path(strip(x.get("lhs")))
                    if lp is None:
                        continue
                    if x.get("op") == "=":
                        v = _ev(x.get("rhs"), env, version)
                    else:
                        v = None
                    if v is None:
                        env.pop(lp, None)
                        if lp == cvar:
                            res.add("replaced")
                            stop = True
                    else:
                        env[lp] = v
                elif x.get("k") == "decl":
                    for v_ in x.get("vars", []):
                        if v_.get("init") is not None:
                            v = _ev(v_["init"], env, version)
                            if v is not None:
                                env[v_["name"]] = v
            if stop:
                break
        if stop:
            continue
        cnd = cfgq.cond_of(fn, b)
        envt2 = tuple(sorted(env.items()))
        if cnd is not None and len(b.succs) == 2:
            if not (MACRO in (cnd.get("ms") or []) and cnd.get("l") == line) and not any(
                    MACRO in (x.get("ms") or []) and x.get("l") == line for x in walk(cnd)):
                res.add("accepted")
                continue
            v = _ev(cnd, env, version)
            for j, s in enumerate(b.succs):
                if s is None:
                    continue
                if v is not None and (j == 0) != bool(v):
                    continue
                stack.append((s, 0, envt2))
        else:
            for s in b.succs:
                if s is not None:
                    if s == fn.exit:
                        res.add("accepted")
                    else:
                        stack.append((s, 0, envt2))
    return res


# code units at and above the classification table, with what CIF 2.0 says about them
FORBIDDEN_V2 = (0xFEFF, 0xFFFE, 0xFFFF, 0xFDD0, 0xFDEF, 0xFDE0)
ALLOWED_V2 = (0xFDCF, 0xFDF0, 0xFEFE, 0xFF00, 0xE000, 0x2028, 0x00A0 + 0x100)


def rule(prog, r):
    code = prog.macro_int("CIF_DISALLOWED_CHAR")
    inst = instances(prog)
    if len(inst) < 3:
        raise Broken("only %d expansions of %s found" % (len(inst), MACRO))
    n = 0
    for (fn, line, bid, idx, cvar) in inst:
        bad = None
        for K in FORBIDDEN_V2:
            o = outcomes(prog, fn, line, bid, idx, cvar, K, 2, code)
            if o != {"reported"}:
                bad = ("U+%04X is not reported as CIF_DISALLOWED_CHAR in CIF 2.0 mode on every path (outcomes: %s)" % (K, sorted(o)), K)
                break
        if bad is None:
            for K in ALLOWED_V2:
                o = outcomes(prog, fn, line, bid, idx, cvar, K, 2, code)
                if "reported" in o or "other-report" in o:
                    bad = ("the allowed character U+%04X is reported in CIF 2.0 mode (outcomes: %s)" % (K, sorted(o)), K)
                    break
        if bad is None:
            o = outcomes(prog, fn, line, bid, idx, cvar, 0xFEFF, 1, code)
            if o != {"reported"}:
                bad = ("U+FEFF is not reported in CIF 1.1 mode on every path (outcomes: %s)" % sorted(o), 0xFEFF)
        n += 1
        key = "%s:L%s" % (fn.name, line)
        if bad:
            r.violation(fn.file, fn.name, line, "char-validation:%s:U+%04X" % (fn.name, bad[1]),
                        "%s expansion at L%s (character variable `%s`): %s" % (MACRO, line, cvar, bad[0]))
        else:
            r.ok(key, "%d forbidden code units reported, %d allowed ones accepted (CIF 2.0); U+FEFF reported in CIF 1.1"
                 % (len(FORBIDDEN_V2), len(ALLOWED_V2)))
    return n


def predicate_outcomes(fn, ch, limit=400):
    """For a function of the shape `for (c = s; *c; c++) { ...tests of *c...; return K; }`: the constants it can return while
    `*c` is the code unit ch, plus "next" if it can move on to the following character.  Conditions are evaluated with *c
    (and c[0]) bound to ch; what cannot be evaluated is followed on both outcomes."""
    ptrs = {v["name"] for v in list(fn.locals) + list(fn.params) if "UChar" in v.get("t", "") and "*" in v.get("t", "")}

    class Env(dict):
        pass

    def ev(e):
        e = strip(e)
        if isinstance(e, dict):
            if e.get("k") == "un" and e.get("op") == "*" and path(strip(e.get("e"))) in ptrs:
                return ch
            if e.get("k") == "index" and path(strip(e.get("base"))) in ptrs and const(e.get("idx")) == 0:
                return ch
        return None

    def evx(e):
        # substitute: wrap _ev with a hook for the dereference
        e = strip(e)
        v = ev(e)
        if v is not None:
            return v
        if not isinstance(e, dict):
            return None
        c = const(e)
        if c is not None:
            return c
        k = e.get("k")
        if k == "cast":
            return evx(e.get("e"))
        if k == "un":
            v = evx(e.get("e"))
            return None if v is None else {"!": int(not v), "-": -v, "~": ~v, "+": v}.get(e.get("op"))
        if k == "bin":
            op = e.get("op")
            a, b = evx(e.get("lhs")), evx(e.get("rhs"))
            if op in ("&&", "||"):
                if a is not None and ((op == "&&" and not a) or (op == "||" and a)):
                    return int(op == "||")
                if b is not None and ((op == "&&" and not b) or (op == "||" and b)):
                    return int(op == "||")
                if a is None or b is None:
                    return None
                return int(bool(a) and bool(b)) if op == "&&" else int(bool(a) or bool(b))
            if a is None or b is None:
                return None
            try:
                return {"&": a & b, "|": a | b, "^": a ^ b, "+": a + b, "-": a - b, "==": int(a == b), "!=": int(a != b),
                        "<": int(a < b), "<=": int(a <= b), ">": int(a > b), ">=": int(a >= b)}[op]
            except KeyError:
                return None
        return None
    outs = set()
    seen = set()
    work = [fn.entry]
    steps = 0
    while work and steps < limit:
        bid = work.pop()
        if bid in seen or bid is None:
            continue
        seen.add(bid)
        steps += 1
        blk = fn.blocks[bid]
        stop = False
        for r in blk.roots:
            for x in walk_eval(r):
                if x.get("k") == "ret":
                    v = evx(x.get("e")) if x.get("e") is not None else None
                    outs.add(v if v is not None else "?")
                    stop = True
                elif (x.get("k") == "un" and x.get("op") in ("pre++", "post++") and path(strip(x.get("e"))) in ptrs) or \
                        (x.get("k") == "asg" and x.get("op") in ("+=",) and path(strip(x.get("lhs"))) in ptrs):
                    outs.add("next")
                    stop = True
            if stop:
                break
        if stop:
            continue
        term = blk.term
        succs = [s for s in blk.succs]
        if term and term.get("k") == "SwitchStmt" and term.get("cond") is not None:
            cnd = fn.nodes().get(term["cond"])
            v = evx(cnd) if cnd is not None else None
            if v is not None:
                tgt = None
                dflt = None
                for s in succs:
                    if s is None:
                        continue
                    lab = fn.blocks[s].label
                    if lab and lab.get("k") == "case" and lab.get("v") == v:
                        tgt = s
                    elif not (lab and lab.get("k") == "case"):
                        dflt = s
                work.append(tgt if tgt is not None else dflt)
                continue
        elif len(succs) == 2 and term and term.get("cond") is not None:
            cnd = fn.nodes().get(term["cond"])
            v = evx(cnd) if cnd is not None else None
            if v is not None:
                work.append(succs[0] if v else succs[1])
                continue
        work.extend(s for s in succs if s is not None)
    return outs
