"""C14 — cif_walk visits every element once and obeys the handlers' directives (finite-domain abstract interpretation)."""
import re

from ..facts import Broken, strip, const, walk, walk_eval, show
from ..interp import Interp, State, path, av_const, AV, NONZERO
from .. import cfgq
from ..parserai import indirect_target

CONT, SKIPC, SKIPS, END = 0, -1, -2, -3
POS = AV(1, None)
OTHERNEG = AV(None, -4)
WALKERS = ("cif_walk", "walk_container", "walk_loops", "walk_loop", "walk_packet", "walk_item")
# walk_loops iterates over a container's loops on behalf of walk_container and hands a loop's SKIP_SIBLINGS up to it,
# where it is consumed (`case CIF_TRAVERSE_SKIP_SIBLINGS: return CIF_TRAVERSE_CONTINUE`)
SIBLING_HELPERS = ("walk_loops",)
API = {"cif_get_all_blocks": "plain", "cif_container_get_all_frames": "plain", "cif_container_get_all_loops": "plain",
       "cif_loop_get_packets": "plain", "cif_pktitr_next_packet": "next", "cif_pktitr_close": "plain"}
# expected callback / child sequence when every handler continues (consecutive repeats collapsed)
PATTERN = {
    "cif_walk": r"^handle_cif_start( walk_container)? handle_cif_end$",
    "walk_container": r"^(handle_block_start|handle_frame_start)( walk_container)? walk_loops (handle_block_end|handle_frame_end)$",
    "walk_loops": r"^(walk_loop)?$",
    "walk_loop": r"^handle_loop_start( walk_packet)? handle_loop_end$",
    "walk_packet": r"^handle_packet_start( walk_item)? handle_packet_end$",
    "walk_item": r"^handle_item$",
}


class WalkInterp(Interp):
    """ts = (stop, stop_origin, skipcur, sibl, seq, holders, mark)
    mark = (site id, answer) of the most recent child walk that answered CONTINUE or SKIP_CURRENT (else None)"""

    def __init__(self, prog, fn, mode):
        super().__init__(prog, fn)
        self.mode = mode
        self.obs = []          # (kind 'handler'|'walk', name, node, ts)
        keep = {p["name"] for p in fn.params} | {l["name"] for l in fn.locals if l["t"].strip() == "int"}
        self.tracked = {p for p in self.tracked if p in keep}
        self.cap = 8000
        self.max_steps = 400000
        self.after_child = {}      # (child call id, answer) -> {(callback/child name, node id, line)} observed afterwards
        self.child_sites = {}

    def initial_ts(self):
        return (None, None, False, frozenset(), (), frozenset(), None, None)

    def _classes(self, kind):
        if self.mode == "all-continue":
            if kind == "next":
                return [av_const(0), av_const(1)]
            return [av_const(0)]
        if kind == "plain":
            return [av_const(0), POS]
        if kind == "next":
            return [av_const(0), av_const(1), AV(2, None)]
        return [av_const(CONT), av_const(SKIPC), av_const(SKIPS), av_const(END), POS, OTHERNEG]

    def call(self, st, n, argvals):
        c = n.get("callee")
        tgt = indirect_target(n)
        stop, origin, skipcur, sibl, seq, holders, mark, last = st.ts
        if tgt and tgt.startswith("handle_"):
            name, kind = tgt, "handler"
        elif c in WALKERS:
            name, kind = c, "walk"
        elif c in API:
            return [(st, v) for v in self._classes(API[c])]
        else:
            return [(st, None)]
        self.obs.append((kind, name, n, st.ts[:6]))
        if mark is not None:
            self.after_child.setdefault(mark, set()).add((name, n["id"], n.get("l")))
        seq2 = seq if (seq and seq[-1] == name) else seq + (name,)
        outs = []
        for v in self._classes("directive"):
            stop2, origin2, skipcur2, sibl2, holders2 = stop, origin, skipcur, sibl, holders
            mark2 = mark
            if kind == "walk":
                mark2 = (n["id"], v.value()) if (v.is_const() and v.value() in (CONT, SKIPC)) else None
                if mark2 is not None:
                    self.after_child.setdefault(mark2, set())
                    self.child_sites[n["id"]] = (name, n.get("l"))
            if v.is_const() and v.value() == END:
                stop2, origin2, holders2 = stop2 or "END", origin2 or n["id"], frozenset()
            elif v is POS or (v.lo is not None and v.lo >= 1):
                if stop2 is None:
                    stop2, origin2, holders2 = "POS", n["id"], frozenset()
            elif v.is_const() and v.value() == SKIPC and kind == "handler" and name.endswith("_start"):
                skipcur2 = True
            elif v.is_const() and v.value() == SKIPS and kind == "walk":
                sibl2 = sibl | {name}
            last2 = (kind, name, v.value() if v.is_const() else None)
            outs.append((st.with_ts((stop2, origin2, skipcur2, sibl2, seq2, holders2, mark2, last2)), v))
        return outs

    def on_edge(self, st, blk, cond, truth):
        # handlers are taken to be installed: an absent handler behaves like one answering CONTINUE but makes no
        # callback, which is outside the property ("presents every ... to the handlers")
        p = path(strip(cond)) or ""
        if p.startswith("handler->handle_") and not truth and not getattr(self, "allow_absent", False):
            return None
        # the same test written as a comparison with NULL
        z = cfgq.zero_test(cond, lambda e: (path(strip(e)) or "").startswith("handler->handle_"))
        if z is not None and not getattr(self, "allow_absent", False):
            absent_outcome = (z == "true")
            if truth == absent_outcome:
                return None
        return st

    def assign(self, st, node, lhs, p, av, rhs):
        stop, origin, skipcur, sibl, seq, holders, mark, last = st.ts
        if stop != "POS" or p is None:
            return st
        r = strip(rhs) if rhs is not None else None
        from_v = False
        if isinstance(r, dict):
            ids = {x.get("id") for x in walk(r)} if r.get("k") in ("cond", "call") else {r.get("id")}
            if origin in ids:
                from_v = True
            elif path(r) in holders:
                from_v = True
            elif r.get("k") == "cond" and av is not None and av.positive():
                # `x = (v == SKIP_SIBLINGS) ? CONTINUE : v` with v the positive result: the value assigned is v's
                def arms(e):
                    e = strip(e)
                    if isinstance(e, dict) and e.get("k") == "cond":
                        return arms(e.get("then")) + arms(e.get("else"))
                    return [e]
                pos_arms = [a for a in arms(r) if isinstance(a, dict) and not (const(a) is not None and const(a) <= 0)]
                if pos_arms and all(path(a) in holders for a in pos_arms):
                    from_v = True
        if from_v and p not in holders:
            return st.with_ts((stop, origin, skipcur, sibl, seq, holders | {p}, mark, last))
        if not from_v and p in holders:
            return st.with_ts((stop, origin, skipcur, sibl, seq, holders - {p}, mark, last))
        return st


def run(prog, chk):
    chk.level = "other"
    chk.explanation = ("Finite-domain abstract interpretation of cif_walk and its five helpers: every handler call and every "
                       "child-walk call is split into the six answer classes (CONTINUE, SKIP_CURRENT, SKIP_SIBLINGS, END, positive "
                       "error, other negative); flags record what has been answered; reachability of callback sites under those "
                       "flags decides the directive obligations; a second run with all handlers continuing decides the "
                       "start/children/end order.  Functions are composed through the assumption that a child walk may return "
                       "any class (checked per function).  That the SQL enumerations return each element once is not decided.")
    for w in WALKERS:
        prog.fn(w)
    r2 = chk.rule("R2-directives", "END / positive results stop all further callbacks and are returned (END becomes CIF_OK in "
                  "cif_walk); SKIP_CURRENT from a start handler suppresses children and the end handler; SKIP_SIBLINGS from a "
                  "child suppresses later siblings of the same kind only; cif_walk never returns a directive", floor=12)
    runs = {}
    for w in WALKERS:
        fn = prog.fn(w)
        it = WalkInterp(prog, fn, "any").run()
        runs[w] = it
        if it.overflow:
            r2.unproved(w, "not analysed to a fixpoint")
            continue
        bad_stop, bad_skipc, bad_sibl = {}, {}, {}
        for (kind, name, n, ts) in it.obs:
            stop, origin, skipcur, sibl, seq, holders = ts
            if stop:
                bad_stop.setdefault((name, n.get("l")), stop)
            if skipcur and (kind == "walk" or name.endswith("_end")):
                bad_skipc.setdefault((name, n.get("l")), True)
            if kind == "walk" and name in sibl:
                bad_sibl.setdefault((name, n.get("l")), True)
        for (name, line), stop in sorted(bad_stop.items()):
            r2.violation(fn.file, w, line, "callback-after-%s:%s:%s" % (stop.lower(), w, name),
                         "%s at L%s is reachable after a handler or child walk answered %s" % (name, line, "CIF_TRAVERSE_END" if stop == "END" else "a positive error code"))
        for (name, line) in sorted(bad_skipc):
            r2.violation(fn.file, w, line, "after-skip-current:%s:%s" % (w, name),
                         "%s at L%s is reachable after the start handler answered SKIP_CURRENT" % (name, line))
        for (name, line) in sorted(bad_sibl):
            r2.violation(fn.file, w, line, "sibling-after-skip-siblings:%s:%s" % (w, name),
                         "another %s call at L%s is reachable after one answered SKIP_SIBLINGS" % (name, line))
        if not (bad_stop or bad_skipc or bad_sibl):
            r2.ok("%s:callbacks-obey-flags" % w, "%d callback/child sites observed under all answer combinations" % len({(o[1], o[2]['id']) for o in it.obs}))
        # return values
        bad_ret = {}
        for st, av, node in it.exits:
            stop, origin, skipcur, sibl, seq, holders = st.ts[:6]
            line = node.get("l") if node else fn.endline
            if stop == "END":
                want = 0 if w == "cif_walk" else END
                if not (av is not None and av.is_const() and av.value() == want):
                    bad_ret.setdefault(("END", line, str(av)), st)
            elif stop == "POS":
                e = strip(node.get("e")) if node is not None and node.get("e") else None
                unchanged = e is not None and (path(e) in holders or origin in {x.get("id") for x in walk(e)})
                if not (av is not None and av.positive() and unchanged):
                    bad_ret.setdefault(("POS", line, str(av)), st)
            elif w == "cif_walk":
                if av is None:
                    continue
                if any(av.contains(d) for d in (SKIPC, SKIPS, END)):
                    bad_ret.setdefault(("directive-leak", line, str(av)), st)
            elif w not in SIBLING_HELPERS and st.ts[7] is not None and st.ts[7][0] == "walk" and st.ts[7][2] == SKIPS \
                    and av is not None and av.is_const() and av.value() == SKIPS:
                # a child's SKIP_SIBLINGS concerns the child's siblings, which this function iterates over: it is consumed here
                bad_ret.setdefault(("SIBL", line, st.ts[7][1]), st)
        for (what, line, avs), st in sorted(bad_ret.items(), key=str):
            if what == "END":
                msg = "after CIF_TRAVERSE_END the function returns %s (expected %s)" % (avs, "CIF_OK" if w == "cif_walk" else "CIF_TRAVERSE_END")
            elif what == "SIBL":
                msg = ("after the child walk %s answered SKIP_SIBLINGS - which only concerns that child's own siblings, iterated over "
                       "here - the function returns SKIP_SIBLINGS itself, so its caller also skips this element's siblings" % avs)
            elif what == "POS":
                msg = "a positive handler/child result is not returned unchanged (returns %s)" % avs
            else:
                msg = "cif_walk can return a traversal directive (%s) to its caller" % avs
            r2.violation(fn.file, w, line, "return:%s:%s" % (w, what), msg, path=["L%s" % x for x in st.trail_lines()])
        if not bad_ret:
            r2.ok("%s:returns" % w, "%d exits: END/positive results propagated%s" % (len(it.exits), ", directives mapped to CIF_OK" if w == "cif_walk" else ""))
    # with any subset of the handlers absent, cif_walk still never returns a directive
    wf = prog.fn("cif_walk")
    it_abs = WalkInterp(prog, wf, "any")
    it_abs.allow_absent = True
    it_abs.run()
    leak = None
    for st, av, node in it_abs.exits:
        stop = st.ts[0]
        if stop in ("END", "POS") or av is None:
            continue
        if any(av.contains(d) for d in (SKIPC, SKIPS, END)):
            leak = (st, av, node)
            break
    if it_abs.overflow:
        r2.unproved("cif_walk:returns-with-absent-handlers", "state cap reached")
    elif leak:
        st, av, node = leak
        r2.violation(wf.file, "cif_walk", node.get("l") if node else wf.endline, "return:cif_walk:directive-leak-absent-handler",
                     "when some handlers are absent cif_walk can return a traversal directive (%s) left over from an earlier "
                     "callback: a value that is only overwritten where a handler exists" % str(av),
                     path=["L%s" % x for x in st.trail_lines()][-25:])
    else:
        r2.ok("cif_walk:returns-with-absent-handlers", "%d exits with any subset of handlers absent: no directive returned" % len(it_abs.exits))
    # an absent handler behaves like one that answers CONTINUE
    n_def = 0
    for w in WALKERS:
        fn = prog.fn(w)
        for (b, i, r, x) in fn.eval_sites("cond"):
            if "HANDLER_RESULT" not in (x.get("ms") or []):
                continue
            cp = path(strip(x.get("c"))) or ""
            if not cp.startswith("handler->handle_"):
                continue
            n_def += 1
            dv = const(x.get("else"))
            key = "%s:default-of-%s" % (w, cp.split("->")[1])
            if dv == CONT:
                r2.ok(key, "CIF_TRAVERSE_CONTINUE when the handler is absent")
            else:
                r2.violation(fn.file, w, x.get("l"), "absent-handler-default:%s:%s" % (w, cp.split("->")[1]),
                             "when %s is NULL the walker behaves as if a handler had answered %s instead of CIF_TRAVERSE_CONTINUE: "
                             "leaving a callback out changes which other callbacks are delivered" % (cp, dv))
    if n_def < 8:
        raise Broken("only %d HANDLER_RESULT expansions found" % n_def)
    # a child's SKIP_CURRENT is consumed by the child: the parent goes on exactly as after CONTINUE
    for w in WALKERS:
        it = runs[w]
        if it.overflow:
            continue
        fn = prog.fn(w)
        for cid, (cname, cline) in sorted(it.child_sites.items()):
            a_cont = {(nm, i) for (nm, i, l) in it.after_child.get((cid, CONT), set())}
            a_skip = {(nm, i) for (nm, i, l) in it.after_child.get((cid, SKIPC), set())}
            key = "%s:child-skip-current:%s@L%s" % (w, cname, cline)
            if a_cont == a_skip:
                r2.ok(key, "the same %d callback/child site(s) follow a child's CONTINUE and its SKIP_CURRENT" % len(a_cont))
            else:
                lines = {i: l for (nm, i, l) in it.after_child.get((cid, CONT), set()) | it.after_child.get((cid, SKIPC), set())}
                lost = sorted("%s (L%s)" % (nm, lines[i]) for (nm, i) in a_cont - a_skip)
                extra = sorted("%s (L%s)" % (nm, lines[i]) for (nm, i) in a_skip - a_cont)
                r2.violation(fn.file, w, cline, "child-skip-current-differs:%s:%s" % (w, cname),
                             "after %s (L%s) answers SKIP_CURRENT - which only concerns that child's own descendants - %s differs "
                             "from what follows its CONTINUE: %s%s" % (
                                 cname, cline, w,
                                 ("no longer reached: " + ", ".join(lost)) if lost else "",
                                 ("; additionally reached: " + ", ".join(extra)) if extra else ""))
    # loops stay reachable after SKIP_SIBLINGS from a save frame
    wc = runs["walk_container"]
    reach_loops = any(kind == "walk" and name == "walk_loops" and "walk_container" in ts[3] for (kind, name, n, ts) in wc.obs)
    if reach_loops:
        r2.ok("walk_container:loops-after-frame-skip-siblings", "walk_loops is still reached after a save frame answered SKIP_SIBLINGS")
    else:
        r2.violation("cif.c", "walk_container", prog.fn("walk_container").line, "loops-suppressed-by-frame-siblings",
                     "a save frame's SKIP_SIBLINGS also suppresses the container's loops (loops are not siblings of save frames)")

    r3 = chk.rule("R3-order-when-continuing", "with all handlers continuing, each function calls its start handler, walks its "
                  "children (a container's frames before its loops) and then the matching end handler, and returns CIF_OK", floor=6)
    for w in WALKERS:
        fn = prog.fn(w)
        it = WalkInterp(prog, fn, "all-continue").run()
        if it.overflow:
            r3.unproved(w, "not analysed to a fixpoint")
            continue
        seqs = {}
        bad = None
        for st, av, node in it.exits:
            seq = " ".join(st.ts[4])
            seqs[seq] = seqs.get(seq, 0) + 1
            if not re.match(PATTERN[w], seq):
                bad = ("sequence", seq, node)
            elif not (av is not None and av.is_const() and av.value() == 0):
                bad = ("result", "%s after %s" % (av, seq), node)
        if bad:
            kind, what, node = bad
            r3.violation(fn.file, w, node.get("l") if node else fn.endline, "all-continue-%s:%s" % (kind, w),
                         "with all handlers continuing %s yields %s %s (expected pattern %s, result CIF_OK)" % (w, kind, what, PATTERN[w]))
        else:
            r3.ok(w, "sequences: %s" % "; ".join(sorted(seqs)))

    absent_handler_rule(prog, chk)
    r6 = chk.rule("R6-end-callback-after-a-childs-skip-siblings", "after a child walk answered SKIP_SIBLINGS (and nothing answered END, an "
                  "error, or SKIP_CURRENT at the element's own start) the walker function still makes the element's end callback: the "
                  "directive suppresses the answering element's descendants and remaining siblings only", floor=4)
    from .. import walkend
    if walkend.rule(prog, r6, runs) < 4:
        raise Broken("fewer than 4 (walker, child) pairs with a SKIP_SIBLINGS answer observed")

    # the packet iterator walk_loop opens is closed or aborted exactly once on every path (shared with C06 R4)
    from . import c06
    c06.internal_users_rule(prog, chk, rid="R4", primary=False)

    r1 = chk.rule("R1-handles-released", "handle arrays obtained from the enumeration calls are freed, and every element handle "
                  "is released, on every path including SKIP/END/error exits", floor=3)
    for w, getter, elem_free in (("cif_walk", "cif_get_all_blocks", "cif_block_free"),
                                 ("walk_container", "cif_container_get_all_frames", "cif_frame_free"),
                                 ("walk_loops", "cif_container_get_all_loops", "cif_loop_free")):
        fn = prog.fn(w)
        gs = fn.calls_to(getter)
        if not gs:
            raise Broken("%s does not call %s" % (w, getter))
        (b, i, r, n) = gs[0]
        a = strip(n["args"][1])
        arr = path(strip(a.get("e"))) if a.get("k") == "un" and a.get("op") == "&" else None
        frees = [(bb.id, ii) for (bb, ii, rr, c) in fn.calls_to("free") if path(strip(c["args"][0])) == arr]
        efrees = [(bb.id, ii, c) for (bb, ii, rr, c) in fn.calls() if c.get("callee") in (elem_free, "cif_container_free")]
        # success edge of the getter
        rv = None
        for (b2, i2, r2_, asg) in fn.eval_sites("asg"):
            if any(x.get("id") == n["id"] for x in walk(asg.get("rhs"))):
                rv = path(strip(asg.get("lhs")))
        for (b2, i2, r2_, d) in fn.eval_sites("decl"):
            for v in d.get("vars", []):
                if v.get("init") is not None and any(isinstance(x, dict) and x.get("id") == n["id"] for x in walk(v["init"])):
                    rv = v["name"]
        starts = []
        # the first test of the result on the way from the call (breadth-first), not just any test of that variable
        order, seen_b, queue = [], {b.id}, [b.id]
        while queue:
            cur = queue.pop(0)
            order.append(cur)
            for s_ in fn.blocks[cur].succs:
                if s_ is not None and s_ not in seen_b:
                    seen_b.add(s_)
                    queue.append(s_)
        for bid_ in order:
            blk = fn.blocks[bid_]
            c = cfgq.cond_of(fn, blk)
            if c is None:
                continue
            t = cfgq.cmp_test(c, lambda e: path(strip(e)) == rv)
            if t in (("==", 0),):
                starts.append(blk.succs[0])
                break
            if t in (("!=", 0),):
                starts.append(blk.succs[1])
                break
        if not starts or not frees:
            r1.violation(fn.file, w, n.get("l"), "array-not-freed:%s" % w, "no `free(%s)` after a successful %s" % (arr, getter))
            continue
        fb = {x[0] for x in frees}
        leak = any(fn.exit in cfgq.reach(fn, [s], fb) for s in starts if s is not None and s not in fb)
        if leak:
            r1.violation(fn.file, w, n.get("l"), "array-not-freed:%s" % w, "a path from a successful %s reaches the exit without free(%s)" % (getter, arr))
        else:
            r1.ok("%s:free(%s)" % (w, arr), "on every path after a successful %s" % getter)
        # element release: in the loop over the array every iteration passes the release
        incs = [(bb.id, ii) for (bb, ii, rr, asg) in fn.eval_sites("asg") if asg.get("op") == "+=" and re.match(r"^current_\w+$", path(strip(asg.get("lhs"))) or "")]
        if not efrees or not incs:
            r1.violation(fn.file, w, n.get("l"), "elements-not-released:%s" % w, "element handles are not released in the loop")
            continue
        okk = all(cfgq.must_precede(fn, inc, [(x[0], x[1]) for x in efrees]) for inc in incs)
        if okk:
            r1.ok("%s:%s-per-element" % (w, elem_free), "every iteration releases its element before advancing")
        else:
            r1.violation(fn.file, w, efrees[0][2].get("l"), "elements-not-released:%s" % w,
                         "an iteration can advance to the next element without releasing the current handle")


def absent_handler_rule(prog, chk):
    """R5: whether a callback is installed decides only whether *that* callback is made.  A test of `handler->handle_X` may have,
    control dependent on it, the call of handle_X and nothing else that acts: no other callback, no traversal step.  (A walker
    that skips the packets of a loop because nobody listens for packet_start and item forgets who listens for packet_end.)"""
    from .. import loops
    r5 = chk.rule("R5-absent-handler-affects-only-its-own-call", "in the walker, a branch on whether a handler function is installed "
                  "controls the call of that handler only: no other callback and no traversal call depends on it", floor=8)
    walkers = ("cif_walk", "walk_container", "walk_loops", "walk_loop", "walk_packet", "walk_item")
    # the callbacks a walker function can make, directly or through the walkers it calls
    makes = {}
    for w in walkers:
        if not prog.has_fn(w):
            raise Broken("walker function %s not found" % w)
        makes[w] = {indirect_target(c) for (b, i, r, c) in prog.fn(w).calls() if (indirect_target(c) or "").startswith("handle_")}
    changed = True
    while changed:
        changed = False
        for w in walkers:
            for (b, i, r, c) in prog.fn(w).calls():
                if c.get("callee") in makes and not makes[c["callee"]] <= makes[w]:
                    makes[w] |= makes[c["callee"]]
                    changed = True
    for w in walkers:
        fn = prog.fn(w)
        for b in fn.blocks.values():
            if len(b.succs) != 2:
                continue
            cnd = b.term.get("full") if b.term and isinstance(b.term.get("full"), dict) else cfgq.cond_of(fn, b)
            if cnd is None:
                continue
            tested = {x.get("name") for x in walk(cnd) if isinstance(x, dict) and x.get("k") == "member"
                      and (x.get("name") or "").startswith("handle_")}
            # an operand of a short-circuit condition sits in its own block: look at that block's own condition as well
            own = cfgq.cond_of(fn, b)
            if own is not None:
                tested |= {x.get("name") for x in walk(own) if isinstance(x, dict) and x.get("k") == "member"
                           and (x.get("name") or "").startswith("handle_")}
            if not tested:
                continue
            t, f = loops.control_dependents(fn, b.id)
            dep = (t | f) - {b.id}
            acts = []
            for bid in sorted(dep):
                for r in fn.blocks[bid].roots:
                    for x in walk_eval(r):
                        if x.get("k") == "call":
                            tgt = indirect_target(x)
                            if tgt in tested:
                                continue
                            if x.get("callee") in makes and makes[x["callee"]] and makes[x["callee"]] <= tested:
                                continue        # a helper that makes no callback but the tested one(s)
                            acts.append((x, tgt or x.get("callee") or "?"))
            key = "%s:L%s:%s" % (w, cnd.get("l"), ",".join(sorted(tested)))
            if acts:
                x, what = acts[0]
                r5.violation(fn.file, w, x.get("l"), "absent-handler-controls-more:%s:%s" % (w, ",".join(sorted(tested))),
                             "whether %s is installed (test at L%s) decides whether `%s` is called (L%s): callbacks other than "
                             "the one tested, or traversal steps, depend on a handler's absence" %
                             (" / ".join(sorted(tested)), cnd.get("l"), what, x.get("l")))
            else:
                r5.ok(key, "controls only its own call")
