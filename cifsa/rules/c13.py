"""C13 — CIF 1.1 output is pure CIF 1.1, or refused: validate-before-emit, lists/tables refused, validator table."""
import re

from ..facts import Broken, strip, const, walk, walk_eval, macro_name
from ..interp import Interp, path, av_const, NONZERO, AV, _mentions
from .. import cfgq
from .c02 import EMITTERS, array_ints

VALIDATOR = "cif_validate_cif11_characters"
# Getters that hand ciffile.c caller-controlled text (out-parameter index)
DATA_GETTERS = {
    "cif_container_get_code": 1, "cif_loop_get_category": 1, "cif_loop_get_names": 1, "cif_value_get_text": 1,
    "cif_value_get_keys": 1,
}
# One named exemption (DESIGN.md C13 R1)
EXEMPT = {
    ("write_numb", "write_uliteral", "text"): "text of an *unquoted number*: ASCII by the number grammar enforced in "
                                               "cif_value_parse_numb and the number formatters",
}
UCHAR_PTR = re.compile(r"^(const )?UChar \*( const)?$|^(const )?UChar \*\*$")


def is_uchar_ptr(t):
    return bool(t) and t.replace("const ", "").strip() in ("UChar *", "UChar **") or (t or "").strip() in ("UChar *", "const UChar *")


def arg_type(a):
    a0 = a
    while isinstance(a0, dict) and a0.get("k") == "cast":
        a0 = a0.get("e")
    return (a0 or {}).get("t", "") if isinstance(a0, dict) else ""


def text_args(call):
    """Arguments of an emitting/forwarding call that carry UChar text."""
    out = []
    for idx, a in enumerate(call.get("args", [])):
        t = arg_type(a)
        if t.replace("const ", "").strip() == "UChar *":
            out.append((idx, a))
    return out


def local_sources(fn):
    """var -> set of source vars (through plain copies / derived-by-call assignments)."""
    src = {}
    for (b, i, r, n) in fn.eval_sites():
        if n.get("k") == "asg" and n.get("op") == "=":
            lv = path(strip(n.get("lhs")))
            if lv and re.match(r"^\w+$", lv):
                for x in walk(n.get("rhs")):
                    if x.get("k") == "ref" and x.get("dk") in ("local", "parm") and arg_type(x).replace("const ", "").strip() in ("UChar *", "UChar **"):
                        src.setdefault(lv, set()).add(x["name"])
        if n.get("k") == "decl":
            for v in n.get("vars", []):
                if v.get("init"):
                    for x in walk(v["init"]):
                        if x.get("k") == "ref" and x.get("dk") in ("local", "parm") and arg_type(x).replace("const ", "").strip() in ("UChar *", "UChar **"):
                            src.setdefault(v["name"], set()).add(x["name"])
    return src


def resolve(fn, var, src):
    """Set of ultimate origins of a text variable: ('param', name) | ('getter', var) | ('unknown', var)."""
    params = {p["name"] for p in fn.params}
    getter_vars = set()
    for (b, i, r, n) in fn.calls():
        oi = DATA_GETTERS.get(n.get("callee"))
        if oi is not None and len(n.get("args", [])) > oi:
            a = strip(n["args"][oi])
            if a.get("k") == "un" and a.get("op") == "&":
                pv = path(strip(a.get("e")))
                if pv:
                    getter_vars.add(pv)
    seen, st, out = set(), [var], set()
    while st:
        v = st.pop()
        if v in seen:
            continue
        seen.add(v)
        if v in getter_vars:
            out.add(("getter", v))
        elif v in src:
            st.extend(src[v])
            if v in params:
                out.add(("param", v))
        elif v in params:
            out.add(("param", v))
        else:
            out.add(("unknown", v))
    return out


def root_name(p):
    m = re.search(r"[A-Za-z_]\w*", p or "")
    return m.group(0) if m else None


class ValidInterp(Interp):
    """ts = frozenset of access paths validated as pure CIF 1.1 on this path."""

    def __init__(self, prog, fn, sinks):
        super().__init__(prog, fn)
        self.sinks = sinks
        self.obs = []     # (call node, arg idx, arg path, may_be_cif1, validated)
        self.text_obs = []
        self.track_also(["context->version"])
        # what a branch established about the statistic stays known up to the write_text call (the refusal may be
        # decided through a local that combines it with other reasons for prefixing)
        self.track_also([q for q in list(self.tracked) if q.endswith("contains_text_delim")])

    def initial_ts(self):
        return frozenset()

    def clobbered_by_call(self, st, node):
        return [p for p in super().clobbered_by_call(st, node) if not p.endswith("->version")]

    def call(self, st, n, argvals):
        c = n.get("callee")
        if c == VALIDATOR and n.get("args"):
            p = path(strip(n["args"][0]))
            if p:
                return [(st.with_ts(st.ts | {p}), av_const(0)), (st, NONZERO)]
        if c in self.sinks:
            ver = st.sigma.get("context->version")
            may1 = ver is None or ver.contains(1)
            for idx, a in text_args(n):
                if c not in EMITTERS and idx not in self.sinks[c]:
                    continue
                p = path(strip(a))
                self.obs.append((n, idx, p, may1, p in st.ts if p else False))
        if c == "write_text":
            ver = st.sigma.get("context->version")
            ctd = None
            for k, v in st.sigma.items():
                if k.endswith("contains_text_delim"):
                    ctd = v
            self.text_obs.append((n, ver, ctd, any(k.endswith("contains_text_delim") for k in self.tracked)))
        return [(st, None)]

    def assign(self, st, node, lhs, p, av, rhs):
        if p and st.ts:
            keep = frozenset(q for q in st.ts if q != p and not _mentions(q, p))
            if keep != st.ts:
                return st.with_ts(keep)
        return st


def run(prog, chk):
    chk.level = "other"
    chk.explanation = ("Structural decision on ciffile.c: in CIF 1.1 mode every caller-supplied string that reaches the output "
                       "stream has passed cif_validate_cif11_characters with CIF_OK on every path (who-may-emit + "
                       "must-validate-before, tracked per variable and per path with the mode as a status variable); lists, "
                       "tables, triple quotes and text fields containing the text delimiter are refused; the validator's "
                       "table is the CIF 1.1 character set and is indexed within bounds.  Round-trip of the emitted document is "
                       "not decided.")
    unit_fns = [f for f in prog.all_functions() if f.unit == "ciffile.c"]
    # version is written only by cif_write
    for f in unit_fns:
        for (b, i, r, n) in f.eval_sites("asg"):
            p = path(strip(n.get("lhs"))) or ""
            if (p.endswith("->version") or p.endswith(".version")) and f.name != "cif_write":
                raise Broken("write_context_t.version is stored in %s: the mode is assumed constant during a write" % f.name)

    # ---- forwarders: static functions that pass a parameter's text to an emitter (fixpoint)
    sinks = {e: None for e in EMITTERS}       # callee -> set of param indexes that are emitted (None = any text arg)
    changed = True
    srcs = {f.key: local_sources(f) for f in unit_fns}
    while changed:
        changed = False
        for f in unit_fns:
            for (b, i, r, n) in f.calls():
                c = n.get("callee")
                if c not in sinks:
                    continue
                for idx, a in text_args(n):
                    if c not in EMITTERS and idx not in sinks[c]:
                        continue
                    rv = root_name(path(strip(a)) or "")
                    if not rv:
                        continue
                    for kind, v in resolve(f, rv, srcs[f.key]):
                        if kind == "param":
                            pi = f.param_index(v)
                            cur = sinks.setdefault(f.name, set())
                            if pi is not None and pi not in cur:
                                cur.add(pi)
                                changed = True
    for e in EMITTERS:
        sinks[e] = set()
    forwarders = {k: v for k, v in sinks.items() if k not in EMITTERS}

    r1 = chk.rule("R1-validate-before-emit", "in CIF 1.1 mode, text obtained from the CIF (codes, names, values, keys) reaches an "
                  "emitter or a text-forwarding writer only after cif_validate_cif11_characters(it) == CIF_OK on that path",
                  floor=4)
    n_data = 0
    for f in unit_fns:
        has_sink = any(n.get("callee") in sinks for (_, _, _, n) in f.calls())
        if not has_sink or not any(p["name"] == "context" for p in f.params):
            continue
        it = None
        per_site = {}
        for (b, i, r, n) in f.calls():
            c = n.get("callee")
            if c not in sinks:
                continue
            for idx, a in text_args(n):
                if c not in EMITTERS and idx not in sinks[c]:
                    continue
                p = path(strip(a))
                rv = root_name(p or "")
                origins = resolve(f, rv, srcs[f.key]) if rv else {("unknown", "?")}
                kinds = {k for k, _ in origins}
                key = "%s:%s(%s)" % (f.name, c, p)
                if kinds == {"param"}:
                    r1.info(key, "forwards its parameter; obligation lies with the callers")
                    continue
                if (f.name, c, rv) in EXEMPT:
                    r1.ok(key + ":exempt", EXEMPT[(f.name, c, rv)])
                    continue
                if "unknown" in kinds:
                    r1.violation(f.file, f.name, n.get("l"), "unclassified-text-source:" + key,
                                 "text passed to %s comes from %s, which is neither a parameter nor a known CIF getter" % (c, sorted(origins)))
                    continue
                n_data += 1
                if it is None:
                    it = ValidInterp(prog, f, sinks).run()
                if it.overflow:
                    r1.unproved(key, "not analysed to a fixpoint")
                    continue
                obs = [o for o in it.obs if o[0]["id"] == n["id"] and o[1] == idx]
                bad = [o for o in obs if o[3] and not o[4]]
                if not obs:
                    r1.unproved(key, "site not reached by the dataflow")
                elif bad:
                    r1.violation(f.file, f.name, n.get("l"), "unvalidated-emit:" + key,
                                 "in CIF 1.1 mode `%s` reaches %s without a successful %s on some path" % (p, c, VALIDATOR))
                else:
                    r1.ok(key, "%d states: validated or not CIF 1.1 on each" % len(obs))
    if n_data < 4:
        raise Broken("only %d CIF-text emission sites found" % n_data)
    chk.extra_cov["text_forwarders"] = {k: sorted(v) for k, v in forwarders.items()}

    r2 = chk.rule("R2-cif2-only-constructs-refused", "lists and tables are refused with CIF_DISALLOWED_VALUE before being written; "
                  "triple quotes are not offered; a text field containing the text delimiter is refused", floor=4)
    wi = prog.fn("write_item")
    dv = prog.macro_int("CIF_DISALLOWED_VALUE")

    def cif1(c):
        t = cfgq.cmp_test(c, lambda e: (path(strip(e)) or "").endswith("->version"))
        if t == ("==", 1):
            return "false"
        if t == ("!=", 1):
            return "true"
        return None
    not1 = cfgq.guard_edges(wi, cif1)
    for w in ("write_list", "write_table"):
        cs = wi.calls_to(w)
        if not cs:
            raise Broken("write_item does not call %s" % w)
        for (b, i, r, n) in cs:
            if not1 and cfgq.must_pass_edge(wi, b.id, not1):
                r2.ok("write_item:%s-not-in-cif1" % w, "dominated by version != 1")
            else:
                r2.violation(wi.file, wi.name, n.get("l"), "cif1-writes-%s" % w, "%s is reachable in CIF 1.1 mode" % w)
    refusals = [n for (b, i, r, n) in wi.eval_sites("asg") if const(n.get("rhs")) == dv]
    if len(refusals) >= 2:
        r2.ok("write_item:refuses-with-CIF_DISALLOWED_VALUE", "%d sites" % len(refusals))
    else:
        r2.violation(wi.file, wi.name, wi.line, "refusal-code", "write_item does not set CIF_DISALLOWED_VALUE for lists and tables")
    wc = prog.fn("write_char")
    for (b, i, r, n) in wc.calls_to("cif_analyze_string"):
        a = strip(n["args"][2])
        okk = a.get("k") == "un" and a.get("op") == "!" and cif1(strip(a.get("e"))) == "false"
        (r2.ok if okk else lambda k, d: r2.violation(wc.file, wc.name, n.get("l"), k, "allow_triple_quoted is not `!IS_CIF1(context)`"))(
            "write_char:allow_triple_quoted=!IS_CIF1", "")
    itc = ValidInterp(prog, wc, sinks).run()
    if not itc.text_obs:
        raise Broken("write_char: call to write_text not observed")
    bad = [o for o in itc.text_obs if (o[1] is None or o[1].contains(1)) and not (o[2] is not None and o[2].is_const() and o[2].value() == 0)]
    if bad:
        r2.violation(wc.file, wc.name, bad[0][0].get("l"), "cif1-text-with-delimiter",
                     "write_text is reachable in CIF 1.1 mode with contains_text_delim possibly set")
    else:
        r2.ok("write_char:text-delimiter-refused-in-cif1", "%d states at write_text" % len(itc.text_obs))

    r3 = chk.rule("R3-validator-table", "cif11_chars is the CIF 1.1 character set; is_allowed is indexed only below its element count", floor=2)
    g = prog.globals.get("cif11_chars")
    ints = array_ints(g) if g else None
    if not ints:
        raise Broken("cif11_chars not found")
    if ints[-1] != 0:
        r3.violation(g["file"], "cif11_chars", g["line"], "cif11_chars-terminator", "cif11_chars is not 0-terminated")
    got = set(ints[:-1])
    want = {9, 10, 13} | set(range(0x20, 0x7F))
    if got == want:
        r3.ok("cif11_chars", "%d characters = {HT, LF, CR, U+0020..U+007E}" % len(got))
    else:
        r3.violation(g["file"], "cif11_chars", g["line"], "cif11_chars-set",
                     "cif11_chars differs from the CIF 1.1 character set: extra %s missing %s" % (sorted(got - want), sorted(want - got)))
    from . import c16
    vf = prog.fn(VALIDATOR)
    n = c16.sizeof_bound_rule(prog, r3, only={vf.key})
    if n == 0:
        # the bound may be written with ARRAY_LENGTH or a literal: require *some* upper-bound test on *s before indexing
        idx_sites = [(b.id, i, x) for (b, i, r, x) in vf.eval_sites("index") if path(strip(x.get("base"))) == "is_allowed"
                     and const(x.get("idx")) is None]
        r3.info("is_allowed-bound", "%d variable-index reads" % len(idx_sites))

    # the refusal of values that contain a text-field delimiter rests on the analyser's contains_text_delim statistic
    from . import c18
    r4 = chk.rule("R4-text-delimiter-statistic", "write_char refuses a CIF 1.1 text field when analysis.contains_text_delim is set; "
                  + c18.ACC_DESC, primary=False, floor=3)
    wc = prog.fn("write_char")
    if not any((path(x) or "").endswith("contains_text_delim") for (b, i, r, n) in wc.eval_sites() for x in [n] if n.get("k") == "member"):
        raise Broken("write_char no longer consults contains_text_delim")
    c18.accumulator_rule(prog, r4)

    r5 = chk.rule("R5-fold-point-semicolon-guard", "fold_line returns a fold point chosen by its semicolon guard only when the character "
                  "tested for `;` is the one at the returned index - the character that will start the next physical line of the "
                  "text field (a `;` there would close the field)", primary=False, floor=3)
    fl = prog.fn("fold_line")
    n5 = 0
    from ..facts import show
    for blk in fl.blocks.values():
        cnd = cfgq.cond_of(fl, blk)
        if cnd is None or len(blk.succs) != 2:
            continue
        cs = strip(cnd)
        if not (isinstance(cs, dict) and cs.get("k") == "bin" and cs.get("op") == "!=" and const(cs.get("rhs")) == 0x3B):
            continue
        l = strip(cs.get("lhs"))
        if not (isinstance(l, dict) and l.get("k") == "index" and path(strip(l.get("base"))) == "line"):
            continue
        idx = show(strip(l.get("idx")))
        # returns reached only through the true edge of this test (directly or via the rest of the && chain)
        reach_true = cfgq.reach(fl, [blk.succs[0]]) if blk.succs[0] is not None else set()
        cands = [(rt.get("l") or 0, b2, rt) for (b2, i2, r2, rt) in fl.returns()
                 if rt.get("e") is not None and b2.id in reach_true and (rt.get("l") or 0) >= (blk.term.get("l") or 0)]
        # the return this guard protects: the nearest one below it (`|| for_prefix` offers a second way there)
        for (ln, b2, rt) in sorted(cands, key=lambda t: t[0])[:1]:
            n5 += 1
            got = show(strip(rt.get("e")))
            key = "fold_line:L%s:line[%s]" % (blk.term.get("l"), idx)
            if got == idx:
                r5.ok(key, "returns the tested index")
            else:
                r5.violation(fl.file, fl.name, rt.get("l"), "fold-guard-index:%s" % idx,
                             "fold_line returns `%s` (the next physical line starts with line[%s]) after testing line[%s] for a semicolon: "
                             "a `;` at the start of the continuation line is not excluded" % (got, got, idx))
    if n5 < 3:
        raise Broken("only %d semicolon-guarded fold points found in fold_line" % n5)

    from . import c02
    c02.text_field_rules(prog, chk, "R6", "R7")
    c02.column_advance_rule(prog, chk, "R8")
    c02.name_line_rule(prog, chk, "R10")
    c02.first_line_rule(prog, chk, "R11")

    r9 = chk.rule("R9-validation-failure-not-lost", "once cif_validate_cif11_characters has refused a code, name or value, the writing "
                  "function does not return CIF_OK / CIF_TRAVERSE_CONTINUE: the refusal is not overwritten by a later, successful "
                  "validation in the same function (a loop over several names)", primary=False, floor=3)
    n9 = 0
    for fn in prog.all_functions():
        if fn.unit != "ciffile.c" or not fn.calls_to(VALIDATOR) or "int" not in (fn.ret or ""):
            continue
        lost = []

        class _L(Interp):
            def initial_ts(self):
                return False

            def call(self, st, n, argvals):
                if n.get("callee") == VALIDATOR:
                    return [(st, av_const(0)), (st.with_ts(True), AV(1, None))]
                return [(st, None)]

            def on_return(self, st, node, av):
                if st.ts and (av is None or av.contains(0)):
                    lost.append((node, st, av))
        it = _L(prog, fn)
        keep = {p_["name"] for p_ in fn.params} | {l["name"] for l in fn.locals if l["t"].strip() in ("int", "int32_t")} | {"_error_code"}
        it.tracked = {q for q in it.tracked if q in keep}
        it.cap = 4000
        it.run()
        n9 += 1
        key = "%s" % fn.name
        if it.overflow:
            r9.unproved(key, "state cap reached")
        elif lost:
            node, st, av = lost[0]
            r9.violation(fn.file, fn.name, node.get("l"), "validation-failure-lost:%s" % fn.name,
                         "after cif_validate_cif11_characters refused a string, %s can still return %s at L%s: the refusal was "
                         "overwritten (a later name validated), the offending name is skipped and cif_write reports success with "
                         "content dropped" % (fn.name, "0" if av is not None else "an unknown value", node.get("l")),
                         path=["L%s" % x for x in st.trail_lines()][-25:])
        else:
            r9.ok(key, "%d exits: a refusal is always returned as a failure" % len(it.exits))
    if n9 < 3:
        raise Broken("fewer than 3 int functions of ciffile.c call the CIF 1.1 validator")
