"""C03 — parser honours the error-callback contract: verdicts propagate unchanged, failures are reported first."""
import re

from ..facts import Broken, strip, const, walk, walk_eval, macro_name, show
from ..interp import path
from .. import cfgq, cbflow, memrules
from ..parserai import indirect_target
from ..codesummary import CodeSummary
from . import c20

RESOURCE_CODES = {"CIF_ERROR", "CIF_MEMORY_ERROR", "CIF_INTERNAL_ERROR"}
INPUT_DEFECT = re.compile(r"^CIF_(INVALID_\w+|DUP_\w+|WRONG_LOOP|RESERVED_LOOP|NULL_LOOP|DISALLOWED_VALUE|EMPTY_LOOP|"
                          r"CAT_NOT_UNIQUE|AMBIGUOUS_ITEM|ARGUMENT_ERROR|MISUSE)$")
NOT_INPUT_DEFECT = {"CIF_INVALID_HANDLE"}

# (caller, callee, code) -> why that code cannot come back from this call site.  Frozen after reading each site.
CANNOT_OCCUR = {
    ("parse_cif", "cif_get_block", "*"): "recovery lookup of the block that was just reported as duplicate",
    ("parse_container", "cif_container_get_frame", "CIF_NOSUCH_FRAME"): "recovery lookup of the frame just reported as duplicate: it exists",
    ("parse_cif", "cif_create_block_internal", "CIF_INVALID_BLOCKCODE"): "lenient = 1 suppresses validation",
    ("parse_container", "cif_container_create_frame_internal", "CIF_INVALID_FRAMECODE"): "lenient = 1 suppresses validation",
    ("parse_container", "cif_container_get_item_loop", "CIF_INVALID_ITEMNAME"): "the scanner only yields NAME tokens that start with '_' and contain no whitespace; "
                                                                               "see finding for the lone '_' (reported at the storing call)",
    ("parse_loop_header", "cif_container_get_item_loop", "CIF_INVALID_ITEMNAME"): "as above",
    ("parse_container", "cif_container_prune", "CIF_MISUSE"): "prune is called on the container being parsed, outside any iteration",
    ("parse_loop", "cif_container_create_loop", "CIF_RESERVED_LOOP"): "the category passed is the handler's choice or NULL, never the reserved empty string by the parser itself",
    ("parse_loop", "cif_container_create_loop", "CIF_ARGUMENT_ERROR"): "names is a non-NULL array built by the parser",
    ("parse_loop", "cif_container_create_loop", "CIF_NULL_LOOP"): "handled: listed as a tolerable case label",
    ("parse_loop_packets", "cif_loop_add_packet", "CIF_WRONG_LOOP"): "packet built from this loop's own names",
    ("parse_loop_packets", "cif_loop_add_packet", "CIF_INVALID_PACKET"): "packet has one value per loop name by construction",
    ("parse_loop_packets", "cif_loop_add_packet", "CIF_RESERVED_LOOP"): "only the scalar loop is reserved; loop_ constructs are never the scalar loop",
    ("parse_loop_packets", "cif_packet_create", "CIF_INVALID_ITEMNAME"): "names were validated when the loop header was parsed",
    ("parse_loop_packets", "cif_value_create", "CIF_ARGUMENT_ERROR"): "constant valid kind",
    ("parse_loop_packets", "cif_value_init", "CIF_ARGUMENT_ERROR"): "constant valid kind",
    ("parse_item", "cif_value_create", "CIF_ARGUMENT_ERROR"): "constant valid kind",
    ("parse_item", "cif_container_set_value", "CIF_DUP_ITEMNAME"): "duplicates were diagnosed by parse_container before parse_item is called with a name",
    ("parse_item", "cif_container_set_value", "CIF_RESERVED_LOOP"): "scalar loop manipulated through the scalar API only",
    ("parse_item", "cif_container_set_value", "CIF_WRONG_LOOP"): "not produced on the set_value path (over-approximate summary)",
    ("parse_item", "cif_container_set_value", "CIF_INVALID_PACKET"): "not produced on the set_value path (over-approximate summary)",
    ("parse_item", "cif_container_set_value", "CIF_CAT_NOT_UNIQUE"): "the scalar category is unique by the schema trigger",
    ("parse_item", "cif_container_set_value", "CIF_INVALID_CATEGORY"): "category is the library's own constant",
    ("parse_list", "cif_value_create", "CIF_ARGUMENT_ERROR"): "constant valid kind",
    ("parse_list", "cif_value_init", "CIF_ARGUMENT_ERROR"): "constant valid kind",
    ("parse_list", "cif_value_insert_element_at", "CIF_ARGUMENT_ERROR"): "list is a list value created by this function",
    ("parse_list", "cif_value_insert_element_at", "CIF_INVALID_INDEX"): "index is the running element count",
    ("parse_list", "cif_value_get_element_at", "CIF_ARGUMENT_ERROR"): "handled: listed as a case label",
    ("parse_list", "cif_value_get_element_at", "CIF_INVALID_INDEX"): "handled: listed as a case label",
    ("parse_table", "cif_value_create", "CIF_ARGUMENT_ERROR"): "constant valid kind",
    ("parse_table", "cif_value_set_item_by_key", "CIF_ARGUMENT_ERROR"): "table is a table value created by this function",
    ("parse_table", "cif_value_get_item_by_key", "CIF_ARGUMENT_ERROR"): "as above",
    ("parse_value", "cif_value_create", "CIF_ARGUMENT_ERROR"): "constant valid kind",
    ("parse_value", "cif_value_init_char", "CIF_ARGUMENT_ERROR"): "value and text are non-NULL here",
    ("parse_value", "cif_value_copy_char", "CIF_ARGUMENT_ERROR"): "value and text are non-NULL here",
    ("parse_value", "cif_value_parse_numb", "CIF_INVALID_NUMBER"): "handled: a non-number is stored as a char value",
    ("decode_text", "cif_value_create", "CIF_ARGUMENT_ERROR"): "constant valid kind",
    ("decode_text", "cif_value_init", "CIF_ARGUMENT_ERROR"): "constant valid kind",
    ("parse_table", "cif_value_init", "CIF_ARGUMENT_ERROR"): "constant valid kind",
    ("parse_value", "cif_value_init", "CIF_ARGUMENT_ERROR"): "constant valid kind",
    ("parse_cif", "cif_create_block", "CIF_ARGUMENT_ERROR"): "the block code is the non-NULL token text",
    ("decode_text", "cif_value_init_char", "CIF_ARGUMENT_ERROR"): "non-NULL arguments",
}


def code_name_of_site(node):
    return macro_name(node["args"][0]) or show(strip(node["args"][0]))[:30] if node.get("args") else "?"


def verdict_rule(prog, rule, kinds, res, absorb_key=None):
    """Shared with C15 R5: judge the verdict-propagation observations of the given site kinds."""
    n_sites = 0
    absorbed = []
    for fname, it in sorted(res.items()):
        fn = prog.fn(fname)
        if it.overflow:
            rule.unproved(fname, "not analysed to a fixpoint")
            continue
        for sid, (kind, node) in sorted(it.sites.items()):
            if kind not in kinds:
                continue
            n_sites += 1
            what = code_name_of_site(node) if kind == "error_callback" else (node.get("callee") or indirect_target(node))
            key = "%s:%s:%s" % (fname, kind, what)
            bad_calls = {}
            for (o, k2, sign, call, st) in it.after_abort:
                if o == sid:
                    bad_calls.setdefault((sign, call.get("callee") or indirect_target(call)), (call, st))
            bad_rets = {}
            for (o, k2, sign, ret, av, unchanged, st) in it.ret_obs:
                if o != sid or unchanged:
                    continue
                if fname == "parse_cif" and sign in ("end", "neg") and av is not None and av.is_const() and av.value() == 0:
                    if kind == "handler" and sign == "end":
                        continue                      # END stops the parse with CIF_OK: required
                    absorbed.append((fn, node, kind, what, st))
                    continue
                bad_rets.setdefault((sign, str(av)), (ret, av, st))
            if bad_calls:
                (sign, cal), (call, st) = sorted(bad_calls.items(), key=str)[0]
                rule.violation(fn.file, fname, node.get("l"), "verdict-ignored:" + key,
                               "after %s at L%s returned a %s value the function goes on to call %s (L%s%s): the verdict does "
                               "not stop the parse" % (what, node.get("l"), {"pos": "positive", "neg": "negative", "end": "CIF_TRAVERSE_END"}[sign],
                                                       cal, call.get("l"), "; %d such calls" % len(bad_calls) if len(bad_calls) > 1 else ""),
                               path=["L%s" % x for x in st.trail_lines()])
            elif bad_rets:
                (sign, avs), (ret, av, st) = sorted(bad_rets.items(), key=str)[0]
                rule.violation(fn.file, fname, node.get("l"), "verdict-altered:" + key,
                               "a %s result of %s at L%s reaches `%s` as %s: it is not returned unchanged"
                               % ({"pos": "positive", "neg": "negative", "end": "CIF_TRAVERSE_END"}[sign], what, node.get("l"),
                                  ret.get("txt", "return"), avs),
                               path=["L%s" % x for x in st.trail_lines()])
            else:
                rule.ok(key + "@L%s" % node.get("l"), "non-zero results reach a return unchanged, no scanning/storing/callback in between")
    if absorb_key and absorbed:
        fn, node, kind, what, st = absorbed[0]
        whats = sorted({"%s(%s)@L%s" % (k, w, n.get("l")) for (_, n, k, w, _) in absorbed})
        rule.violation(fn.file, fn.name, fn.endline, absorb_key,
                       "parse_cif returns `(result > CIF_OK) ? result : CIF_OK`: a negative non-zero value returned by the error "
                       "callback (directly: %s) is reported to the caller as CIF_OK instead of being forwarded" % ", ".join(whats),
                       path=["L%s" % x for x in st.trail_lines()])
    return n_sites


def analysis(prog):
    a = getattr(prog, "_cbflow", None)
    if a is None:
        a = prog._cbflow = cbflow.analyse(prog)
    return a


def _tolerated_like_ok(fn, call, value):
    """None if, in the switch on this call's result, the case label for `value` reaches the block of `case 0` (CIF_OK) through
    empty blocks only; otherwise a description of what was found."""
    sw = None
    for b in fn.blocks.values():
        if b.term and b.term.get("k") == "SwitchStmt":
            c = cfgq.cond_of(fn, b)
            if c is not None and any(x.get("id") == call.get("id") for x in walk(c)):
                sw = b
    if sw is None:
        # the if-form: one condition tests the result against CIF_OK and against the tolerated code with the same operator
        # (`result != CIF_OK && result != CIF_NULL_LOOP` / `result == CIF_OK || result == CIF_NULL_LOOP`)
        after = cfgq.reach(fn, [b_.id for b_ in fn.blocks.values() if any(x.get("id") == call.get("id") for r_ in b_.roots for x in walk(r_))] or [fn.entry])
        for b_ in fn.blocks.values():
            if b_.id not in after or not b_.term or not isinstance(b_.term.get("full"), dict):
                continue
            ops = {}
            for x in walk(b_.term["full"]):
                if isinstance(x, dict) and x.get("k") == "bin" and x.get("op") in ("==", "!="):
                    for side in ("lhs", "rhs"):
                        c_ = const(x.get(side))
                        if c_ is not None:
                            ops.setdefault(x["op"], set()).add(c_)
            if any(0 in v and value in v for v in ops.values()):
                return None
        return "no switch on the result of this call was found"
    labels = {}
    for s_ in sw.succs:
        if s_ is not None and fn.blocks[s_].label and fn.blocks[s_].label.get("k") == "case":
            labels[fn.blocks[s_].label.get("v")] = s_
    if value not in labels:
        return "it has no case label of its own (it takes the default arm)"
    if 0 not in labels:
        return "there is no case label for CIF_OK"
    def landing(bid):
        """the first block with statements (or a branch) reached from a label through empty fall-through / break blocks"""
        hops = 0
        while hops < 8:
            blk = fn.blocks[bid]
            nxt = [x for x in blk.succs if x is not None]
            if blk.roots or len(nxt) != 1:
                return bid
            bid = nxt[0]
            hops += 1
        return bid
    here, there = landing(labels[value]), landing(labels[0])
    if here == there:
        return None
    blk = fn.blocks[here]
    if blk.roots and here in (labels[value],) + tuple(cfgq.reach(fn, [labels[value]], barrier_blocks=[there])):
        from ..facts import show as _show
        return "its arm executes `%s`" % _show(blk.roots[0])[:50]
    return "its arm does not join the arm of CIF_OK"


def _tested_locally(fn, value, at=None):
    """every path from the assignment (block id `at`) to the exit passes a test of a variable against this very code (a switch
    with a case label for it, or an == / != comparison): the value is a local sentinel that the function dispatches on"""
    tests = set()
    for b in fn.blocks.values():
        if b.term and b.term.get("k") == "SwitchStmt":
            if any(s_ is not None and fn.blocks[s_].label and fn.blocks[s_].label.get("k") == "case"
                   and fn.blocks[s_].label.get("v") == value for s_ in b.succs):
                tests.add(b.id)
        c = cfgq.cond_of(fn, b) if len(b.succs) == 2 else None
        if c is not None and any(isinstance(x, dict) and x.get("k") == "bin" and x.get("op") in ("==", "!=")
                                 and value in (const(x.get("lhs")), const(x.get("rhs"))) for x in walk(c)):
            tests.add(b.id)
    if not tests or at is None:
        return False
    if at in tests:
        return True
    try:
        # paths consistent with the zero / non-zero facts of the branches taken (the code just assigned is not CIF_OK)
        found = cfgq.fact_reach(fn, [at], barriers=tests)
    except Exception:
        return False
    return fn.exit not in found


def tolerated_codes(prog, rule):
    """The table entries that claim a code is `handled: listed as a tolerable case label` are claims about the code: the
    case label of that code shares the arm of CIF_OK in the switch on the call's result.  Returns the number of call sites."""
    codes, _ = c20.result_codes(prog, prog.info)
    n = 0
    for (fname, callee, c), reason in sorted(CANNOT_OCCUR.items()):
        if not reason.startswith("handled: listed as a tolerable case label") or not prog.has_fn(fname) or c not in codes:
            continue
        fn = prog.fn(fname)
        for (b, i, r, call) in fn.calls_to(callee):
            n += 1
            key = "%s -> %s : %s" % (fname, callee, c)
            why = _tolerated_like_ok(fn, call, codes[c])
            if why is None:
                rule.ok(key, "tolerated: its case label falls into the arm of CIF_OK")
            else:
                rule.violation(fn.file, fname, call.get("l"), "tolerated-code-not-tolerated:" + key,
                               "%s returns %s for a loop header made up of duplicate names only (each already reported and "
                               "accepted); the parser is meant to tolerate it like CIF_OK, but %s: the parse aborts although "
                               "every error was accepted" % (callee, c, why))
    return n


def run(prog, chk):
    chk.level = "other"
    chk.explanation = ("Structural form of the error-callback contract, path-universal over every callback site of the parser: a "
                       "non-zero callback result (and a failing callee's result) reaches a `return` of that same value with no "
                       "further scanning, storing or callback in between, in every function up the call chain; positive codes "
                       "originate only from resource/internal conditions; every input-defect code a library call may return "
                       "is routed to the callback or listed with its reason in a frozen cannot-occur table.  Termination, "
                       "memory safety on arbitrary bytes and post-abort consistency of the CIF are not decided.")
    prop, res = analysis(prog)
    r1 = chk.rule("R1-verdict-propagation", "no error-callback verdict (or failing callee result) is dropped, overwritten or "
                  "followed by further parsing", floor=25)
    n = verdict_rule(prog, r1, ("error_callback", "callee"), res, absorb_key="negative-verdict-absorbed:parse_cif")
    n_cb = sum(1 for it in res.values() for (k, nd) in it.sites.values() if k == "error_callback")
    if n_cb < 25:
        raise Broken("only %d error-callback sites analysed" % n_cb)
    # the decoder callback in ciffile.c stores the verdict in the stream object; the reader must hand it on
    cf = [f for f in prog.all_functions() if f.unit == "ciffile.c" and any(indirect_target(c) == "error_callback" for (_, _, _, c) in f.calls())]
    for f in cf:
        stores = [nn for (b, i, r, nn) in f.eval_sites("asg") if (path(strip(nn.get("lhs"))) or "").endswith("last_error")
                  and any(indirect_target(x) == "error_callback" for x in walk(nn.get("rhs")) if x.get("k") == "call")]
        readers = [g for g in prog.all_functions() if g.unit == "ciffile.c" and g.name != f.name
                   and any((path(strip(a.get("lhs"))) or "").startswith("*") and
                           any((path(strip(x)) or "").endswith("last_error") for x in walk(a.get("rhs")) if x.get("k") == "member")
                           for (b, i, r, a) in g.eval_sites("asg"))]
        if stores and readers:
            r1.ok("%s:decoder-callback" % f.name, "verdict stored in last_error; returned by %s" % ", ".join(g.name for g in readers))
        else:
            r1.violation(f.file, f.name, f.line, "decoder-verdict:" + f.name, "the decoder callback's verdict is not handed to the reader")
    chk.extra_cov["error_callback_sites"] = n_cb
    chk.extra_cov["propagating_functions"] = sorted(prop)

    codes, _ = c20.result_codes(prog, prog.info)
    r2a = chk.rule("R2a-originated-codes", "parser functions originate positive codes only for resource/internal conditions "
                   "(everything else is reported through the callback)", floor=10)
    for fname in sorted(prop | {"decode_text", "get_more_chars"}):
        if not prog.has_fn(fname):
            continue
        fn = prog.fn(fname)
        for (b, i, r, nn) in fn.eval_sites():
            e = None
            if nn.get("k") == "asg" and nn.get("op") == "=":
                e = nn.get("rhs")
            elif nn.get("k") == "ret":
                e = nn.get("e")
            elif nn.get("k") == "decl":
                for v in nn.get("vars", []):
                    if v.get("init") is not None and macro_name(v["init"]) in codes:
                        e = v["init"]
            if e is None:
                continue
            es = strip(e)
            m = macro_name(es) if isinstance(es, dict) and es.get("k") in ("int", "cast") else None
            if m in codes and codes[m] > 0 and m != "CIF_FINISHED":
                key = "%s:%s" % (fname, m)
                if m in RESOURCE_CODES:
                    r2a.ok(key + "@L%s" % nn.get("l"), "resource/internal")
                elif nn.get("k") == "decl" and m == "CIF_ERROR":
                    r2a.ok(key, "FAILURE_HANDLING initial value")
                elif nn.get("k") == "asg" and _tested_locally(fn, codes[m], b.id):
                    r2a.ok(key + "@L%s" % nn.get("l"), "a local sentinel: the function compares the variable with this very code")
                else:
                    r2a.violation(fn.file, fname, nn.get("l"), "originates:" + key,
                                  "%s produces %s directly without reporting it to the error callback" % (fname, m))

    r2b = chk.rule("R2b-library-codes-routed", "every input-defect code a library call made by the parser may return is routed to "
                   "the error callback at that call site, or is in the frozen cannot-occur table with its reason", floor=10)
    cs = CodeSummary(prog, codes)
    chk.extra_cov["cannot_occur_table"] = len(CANNOT_OCCUR)
    for fname in sorted(prop | {"decode_text"}):
        if not prog.has_fn(fname):
            continue
        fn = prog.fn(fname)
        # result variable comparisons / case labels present in this function
        handled_consts = {}
        for b in fn.blocks.values():
            if b.label and b.label.get("k") == "case" and "v" in b.label:
                handled_consts.setdefault(b.label["v"], []).append(b.id)
        for (b, i, r, nn) in fn.eval_sites("bin"):
            if nn.get("op") in ("==", "!="):
                for side in ("lhs", "rhs"):
                    c = const(nn.get(side))
                    if c is not None and macro_name(nn.get(side)) in codes:
                        handled_consts.setdefault(c, []).append(b.id)
        cb_sites = [(b.id, i) for (b, i, r, c) in fn.calls() if indirect_target(c) == "error_callback"]
        for (b, i, r, call) in fn.calls():
            callee = call.get("callee")
            if not callee or callee not in cs.fns or cs.fns[callee].unit == "parser.c":
                continue
            sc = {c for c in cs.site_codes(callee, call) if INPUT_DEFECT.match(c) and c not in NOT_INPUT_DEFECT}
            for c in sorted(sc):
                key = "%s -> %s : %s" % (fname, callee, c)
                if (fname, callee, c) in CANNOT_OCCUR or (fname, callee, "*") in CANNOT_OCCUR:
                    reason = CANNOT_OCCUR.get((fname, callee, c)) or CANNOT_OCCUR[(fname, callee, "*")]
                    if reason.startswith("handled: listed as a tolerable case label"):
                        # not a belief but a claim about the code: the code's case label shares the tolerated arm of CIF_OK
                        why = _tolerated_like_ok(fn, call, codes[c])
                        if why is None:
                            r2b.ok(key, "tolerated: its case label falls into the arm of CIF_OK")
                        else:
                            r2b.violation(fn.file, fname, call.get("l"), "tolerated-code-not-tolerated:" + key,
                                          "%s returns %s for a loop header made up of duplicate names only (each already reported "
                                          "and accepted); the parser is meant to tolerate it like CIF_OK, but %s: the parse aborts "
                                          "although every error was accepted" % (callee, c, why))
                        continue
                    r2b.ok(key, "cannot occur: " + reason)
                    continue
                v = codes[c]
                routed = False
                # the variable receiving this call's result, and the blocks that overwrite it
                rvar = None
                for (b2, i2, r2, a) in fn.eval_sites("asg"):
                    if a.get("op") == "=" and any(x.get("id") == call["id"] for x in walk(a.get("rhs"))):
                        rvar = path(strip(a.get("lhs")))
                barrier = set()
                if rvar:
                    for (b2, i2, r2, a) in fn.eval_sites("asg"):
                        if b2.id != b.id and path(strip(a.get("lhs"))) == rvar:
                            barrier.add(b2.id)
                live = cfgq.reach(fn, [b.id], barrier)
                # a block that overwrites the variable may still be *entered* with the call's result (its label is tested first)
                live = live | {s2 for x in live for s2 in fn.blocks[x].succs if s2 is not None and s2 in barrier}
                for hb in handled_consts.get(v, []):
                    # the test on this code is reached with the call's result still in the variable, and leads to a callback
                    if hb in live and any(cb in cfgq.reach(fn, [hb]) for (cb, _) in cb_sites):
                        routed = True
                if routed:
                    r2b.ok(key, "compared with the call's result and routed to the error callback")
                else:
                    r2b.violation(fn.file, fname, call.get("l"), "unrouted-code:" + key,
                                  "%s may return %s here; the parser neither reports it through the error callback nor is the "
                                  "pair in the cannot-occur table: the parse would fail with zero callback invocations" % (callee, c))

    r3 = chk.rule("R3-callback-arguments", "the code argument is a result-code constant or the tested result variable; the line "
                  "argument is scanner->line (initialised to 1, only ever increased) or the literal 1", primary=False, floor=25)
    line_stores = []
    for f in prog.all_functions():
        if f.unit != "parser.c":
            continue
        for (b, i, r, nn) in f.eval_sites():
            if nn.get("k") == "asg" and re.search(r"(->|\.)line$", path(strip(nn.get("lhs"))) or ""):
                line_stores.append((f, nn))
            if nn.get("k") == "un" and nn.get("op") in ("pre--", "post--") and re.search(r"(->|\.)line$", path(strip(nn.get("e"))) or ""):
                line_stores.append((f, nn))
    for f, nn in line_stores:
        key = "%s:line %s@L%s" % (f.name, nn.get("op"), nn.get("l"))
        if nn.get("k") == "asg" and nn.get("op") == "=" and const(nn.get("rhs")) == 1:
            r3.ok(key, "initialised to 1")
        elif nn.get("k") == "asg" and nn.get("op") == "+=":
            r3.ok(key, "increased")
        else:
            r3.violation(f.file, f.name, nn.get("l"), "line-store:" + key, "scanner->line is modified other than `= 1` / `+=`")
    for fname, it in sorted(res.items()):
        fn = prog.fn(fname)
        for sid, (kind, node) in sorted(it.sites.items()):
            if kind != "error_callback":
                continue
            args = node.get("args", [])
            a0, a1 = strip(args[0]), strip(args[1])
            key = "%s:%s@L%s" % (fname, code_name_of_site(node), node.get("l"))
            code_ok = macro_name(a0) in codes or path(a0) in ("result",) or (a0.get("k") == "cond")
            line_ok = re.search(r"(->|\.)line$", path(a1) or "") is not None or const(a1) == 1
            if code_ok and line_ok:
                r3.ok(key, "code %s, line %s" % (show(a0)[:30], show(a1)[:20]))
            else:
                r3.violation(fn.file, fname, node.get("l"), "callback-args:" + key,
                             "unexpected callback arguments: code %s, line %s" % (show(a0)[:40], show(a1)[:30]))

    r3b = chk.rule("R3b-callback-text-inside-window", "a text argument of the form `next_char - k` is passed only where at least one "
                   "character has been scanned since next_char was last set back to the start of the window (text_start / buffer): "
                   "what lies before the window start may have been discarded", primary=False, floor=10)
    n_txt = 0
    for fname, it in sorted(res.items()):
        fn = prog.fn(fname)
        resets, advances = [], []
        for (b, i, r, x) in fn.eval_sites():
            if x.get("k") == "asg" and (path(strip(x.get("lhs"))) or "").endswith("next_char"):
                rp = path(strip(x.get("rhs"))) or ""
                if x.get("op") == "=" and (rp.endswith("text_start") or rp.endswith("->buffer")):
                    resets.append((b.id, i))
                elif x.get("op") == "+=" and (const(x.get("rhs")) or 0) > 0:
                    advances.append((b.id, i))
            elif x.get("k") == "un" and x.get("op") in ("post++", "pre++") and (path(strip(x.get("e"))) or "").endswith("next_char"):
                advances.append((b.id, i))
            elif x.get("k") == "call" and (x.get("callee") or "").startswith("scan_"):
                advances.append((b.id, i))
        mf = cfgq.MustFact(fn, gen_sites=advances, kill_sites=resets, entry_value=True) if resets else None
        for sid, (kind, node) in sorted(it.sites.items()):
            if kind != "error_callback" or len(node.get("args", [])) < 4:
                continue
            a3 = strip(node["args"][3])
            if not (isinstance(a3, dict) and a3.get("k") == "bin" and a3.get("op") == "-" and (path(strip(a3.get("lhs"))) or "").endswith("next_char")
                    and (const(a3.get("rhs")) or 0) > 0):
                continue
            n_txt += 1
            key = "%s:text=%s@L%s" % (fname, show(a3)[:30], node.get("l"))
            site = next(((b.id, i) for (b, i, r, x) in fn.eval_sites("call") if x.get("id") == node.get("id")), None)
            if mf is None or site is None or mf.at(site[0], site[1]):
                r3b.ok(key, "no reset of next_char to the window start reaches this report without a scanned character in between")
            else:
                r3b.violation(fn.file, fname, node.get("l"), "callback-text-before-window:%s" % fname,
                              "the error callback is given `%s` as text, but on a path to L%s next_char has just been set back to the "
                              "start of the window (text_start) with nothing scanned since: the pointer lies before the window - "
                              "before the buffer itself when the buffer was reset - and is not readable for the stated length"
                              % (show(a3), node.get("l")))
    if n_txt < 10:
        raise Broken("only %d callback sites with a `next_char - k` text argument found" % n_txt)

    r5 = chk.rule("R5-eof-sentinel-stays-in-scanner", "the value a parser function returns is never the scanner's private CIF_EOF "
                  "mark (-1, read by callers as a traversal directive): it is produced only by the buffer-refill functions and "
                  "replaced by every function that receives it", primary=False, floor=15)
    from .. import eofsentinel
    if eofsentinel.rule(prog, r5) < 15:
        raise Broken("fewer than 15 int functions analysed in parser.c")

    r6 = chk.rule("R6-signed-index-lower-bound", "an index variable of signed type into a fixed-size table (character classes, "
                  "keyword tables) is non-negative by construction or tested for it: option bytes and characters above 0x7F do "
                  "not become negative indexes", primary=False, floor=5)
    if memrules.signed_index_lower_bound(prog, r6) < 5:
        raise Broken("fewer than 5 signed-index accesses to fixed-size arrays found")

    # necessary conditions shared with sibling checks: a stale window pointer reads freed memory on long tokens (C08 R1); a
    # token kind missing from a production's switch makes the parser stop with CIF_INTERNAL_ERROR on that input (C01 R2);
    # an unterminated token at end of input keeps its tail (C12 R6)
    from . import c08, c01, c12
    c08.stale_pointer_rule(prog, chk, rid="R7", primary=False)
    c01.value_dispatch_rule(prog, chk, rid="R8", primary=False)
    r9 = chk.rule("R9-unterminated-token-keeps-its-tail", "when a scan function has reported an unterminated string / text field at "
                  "end of input, the token it hands over still ends where the input ends (shared with C12 R6)", primary=False, floor=3)
    if c12.unterminated_rule(prog, r9) < 3:
        raise Broken("fewer than 3 scan functions with an end-of-input recovery found")

    r11 = chk.rule("R11-parser-ownership", "in the parser units every object a function acquires is released or handed over exactly once "
                   "on every path, with no use or release after release - recovery arms included (the ownership typestate of C16 R1 "
                   "restricted to parser.c and ciffile.c)", primary=False, floor=10)
    from . import c16
    reports, res = c16.ownership_reports(prog)
    badf = set()
    for rp in reports:
        fn = rp["fn"]
        if rp["oom_only"] or fn.unit not in ("parser.c", "ciffile.c") or c16.exempt(rp):
            continue
        badf.add(fn.key)
        if rp["kind"] == "leak":
            msg = "%s acquired at L%s (%s) is neither released nor handed over on some path" % (
                rp["var"] or rp["names"] or "the allocation", rp["acq_line"], rp["callee"])
        else:
            msg = "%s (acquired at L%s by %s): %s" % (rp["kind"], rp["acq_line"], rp["callee"], rp["detail"])
        r11.violation(fn.file, fn.name, rp["acq_line"], c16.report_key(rp), msg, path=["L%s" % x for x in rp["state"].trail_lines()][-25:])
    for key, it in sorted(res.items()):
        f = prog.fn_by_key(key) if hasattr(prog, "fn_by_key") else None
        unit = key.split(":")[0] if ":" in key else (f.unit if f else "")
        if unit in ("parser.c", "ciffile.c") and key not in badf and not it.overflow:
            r11.ok(key, "%d acquisition site(s)" % len(it.acq_nodes), n=max(1, len(it.acq_nodes)))

    r10 = chk.rule("R10-failure-indicator-comes-with-its-code", "a character source that reports failure by a negative count has stored the "
                   "reason through its error-code parameter on every such path: get_more_chars returns that variable as the result "
                   "of the parse (shared with C17 R16)", primary=False, floor=2)
    from .. import outcode
    if outcode.rule(prog, r10) < 2:
        raise Broken("no function with an error-code out-parameter and a negative failure return found")

    r4 = chk.rule("R4-termination-and-read-bounds", "no loop of the parser units is idempotent (call-free, without loop-carried state: "
                  "such a loop cannot make progress once entered); no pointer into the read buffer is dereferenced under `<=` "
                  "against an exclusive end", primary=False, floor=60)
    n_loops = memrules.stuck_loops(prog, r4, only_units=("parser.c", "ciffile.c", "utils.c"))
    n_end = memrules.exclusive_end_guards(prog, r4)
    if n_loops < 60 or n_end < 2:
        raise Broken("only %d loops / %d exclusive-end guards found in the parser units" % (n_loops, n_end))
