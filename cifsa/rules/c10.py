"""C10 — number text <-> double conversion.  NARROW CLAIM: only the refusal-atomicity clause is decided."""
import re

from ..facts import Broken, strip, const, walk, walk_eval, macro_name, show
from ..interp import path
from .. import cfgq


def target_sites(fn, param, alias_names):
    """Stores through the target value (directly or through aliases of its members) and calls that receive it."""
    roots = {param} | set(alias_names)
    out = []
    for (b, i, r, n) in fn.eval_sites():
        if n.get("k") == "asg":
            p = path(strip(n.get("lhs"))) or ""
            for rt in roots:
                if p.startswith(rt + "->") or p.startswith("*" + rt) or p.startswith("(*" + rt):
                    out.append((b.id, i, n, "store %s" % p))
        elif n.get("k") == "call":
            for a in n.get("args", []):
                if path(strip(a)) in roots and n.get("callee") not in ("cif_value_kind",):
                    out.append((b.id, i, n, "call %s(%s)" % (n.get("callee"), path(strip(a)))))
    return out


def aliases_of(fn, param):
    out = set()
    for (b, i, r, n) in fn.eval_sites("decl"):
        for v in n.get("vars", []):
            init = strip(v.get("init")) if v.get("init") is not None else None
            if isinstance(init, dict) and init.get("k") == "un" and init.get("op") == "&" and (path(strip(init.get("e"))) or "").startswith(param + "->"):
                out.add(v["name"])
    return out


def run(prog, chk):
    chk.level = "other"
    chk.explanation = ("NARROW CLAIM.  Only one clause of the property has a structural form: a refused conversion does not modify "
                       "the value.  Decided on the CFG of cif_value_parse_numb (and cif_value_init_numb): every store through the "
                       "target value and the call that cleans it lie on paths from which only `return CIF_OK` is reachable, and the "
                       "codes produced on refusal are CIF_INVALID_NUMBER (syntax) or CIF_MEMORY_ERROR.  Acceptance of exactly the "
                       "CIF numeric syntax, correct rounding in both directions and formatting are value computations over "
                       "doubles and digit strings: no static argument in reach bounds them, and they are NOT decided.")
    r1 = chk.rule("R1-refusal-leaves-value-untouched", "in cif_value_parse_numb every modification of the target value is followed "
                  "only by `return CIF_OK`", floor=5)
    for fname, primary in (("cif_value_parse_numb", True), ("cif_value_init_numb", False)):
        fn = prog.fn(fname)
        param = fn.params[0]["name"]
        rule = r1 if primary else chk.rule("R2-init_numb-atomic", "the same for cif_value_init_numb", primary=False, floor=5)
        sites = target_sites(fn, param, aliases_of(fn, param))
        if len(sites) < 5:
            raise Broken("%s: only %d stores through the target value found" % (fname, len(sites)))
        rets = {b.id: n for (b, i, r, n) in fn.returns()}
        for (bid, idx, n, what) in sites:
            reach = cfgq.reach(fn, [bid])
            bad = [rn for rb, rn in rets.items() if rb in reach and not (rn.get("e") is not None and const(rn["e"]) == 0)]
            key = "%s:%s" % (fname, what)
            if bad:
                rule.violation(fn.file, fname, n.get("l"), "modifies-then-may-fail:" + key,
                               "%s at L%s can be followed by a non-OK exit (`%s` at L%s): a refused call would leave the value modified"
                               % (what, n.get("l"), bad[0].get("txt", "return"), bad[0].get("l")))
            else:
                rule.ok(key + "@L%s" % n.get("l"), "only `return CIF_OK` is reachable afterwards")
    fn = prog.fn("cif_value_parse_numb")
    r3 = chk.rule("R3-refusal-codes", "cif_value_parse_numb refuses with CIF_INVALID_NUMBER (syntax) or CIF_MEMORY_ERROR only", primary=False, floor=3)
    for (b, i, r, n) in fn.eval_sites("asg"):
        if path(strip(n.get("lhs"))) == "_error_code":
            m = macro_name(n.get("rhs"))
            key = "parse_numb:_error_code=%s@L%s" % (m, n.get("l"))
            if m in ("CIF_INVALID_NUMBER", "CIF_MEMORY_ERROR"):
                r3.ok(key)
            else:
                r3.violation(fn.file, fn.name, n.get("l"), "refusal-code:%s" % m, "refusal with %s" % m)

    r4 = chk.rule("R4-digit-runs-consumed-whole", "in cif_value_parse_numb a run of digits is left only because the next character is "
                  "not a digit: wherever the character at the scan position is compared with a non-digit (exponent mark, "
                  "parenthesis, terminator) every path since the last step over a digit has failed a digit test - no digit loop "
                  "stops on an accumulator or counter, which would leave digits behind and refuse a well-formed number", primary=False, floor=4)
    digit_runs(prog, fn, r4)

    r5 = chk.rule("R5-digits-required", "the loop that scans the mantissa also steps over the decimal point, so the `no digits` test "
                  "discounts it (mentions what the loop records when it consumes the point)", primary=False, floor=1)
    if digits_required(prog, fn, r5) < 1:
        raise Broken("cif_value_parse_numb: no scan loop accepting a non-digit with a following emptiness test was found")


def digits_required(prog, fn, rule):
    """A scan loop of cif_value_parse_numb that also steps over a non-digit (the decimal point) cannot tell `no digits` from `no
    progress`: the test that refuses a digit-less mantissa, a comparison of the cursor with the position where the loop
    started, has to discount the non-digits consumed - it mentions a local that the loop body assigns where the non-digit is
    consumed.  For loops that accept digits only, cursor > start is sufficient."""
    from .. import loops
    text = fn.params[1]["name"]
    # locals that are nothing but a copy of the character at the cursor (`UChar c = text[pos];`)
    char_alias = {}
    alias_defs = {}
    for (b, i, r, x) in fn.eval_sites():
        # keyed by declaration: two blocks may each declare a local of the same name
        if x.get("k") == "decl":
            for v in x.get("vars", []):
                if v.get("init") is not None:
                    alias_defs.setdefault((v["name"], v.get("did")), []).append(v["init"])
        elif x.get("k") == "asg" and isinstance(strip(x.get("lhs")), dict) and strip(x["lhs"]).get("k") == "ref":
            alias_defs.setdefault((strip(x["lhs"])["name"], strip(x["lhs"]).get("did")), []).append(x.get("rhs") if x.get("op") == "=" else x)
    for nm, ds in alias_defs.items():
        cur = set()
        for d in ds:
            d = strip(d)
            if isinstance(d, dict) and d.get("k") == "index" and path(strip(d.get("base"))) == text and \
                    isinstance(strip(d.get("idx")), dict) and strip(d["idx"]).get("k") == "ref":
                cur.add(strip(d["idx"])["name"])
            else:
                cur.add(None)
        if len(cur) == 1 and None not in cur:
            char_alias[nm] = next(iter(cur))

    def scan_char(e):
        e = strip(e)
        if isinstance(e, dict) and e.get("k") == "index" and path(strip(e.get("base"))) == text:
            ix = strip(e.get("idx"))
            if isinstance(ix, dict) and ix.get("k") == "ref":
                return ix["name"]
        if isinstance(e, dict) and e.get("k") == "ref" and (e.get("name"), e.get("did")) in char_alias:
            return char_alias[(e["name"], e.get("did"))]
        return None
    n = 0
    for lp in loops.natural_loops(fn):
        # digit test and non-digit acceptance among the conditions of the loop's blocks
        cursor, nondigit = None, []
        for bid in lp.body:
            c = cfgq.cond_of(fn, fn.blocks[bid])
            if c is None:
                continue
            t = cfgq.cmp_test(c, lambda e: scan_char(e) is not None)
            if t is None:
                continue
            v = [scan_char(x) for x in walk(c) if scan_char(x)]
            if t[0] in ("<", "<=", ">", ">=") and t[1] in (0x2F, 0x30, 0x39, 0x3A):
                cursor = v[0]
            elif t[0] == "==" and not (0x30 <= t[1] <= 0x39):
                nondigit.append((bid, t[1]))
        if cursor is None or not nondigit:
            continue
        # advances over the cursor inside the loop?
        adv = any(cursor in loops.rw(r)[1] for bid in lp.body for r in fn.blocks[bid].roots)
        if not adv:
            continue
        assigned = set()
        for bid in lp.body:
            for r in fn.blocks[bid].roots:
                for w in loops.rw(r)[1]:
                    if w != cursor and re.match(r"^\w+$", w):
                        assigned.add(w)
        # start variables: locals assigned from the cursor in a block that reaches the loop header and is outside the loop
        starts = set()
        for (b, i, r, a) in fn.eval_sites("asg"):
            if a.get("op") == "=" and path(strip(a.get("rhs"))) == cursor and b.id not in lp.body and lp.header in cfgq.reach(fn, [b.id]):
                starts.add(path(strip(a.get("lhs"))))
        # the first comparison after the loop that relates cursor and a start variable
        exits = {s for bid in lp.body for s in fn.blocks[bid].succs if s is not None and s not in lp.body}
        after = cfgq.reach(fn, list(exits)) | exits
        cands = []
        for (b, i, r, x) in fn.eval_sites("bin"):
            if b.id in after and b.id not in lp.body and x.get("op") in ("<=", "<", ">", ">=", "=="):
                names = {y.get("name") for y in walk(x) if y.get("k") == "ref"}
                if cursor in names and names & starts:
                    cands.append((x.get("l") or 0, x, names))
        if not cands:
            continue
        cands.sort(key=lambda t_: t_[0])
        line, x, names = cands[0]
        n += 1
        key = "L%s:%s" % (line, show(x)[:50])
        if names & assigned:
            rule.ok(key, "discounts the non-digit consumed by the loop through %s" % ", ".join(sorted(names & assigned)))
        else:
            rule.violation(fn.file, fn.name, line, "digitless-accepted:L%s" % line,
                           "the loop at L%s also steps over the character %#x, yet the test `%s` that should refuse a mantissa "
                           "without digits only asks whether the cursor moved: a lone decimal point passes as a number"
                           % (fn.blocks[lp.header].term.get("l") if fn.blocks[lp.header].term else "?", nondigit[0][1], show(x)[:50]))
    return n


def digit_runs(prog, fn, rule):
    from .. import loops
    text = fn.params[1]["name"] if len(fn.params) > 1 else None
    if text is None:
        raise Broken("cif_value_parse_numb: text parameter not found")

    def scan_char(e):
        """e is text[v] for a plain variable v -> v"""
        e = strip(e)
        if isinstance(e, dict) and e.get("k") == "index" and path(strip(e.get("base"))) == text:
            ix = strip(e.get("idx"))
            if isinstance(ix, dict) and ix.get("k") == "ref":
                return ix["name"]
        return None

    # digit tests: false edge of  text[v] >= '0' / text[v] <= '9'  (true edge of  < '0' / > '9')
    def digit_fail_edges(var):
        def m(cnd):
            t = cfgq.cmp_test(cnd, lambda e: scan_char(e) == var)
            if t is None:
                return None
            if t in ((">=", 0x30), ("<=", 0x39), (">", 0x2F), ("<", 0x3A)):
                return "false"
            if t in (("<", 0x30), (">", 0x39), ("<=", 0x2F), (">=", 0x3A)):
                return "true"
            return None
        return cfgq.guard_edges(fn, m)

    cursors = set()
    for b in fn.blocks.values():
        c = cfgq.cond_of(fn, b)
        if c is not None:
            t = cfgq.cmp_test(c, lambda e: scan_char(e) is not None)
            if t and t[0] in ("<", "<=", ">", ">=") and t[1] in (0x2F, 0x30, 0x39, 0x3A):
                for x in walk(c):
                    v = scan_char(x)
                    if v:
                        cursors.add(v)
    if not cursors:
        raise Broken("cif_value_parse_numb: no digit-range test on %s[..] found" % text)
    n_sites = 0
    for var in sorted(cursors):
        edges = digit_fail_edges(var)
        test_blocks = {bid for (bid, idx) in edges}
        dloops = [lp for lp in loops.natural_loops(fn) if lp.body & test_blocks]
        kills = []
        for lp in dloops:
            for bid in lp.body:
                for i, r in enumerate(fn.blocks[bid].roots):
                    rd, wr, calls, dw, dr = loops.rw(r)
                    if var in wr:
                        kills.append((bid, i))
        if not dloops or not kills:
            raise Broken("cif_value_parse_numb: no digit loop advancing `%s` found" % var)
        mf = cfgq.MustFact(fn, gen_edges=edges, kill_sites=kills, entry_value=True)
        in_loops = set().union(*[lp.body for lp in dloops])
        for (b, i, r, n) in fn.eval_sites("bin"):
            if n.get("op") not in ("==", "!="):
                continue
            for x, o in ((n.get("lhs"), n.get("rhs")), (n.get("rhs"), n.get("lhs"))):
                c = const(o)
                if scan_char(x) != var or c is None or 0x30 <= c <= 0x39:
                    continue
                if b.id in in_loops:
                    continue        # part of a digit loop's own continuation test (the decimal point)
                n_sites += 1
                key = "L%s:%s[%s] %s %#x" % (n.get("l"), text, var, n.get("op"), c)
                v = mf.at(b.id, i)
                if v is None or v:
                    rule.ok(key, "every digit run before it ended on a failed digit test")
                else:
                    rule.violation(fn.file, fn.name, n.get("l"), "digits-left-behind:L%s" % n.get("l"),
                                   "`%s[%s]` is compared with a non-digit at L%s on a path that left a digit loop (lines %s) without "
                                   "the digit test having failed: the loop can stop on something other than the character class, "
                                   "remaining digits are then taken for an unparsed tail and a well-formed number is refused"
                                   % (text, var, n.get("l"), ", ".join(str(fn.blocks[lp.header].term.get("l")) for lp in dloops if fn.blocks[lp.header].term)))
    if n_sites < 4:
        raise Broken("cif_value_parse_numb: only %d comparisons of the scan character with non-digits found" % n_sites)

