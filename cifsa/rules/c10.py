"""C10 — number text <-> double conversion.  NARROW CLAIM: only the refusal-atomicity clause is decided."""
from ..facts import Broken, strip, const, walk, walk_eval, macro_name
from ..interp import path
from .. import cfgq


def target_sites(fn, param, alias_names):
    """Stores through the target value (directly or through aliases of its members) and calls that receive it."""
    roots = {param} | set(alias_names)
    out = []
    for (b, i, r, n) in fn.eval_sites():
        if n.get("k") == "asg":
            p = path(strip(n.get("lhs"))) or ""
            for rt in roots:
                if p.startswith(rt + "->") or p.startswith("*" + rt) or p.startswith("(*" + rt):
                    out.append((b.id, i, n, "store %s" % p))
        elif n.get("k") == "call":
            for a in n.get("args", []):
                if path(strip(a)) in roots and n.get("callee") not in ("cif_value_kind",):
                    out.append((b.id, i, n, "call %s(%s)" % (n.get("callee"), path(strip(a)))))
    return out


def aliases_of(fn, param):
    out = set()
    for (b, i, r, n) in fn.eval_sites("decl"):
        for v in n.get("vars", []):
            init = strip(v.get("init")) if v.get("init") is not None else None
            if isinstance(init, dict) and init.get("k") == "un" and init.get("op") == "&" and (path(strip(init.get("e"))) or "").startswith(param + "->"):
                out.add(v["name"])
    return out


def run(prog, chk):
    chk.level = "other"
    chk.explanation = ("NARROW CLAIM.  Only one clause of the property has a structural form: a refused conversion does not modify "
                       "the value.  Decided on the CFG of cif_value_parse_numb (and cif_value_init_numb): every store through the "
                       "target value and the call that cleans it lie on paths from which only `return CIF_OK` is reachable, and the "
                       "codes produced on refusal are CIF_INVALID_NUMBER (syntax) or CIF_MEMORY_ERROR.  Acceptance of exactly the "
                       "CIF numeric syntax, correct rounding in both directions and formatting are value computations over "
                       "doubles and digit strings: no static argument in reach bounds them, and they are NOT decided.")
    r1 = chk.rule("R1-refusal-leaves-value-untouched", "in cif_value_parse_numb every modification of the target value is followed "
                  "only by `return CIF_OK`", floor=5)
    for fname, primary in (("cif_value_parse_numb", True), ("cif_value_init_numb", False)):
        fn = prog.fn(fname)
        param = fn.params[0]["name"]
        rule = r1 if primary else chk.rule("R2-init_numb-atomic", "the same for cif_value_init_numb", primary=False, floor=5)
        sites = target_sites(fn, param, aliases_of(fn, param))
        if len(sites) < 5:
            raise Broken("%s: only %d stores through the target value found" % (fname, len(sites)))
        rets = {b.id: n for (b, i, r, n) in fn.returns()}
        for (bid, idx, n, what) in sites:
            reach = cfgq.reach(fn, [bid])
            bad = [rn for rb, rn in rets.items() if rb in reach and not (rn.get("e") is not None and const(rn["e"]) == 0)]
            key = "%s:%s" % (fname, what)
            if bad:
                rule.violation(fn.file, fname, n.get("l"), "modifies-then-may-fail:" + key,
                               "%s at L%s can be followed by a non-OK exit (`%s` at L%s): a refused call would leave the value modified"
                               % (what, n.get("l"), bad[0].get("txt", "return"), bad[0].get("l")))
            else:
                rule.ok(key + "@L%s" % n.get("l"), "only `return CIF_OK` is reachable afterwards")
    fn = prog.fn("cif_value_parse_numb")
    r3 = chk.rule("R3-refusal-codes", "cif_value_parse_numb refuses with CIF_INVALID_NUMBER (syntax) or CIF_MEMORY_ERROR only", primary=False, floor=3)
    for (b, i, r, n) in fn.eval_sites("asg"):
        if path(strip(n.get("lhs"))) == "_error_code":
            m = macro_name(n.get("rhs"))
            key = "parse_numb:_error_code=%s@L%s" % (m, n.get("l"))
            if m in ("CIF_INVALID_NUMBER", "CIF_MEMORY_ERROR"):
                r3.ok(key)
            else:
                r3.violation(fn.file, fn.name, n.get("l"), "refusal-code:%s" % m, "refusal with %s" % m)
