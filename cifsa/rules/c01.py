"""C01 — well-formed CIF parses to the content it denotes: scanner tables = grammar tables; dispatch completeness."""
from ..facts import Broken, strip, const, walk_eval
from ..interp import path
from .. import cfgq, scantab

VALUE_TOKENS = {"OLIST", "OTABLE", "TVALUE", "QVALUE", "VALUE"}
RECOVERY_TOKENS = {"KEY", "TKEY"}          # missing-whitespace recovery arms re-dispatch these as values


def expected_char_class(version):
    """CIF 2.0 / 1.1 lexical grammar, transcribed: code point -> class name (None = NO_CLASS)."""
    t = {}
    for c in range(0, 160):
        t[c] = "NO_CLASS"
    for c in range(0x21, 0x7F):
        t[c] = "GENERAL_CLASS"
    t[0x09] = "WS_CLASS"
    t[0x20] = "WS_CLASS"
    t[0x0A] = "EOL_CLASS"
    t[0x0D] = "EOL_CLASS"
    t[0x22] = "QUOTE_CLASS"
    t[0x27] = "QUOTE_CLASS"
    t[0x23] = "HASH_CLASS"
    t[0x24] = "DOLLAR_CLASS"
    t[0x3B] = "SEMI_CLASS"
    t[0x5F] = "UNDERSC_CLASS"
    for ch in "ABDEGLOPSTV":
        t[ord(ch)] = ch + "_CLASS"
        t[ord(ch.lower())] = ch + "_CLASS"
    if version == 2:
        t[0x5B] = "OBRAK_CLASS"
        t[0x5D] = "CBRAK_CLASS"
        t[0x7B] = "OCURL_CLASS"
        t[0x7D] = "CCURL_CLASS"
    else:
        t[0x5B] = "OBRAK1_CLASS"
        t[0x5D] = "CBRAK1_CLASS"
        t[0x7B] = "GENERAL_CLASS"
        t[0x7D] = "GENERAL_CLASS"
    return t


EXPECTED_META = {
    "NO_CLASS": "NO_META", "WS_CLASS": "WS_META", "EOL_CLASS": "WS_META",
    "OBRAK_CLASS": "OPEN_META", "OCURL_CLASS": "OPEN_META", "CBRAK_CLASS": "CLOSE_META", "CCURL_CLASS": "CLOSE_META",
}

EXPECTED_WORDS = {
    "data_": {"BLOCK_HEAD", "error:CIF_RESERVED_WORD"},
    "save_": {"FRAME_HEAD|FRAME_TERM"},
    "loop_": {"LOOPKW"},
    "stop_": {"error:CIF_RESERVED_WORD"},
    "global_": {"error:CIF_RESERVED_WORD"},
}
EXPECTED_LEN = {("data_", "error:CIF_RESERVED_WORD"): "len==5", ("data_", "BLOCK_HEAD"): "len!=5",
                ("loop_", "LOOPKW"): "len==5", ("stop_", "error:CIF_RESERVED_WORD"): "len==5",
                ("global_", "error:CIF_RESERVED_WORD"): "len==7"}


def ttype_switches(fn):
    """[(switch block, {label name: case block id}, has_default, default block id)] for switches on ->ttype."""
    out = []
    for b in fn.blocks.values():
        if not b.term or b.term.get("k") != "SwitchStmt":
            continue
        c = cfgq.cond_of(fn, b)
        p = path(strip(c)) if c else None
        if not p or not p.endswith("ttype"):
            continue
        labels = {}
        default = None
        for s in b.succs:
            if s is None:
                continue
            lab = fn.blocks[s].label
            if lab and lab.get("k") == "case":
                labels[lab.get("name") or str(lab.get("v"))] = s
            elif lab and lab.get("k") == "default":
                default = s
        # nested labels `case A: case B:` chain through fall-through blocks that are also switch successors: covered
        out.append((b, labels, default))
    return out


def first_calls(fn, start, targets, stop):
    """Targets whose call is reachable from block `start` before a call in `stop`."""
    seen = {start}
    st = [start]
    found = set()
    while st:
        x = st.pop()
        halted = False
        for r in fn.blocks[x].roots:
            for n in walk_eval(r):
                if n.get("k") == "call":
                    if n.get("callee") in targets:
                        found.add(n["callee"])
                        halted = True
                    elif n.get("callee") in stop:
                        halted = True
                if halted:
                    break
            if halted:
                break
        if halted:
            continue
        b = fn.blocks[x]
        if b.term and b.term.get("k") == "SwitchStmt" and x != start:
            c = cfgq.cond_of(fn, b)
            p = path(strip(c)) if c else None
            if p and p.endswith("ttype"):
                continue
        for s in b.succs:
            if s is not None and s not in seen:
                seen.add(s)
                st.append(s)
    return found


def class_table_rule(prog, chk, tabs=None, rid="R1", primary=True):
    if tabs is None:
        tabs = scantab.ScannerTables(prog)
    r1 = chk.rule(rid + "-class-table", "char_class / meta_class as initialised for CIF 2.0 and patched for CIF 1.1 equal the "
                  "lexical grammar (160 code points x 2 dialects, 7 metaclass rows)", floor=160, primary=primary)
    fn = tabs.fn
    for version in (2, 1):
        exp = expected_char_class(version)
        got = tabs.char_class(version)
        if set(got) != set(range(tabs.table_max)):
            r1.violation(fn.file, fn.name, fn.line, "table-coverage:v%d" % version,
                         "char_class entries initialised: %d of %d" % (len(got), tabs.table_max))
        for c in range(min(160, tabs.table_max)):
            g = got.get(c, (None, None))[0]
            if g == exp[c]:
                r1.ok("v%d U+%04X" % (version, c), g)
            else:
                r1.violation(fn.file, fn.name, fn.line, "char_class:v%d:U+%04X" % (version, c),
                             "CIF %s: char_class[0x%02X] is %s, the grammar says %s" % ("2.0" if version == 2 else "1.1", c, g, exp[c]))
    meta, default = tabs.meta_of_class(2)
    classes = {v[0] for v in tabs.v2_char.values()} | {v[0] for v in tabs.v1_char_patch.values()}
    for cname in sorted(classes | set(EXPECTED_META)):
        g = meta.get(cname, default)
        e = EXPECTED_META.get(cname, "GENERAL_META")
        if g == e:
            r1.ok("meta %s" % cname, g)
        else:
            r1.violation(fn.file, fn.name, fn.line, "meta_class:%s" % cname, "meta_class[%s] is %s, expected %s" % (cname, g, e))
    # distinct classes have distinct numeric codes
    codes = {}
    for (cname, val) in set(tabs.v2_char.values()) | set(tabs.v1_char_patch.values()):
        codes.setdefault(val, set()).add(cname)
    for val, names in codes.items():
        if len(names) > 1:
            r1.violation(fn.file, fn.name, fn.line, "class-code-clash:%d" % val, "classes %s share the code %d" % (sorted(names), val))
    chk.extra_cov["dynamic_table_stores"] = ["L%s %s (option-driven extra ws/eol characters)" % d for d in tabs.dynamic]



def value_dispatch_rule(prog, chk, rid="R2", primary=True):
    r2 = chk.rule(rid + "-value-dispatch", "every switch on the token type that accepts one value-starting token accepts all five "
                  "(OLIST OTABLE TVALUE QVALUE VALUE) and dispatches them alike; parse_value is reached only under them; "
                  "parse_container names every token kind", floor=6, primary=primary)
    enum = prog.enums.get("token_type")
    if not enum:
        raise Broken("enum token_type not found")
    enumerators = [e["name"] for e in enum["enumerators"]]
    n_sw = 0
    for fname in ("parse_cif", "parse_container", "parse_item", "parse_loop_header", "parse_loop_packets", "parse_list",
                  "parse_table", "parse_value"):
        pf = prog.fn(fname)
        for (sb, labels, default) in ttype_switches(pf):
            n_sw += 1
            present = VALUE_TOKENS & set(labels)
            key = "%s:switch@%s" % (fname, "+".join(sorted(labels))[:60])
            if present and present != VALUE_TOKENS:
                r2.violation(pf.file, pf.name, sb.term.get("l"), "incomplete-value-labels:" + fname + ":" + "+".join(sorted(present)),
                             "switch on the token type handles %s but not %s" % (sorted(present), sorted(VALUE_TOKENS - present)))
                continue
            if not present:
                r2.info(key, "no value token label")
                continue
            targets = {"parse_value", "parse_item", "parse_list", "parse_table", "decode_text", "cif_value_init_char",
                       "cif_value_init", "cif_value_copy_char", "cif_value_parse_numb"}
            reach = {t: frozenset(first_calls(pf, labels[t], targets, {"next_token"})) for t in VALUE_TOKENS}
            if fname == "parse_value":
                empty = [t for t, r in reach.items() if not r]
                if empty:
                    r2.violation(pf.file, pf.name, sb.term.get("l"), "parse_value-arm-empty:" + "+".join(sorted(empty)),
                                 "parse_value has no handler for %s" % sorted(empty))
                else:
                    r2.ok(key, "; ".join("%s->%s" % (t, "/".join(sorted(r))) for t, r in sorted(reach.items())))
            else:
                direct = {t for t, r in reach.items() if r & {"parse_value", "parse_item"}}
                if fname == "parse_table" and "CTABLE" in labels and "KEY" in labels:
                    # named exemption: parse_table's *key-position* switch; an unquoted VALUE there is a
                    # (mis-presented) key, not a value, and legitimately has its own arm
                    r2.ok(key, "key-position switch (exempt from even dispatch): %s" % sorted(direct))
                elif direct and direct != VALUE_TOKENS:
                    r2.violation(pf.file, pf.name, sb.term.get("l"), "uneven-value-dispatch:" + fname,
                                 "only %s reach the value production from this switch" % sorted(direct))
                else:
                    r2.ok(key, "all five value tokens %s" % ("reach " + "/".join(sorted(set().union(*reach.values()))) if direct else "share the arm(s)"))
    if n_sw < 6:
        raise Broken("only %d switches on the token type found" % n_sw)
    # parse_value only under value tokens (or the KEY/TKEY recovery arms)
    for fname in ("parse_item", "parse_loop_packets", "parse_list", "parse_table"):
        pf = prog.fn(fname)
        for (b, i, r, n) in pf.calls_to("parse_value"):
            allowed = []
            for (sb, labels, default) in ttype_switches(pf):
                for t in VALUE_TOKENS | RECOVERY_TOKENS:
                    if t in labels:
                        allowed.append((labels[t], -1))
            if allowed and cfgq.must_precede(pf, (b.id, i), allowed):
                r2.ok("%s:parse_value@call-under-value-label" % fname, "L%s" % n.get("l"))
            else:
                r2.violation(pf.file, pf.name, n.get("l"), "parse_value-outside-value-label:" + fname,
                             "parse_value is reachable without passing a value-token case label")
    pc = prog.fn("parse_container")
    sw = [x for x in ttype_switches(pc) if len(x[1]) >= 8]
    if not sw:
        raise Broken("parse_container: main token switch not found")
    sb, labels, default = sw[0]
    missing = [e for e in enumerators if e not in labels and e != "ERROR"]
    if missing:
        r2.violation(pc.file, pc.name, sb.term.get("l"), "parse_container-missing-case:" + "+".join(missing),
                     "parse_container's token switch has no case for %s (falls to the CIF_INTERNAL_ERROR default)" % missing)
    else:
        r2.ok("parse_container:all-token-kinds", "%d enumerators, all but ERROR have a case" % len(enumerators))
    ie = prog.macro_int("CIF_INTERNAL_ERROR")
    for pf, (sb2, labels2, default2) in ((pc, sw[0]), (prog.fn("parse_value"), ttype_switches(prog.fn("parse_value"))[0])):
        ok_default = False
        if default2 is not None:
            for r in pf.blocks[default2].roots:
                for n in walk_eval(r):
                    if n.get("k") in ("asg", "ret") and const(n.get("rhs") if n.get("k") == "asg" else n.get("e")) == ie:
                        ok_default = True
        (r2.ok if ok_default else r2.info)("%s:default-is-internal-error" % pf.name, "")



def run(prog, chk):
    chk.level = "other"
    chk.explanation = ("Two necessary conditions of correct parsing, decided exhaustively over finite tables: the scanner's "
                       "character-class and metaclass tables (reconstructed from INIT_V2_SCANNER / SET_V1 stores in "
                       "cif_parse_internal) equal the CIF 2.0 / 1.1 lexical grammar, and every grammar production that "
                       "accepts values accepts all five value-starting token kinds and dispatches them alike; reserved-word "
                       "recognisers agree.  Does not decide the scanner's transitions or decode_text on arbitrary documents.")
    tabs = scantab.ScannerTables(prog)

    class_table_rule(prog, chk, tabs)
    value_dispatch_rule(prog, chk)

    r3 = chk.rule("R3-reserved-words", "reserved-word recognisers agree: next_token's class chains, scan_unquoted's "
                  "data_/save_ class arrays", primary=False, floor=5)
    words = scantab.next_token_words(prog)
    nt = prog.fn("next_token")
    for w, outs in sorted(EXPECTED_WORDS.items()):
        got = {o.split(" [")[0] for o in words.get(w, set())}
        if got != outs:
            r3.violation(nt.file, nt.name, nt.line, "word:" + w, "next_token maps %r to %s, expected %s" % (w, sorted(got), sorted(outs)))
            continue
        bad = False
        for o in words[w]:
            base = o.split(" [")[0]
            want = EXPECTED_LEN.get((w, base))
            if want and want not in o:
                bad = True
                r3.violation(nt.file, nt.name, nt.line, "word-length:" + w + ":" + base, "%r -> %s lacks the length condition %s (%s)" % (w, base, want, o))
        if not bad:
            r3.ok("next_token:" + w, ", ".join(sorted(words[w])))
    for w in sorted(set(words) - set(EXPECTED_WORDS)):
        r3.violation(nt.file, nt.name, nt.line, "word-extra:" + w, "next_token treats %r as reserved (%s)" % (w, sorted(words[w])))
    su = scantab.scan_unquoted_words(prog)
    sf = prog.fn("scan_unquoted")
    for var, want in (("data_classes", "data_"), ("save_classes", "save_")):
        if su.get(var) == want:
            r3.ok("scan_unquoted:" + var, want)
        else:
            r3.violation(sf.file, sf.name, sf.line, "scan_unquoted:" + var, "%s spells %r, expected %r" % (var, su.get(var), want))

    r4 = chk.rule("R4-eof-sentinel-stays-in-scanner", "CIF_EOF, the scanner's end-of-input mark (numerically CIF_TRAVERSE_SKIP_CURRENT), "
                  "is returned only by the functions that produce it: every scan / parse function replaces it before returning "
                  "(a token ending exactly at end of input is still delivered)", primary=False, floor=15)
    from .. import eofsentinel
    if eofsentinel.rule(prog, r4) < 15:
        raise Broken("fewer than 15 int functions analysed in parser.c")

    r5 = chk.rule("R5-closing-delimiter-run", "a triple-quoted string ends at three contiguous delimiter characters: the counter of "
                  "consecutive delimiters is reset by every other character", primary=False, floor=1)
    from .. import memrules
    if memrules.run_counters(prog, r5) < 1:
        raise Broken("no run counter found in parser.c (expected delim_count of scan_triple_delim_string)")

    # shared with C08 (R6 there): what the document denotes does not depend on where the reads of the character source end
    from . import c08
    c08.source_accounting(prog, chk)
    c08.stale_pointer_rule(prog, chk, rid="R7", primary=False)
    c08.drained_mark(prog, chk)

    r6 = chk.rule("R6-bracket-arms-agree", "in scan_unquoted the arms for opening and for closing brackets decide `this is not a "
                  "data_/save_ header, the bracket ends the value` with the same condition: both kinds of bracket end an unquoted "
                  "value in the same circumstances", primary=False, floor=1)
    su_fn = prog.fn("scan_unquoted")

    def arm_condition(label_macro):
        for b in su_fn.blocks.values():
            if b.label and b.label.get("k") == "case" and label_macro in (b.label.get("ms") or []):
                cur, hops = b, 0
                while cur is not None and hops < 4:
                    t = cur.term
                    if t and t.get("k") == "IfStmt" and isinstance(t.get("full"), dict):
                        return t["full"], b
                    nxt = [x for x in cur.succs if x is not None]
                    # follow the short-circuit chain: the successor that holds the next operand / the if itself
                    cur = su_fn.blocks[max(nxt)] if nxt else None
                    hops += 1
        return None, None
    from ..facts import show as _show, walk
    oc, ob = arm_condition("OPEN_META")
    cc, cb = arm_condition("CLOSE_META")
    if oc is None or cc is None:
        raise Broken("scan_unquoted: the OPEN_META / CLOSE_META arms were not found")
    def vars_of(e):
        return {x.get("name") for x in walk(e) if x.get("k") == "ref" and x.get("dk") in ("local", "parm", "slocal")}
    # the same decision: it depends on the same variables (an equivalent rewriting of one arm keeps them)
    if vars_of(oc) == vars_of(cc):
        r6.ok("scan_unquoted:OPEN_META/CLOSE_META", "both decide from %s" % ", ".join(sorted(vars_of(oc))))
    else:
        r6.violation(su_fn.file, su_fn.name, cb.label.get("l"), "bracket-arms-differ",
                     "the OPEN_META arm ends the value under `%s`, the CLOSE_META arm under `%s`: a word that is a prefix of data_ / "
                     "save_ directly before a closing bracket is scanned differently from one before an opening bracket (the "
                     "bracket is swallowed into the value)" % (_show(oc)[:60], _show(cc)[:60]))

