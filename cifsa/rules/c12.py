"""C12 — each class of input defect is reported with its code and recovered as documented:
code tables agree (emitted / documented / required), token consumption after acceptance matches the documented action."""
import os
import re

from ..facts import Broken, strip, const, walk, walk_eval, macro_name
from ..interp import path
from .. import cfgq, loops
from ..parserai import indirect_target
from . import c20

# Defect classes of the property statement -> codes (DESIGN.md A.4)
REQUIRED_CODES = [
    "CIF_MISSING_VALUE", "CIF_DUP_ITEMNAME", "CIF_DUP_BLOCKCODE", "CIF_INVALID_BLOCKCODE", "CIF_DUP_FRAMECODE",
    "CIF_INVALID_FRAMECODE", "CIF_NO_BLOCK_HEADER", "CIF_PARTIAL_PACKET", "CIF_NULL_LOOP", "CIF_EMPTY_LOOP",
    "CIF_MISSING_ENDQUOTE", "CIF_UNCLOSED_TEXT", "CIF_MISSING_SPACE", "CIF_UNEXPECTED_DELIM", "CIF_MISSING_DELIM",
    "CIF_MISSING_KEY", "CIF_NULL_KEY", "CIF_UNQUOTED_KEY", "CIF_MISQUOTED_KEY", "CIF_RESERVED_WORD", "CIF_NO_FRAME_TERM",
    "CIF_EOF_IN_FRAME", "CIF_UNEXPECTED_TERM", "CIF_FRAME_NOT_ALLOWED", "CIF_OVERLENGTH_LINE", "CIF_DISALLOWED_CHAR",
]
DECODER_CODES = {"CIF_INVALID_CHAR", "CIF_UNMAPPED_CHAR"}
# Documented action per code: does accepting the error consume the offending token ("drop") or leave it ("keep")?
ACTION = {
    "CIF_UNEXPECTED_DELIM": "drop", "CIF_RESERVED_WORD": "drop", "CIF_UNEXPECTED_TERM": "drop", "CIF_MISSING_KEY": "drop",
    "CIF_NO_FRAME_TERM": "keep", "CIF_EOF_IN_FRAME": "keep", "CIF_MISSING_VALUE": "keep", "CIF_MISSING_DELIM": "keep",
    "CIF_PARTIAL_PACKET": "keep", "CIF_EMPTY_LOOP": "keep",
}
CONSUMING_CALLS = {"parse_value", "parse_item", "parse_list", "parse_table"}


def documented_codes(info):
    src = open(os.path.join(info["srcdir"], "parser.c"), encoding="latin-1").read()
    m = re.search(r"@page\s+\w*recovery.*?\*/", src, re.S) or re.search(r"<table>.*?</table>", src, re.S)
    region = m.group(0) if m else src[:40000]
    rows = re.findall(r"<tr><td>([^<]*)</td><td>@c\s+(CIF_\w+)</td><td>([^<]*)</td></tr>", region)
    return {code: (what.strip(), action.strip()) for (what, code, action) in rows}


def callback_sites(prog):
    out = []
    for fn in prog.all_functions():
        if fn.unit not in ("parser.c", "ciffile.c"):
            continue
        for (b, i, r, n) in fn.calls():
            if indirect_target(n) != "error_callback":
                continue
            a0 = strip(n["args"][0])
            names = set()
            m = macro_name(a0)
            if m and m.startswith("CIF_"):
                names.add(m)
            elif a0.get("k") == "cond":
                for x in walk(a0):
                    mm = macro_name(x) if x.get("k") == "int" else None
                    if mm and mm.startswith("CIF_"):
                        names.add(mm)
            else:
                # variable code: the case labels of the switch on that variable which reach this site
                vp = path(a0)
                barrier = {bb.id for (bb, ii, rr, a) in fn.eval_sites("asg") if path(strip(a.get("lhs"))) == vp}
                barrier |= {sb.id for sb in fn.blocks.values() if sb.term and sb.term.get("k") == "SwitchStmt"
                            and cfgq.cond_of(fn, sb) is not None and path(strip(cfgq.cond_of(fn, sb))) == vp}
                for sb in fn.blocks.values():
                    if sb.term and sb.term.get("k") == "SwitchStmt":
                        c = cfgq.cond_of(fn, sb)
                        if c is not None and path(strip(c)) == vp:
                            for s in sb.succs:
                                if s is None:
                                    continue
                                lab = fn.blocks[s].label
                                if lab and lab.get("k") == "case" and (lab.get("ms") or [None])[0] and \
                                        (b.id == s or b.id in cfgq.reach(fn, [s], barrier - {b.id})):
                                    # only labels from which the site is reached before the variable is tested again
                                    names.add(lab["ms"][0])
            out.append((fn, b, i, n, names))
    return out


def run(prog, chk):
    chk.level = "other"
    chk.explanation = ("Agreement of three finite tables — codes that can reach the error callback (constant arguments and the "
                       "case labels guarding variable ones), the parser's documented recovery table, and the defect classes of "
                       "the property — plus, per documented row, a CFG check that accepting the error consumes the offending "
                       "token ('drop/ignore' rows) or leaves it for the caller ('assume the missing X' rows).  Reported line "
                       "numbers and the exact recovered content are not decided.")
    sites = callback_sites(prog)
    if len(sites) < 25:
        raise Broken("only %d error-callback sites found" % len(sites))
    doc = documented_codes(prog.info)
    if len(doc) < 20:
        raise Broken("error recovery table not found in parser.c (rows: %d)" % len(doc))
    codes, _ = c20.result_codes(prog, prog.info)
    emitted = {}
    for (fn, b, i, n, names) in sites:
        for nm in names:
            emitted.setdefault(nm, []).append((fn, n))

    r1 = chk.rule("R1-code-tables", "every code that can reach the callback is documented (or is a decoder code) and defined; "
                  "every defect class of the property has an emission site", floor=30)
    for nm, ss in sorted(emitted.items()):
        fn, n = ss[0]
        if nm not in codes:
            r1.violation(fn.file, fn.name, n.get("l"), "undefined-code:" + nm, "%s is reported but is not a result code of cif.h" % nm)
        elif nm in doc or nm in DECODER_CODES:
            r1.ok("emitted:" + nm, "%d site(s); %s" % (len(ss), "documented: " + doc[nm][1] if nm in doc else "decoder code"))
        else:
            r1.violation(fn.file, fn.name, n.get("l"), "undocumented-code:" + nm,
                         "%s can be reported (e.g. %s L%s) but the recovery table does not document it" % (nm, fn.name, n.get("l")))
    for nm in REQUIRED_CODES:
        if nm in emitted:
            r1.ok("required:" + nm, "reported by %s" % ", ".join(sorted({f.name for f, _ in emitted[nm]})))
        else:
            r1.violation("parser.c", "error_recovery", 0, "never-reported:" + nm, "no callback site reports %s" % nm)
    for nm in sorted(set(doc) - set(emitted)):
        r1.info("documented-not-emitted:" + nm, doc[nm][0])
    unnamed = [(fn, n) for (fn, b, i, n, names) in sites if not names]
    for fn, n in unnamed:
        r1.violation(fn.file, fn.name, n.get("l"), "unresolved-code-argument:%s" % fn.name, "the code argument of a callback site could not be resolved")

    r2 = chk.rule("R2-token-consumption", "after an accepted error the token is consumed for 'drop/ignore' rows and left in place for "
                  "'assume the missing ...' rows, as documented", floor=10)
    for (fn, b, i, n, names) in sites:
        acts = {ACTION[x] for x in names if x in ACTION}
        if not acts:
            continue
        if len(acts) > 1:
            r2.unproved("%s@L%s" % (fn.name, n.get("l")), "site shared by rows with different actions")
            continue
        act = acts.pop()
        code = sorted(x for x in names if x in ACTION)[0]
        consume = [(bb.id, ii) for (bb, ii, rr, a) in fn.eval_sites("asg") if "CONSUME_TOKEN" in (a.get("ms") or [])
                   and (path(strip(a.get("lhs"))) or "").endswith("text_start")]
        consume += [(bb.id, ii) for (bb, ii, rr, c) in fn.calls() if c.get("callee") in CONSUMING_CALLS]
        fetch = [(bb.id, ii) for (bb, ii, rr, c) in fn.calls() if c.get("callee") == "next_token"]
        before = cfgq.MustFact(fn, gen_sites=consume, kill_sites=fetch).at(b.id, i)
        # region after acceptance
        rvar = None
        for (b2, i2, r2_, a) in fn.eval_sites("asg"):
            if a.get("op") == "=" and any(x.get("id") == n["id"] for x in walk(a.get("rhs"))):
                rvar = path(strip(a.get("lhs")))

        def pred(e):
            e = strip(e)
            if path(e) == rvar and rvar:
                return True
            return isinstance(e, dict) and e.get("k") == "asg" and path(strip(e.get("lhs"))) == rvar
        c = cfgq.cond_of(fn, b)
        z = cfgq.zero_test(c, pred) if c is not None else None
        same_block_after = [(cb, ci) for (cb, ci) in consume if cb == b.id and ci > i]
        if z is not None and len(b.succs) == 2:
            starts = [b.succs[0 if z == "true" else 1]]
        else:
            starts = [s for s in b.succs if s is not None]
        starts = [s for s in starts if s is not None]
        consume_blocks = {cb for (cb, ci) in consume}
        fetch_blocks = {fb for (fb, fi) in fetch}
        # may: any consuming event before the next fetch / exit
        region = set()
        for s in starts:
            region |= cfgq.reach(fn, [s], fetch_blocks - {s})
        may_after = bool(same_block_after) or bool(region & consume_blocks)
        # must: every way to the next fetch / the exit passes a consuming event
        free = set()
        for s in starts:
            if s in consume_blocks:
                continue
            free |= cfgq.reach(fn, [s], consume_blocks)
        reaches_end = (fn.exit in free) or bool(free & fetch_blocks) or any(fn.exit in fn.blocks[x].succs for x in free)
        must_after = bool(same_block_after) or (bool(starts) and not reaches_end)
        key = "%s:%s" % (fn.name, code)
        if act == "drop":
            if before or must_after:
                r2.ok(key + "@L%s" % n.get("l"), "token consumed %s" % ("before the report" if before else "on every accepting path"))
            else:
                r2.violation(fn.file, fn.name, n.get("l"), "not-consumed:" + key,
                             "%s is documented as drop/ignore, but after acceptance a path reaches the next token fetch or the "
                             "function exit without consuming the token" % code)
        else:
            if before:
                r2.violation(fn.file, fn.name, n.get("l"), "consumed-before:" + key,
                             "%s is documented as 'assume the missing element' but the token is consumed before the report" % code)
            elif may_after:
                r2.violation(fn.file, fn.name, n.get("l"), "consumed:" + key,
                             "%s is documented as leaving the token for the enclosing production, but it is consumed after acceptance" % code)
            else:
                r2.ok(key + "@L%s" % n.get("l"), "token left in place")
    chk.extra_cov["callback_sites"] = len(sites)
    chk.extra_cov["documented_rows"] = len(doc)
    chk.extra_cov["emitted_codes"] = sorted(emitted)

    r3 = chk.rule("R3-overlength-threshold", "CIF_OVERLENGTH_LINE is reported for more than CIF_LINE_LENGTH characters, terminator "
                  "excluded: where the column already includes the terminator just scanned, the comparison allows for it", floor=3)
    if overlength_rule(prog, r3) < 3:
        raise Broken("fewer than 3 over-length tests found")

    r4 = chk.rule("R4-column-follows-position", "outside the scanning macros, every one-character move of next_char is accompanied in "
                  "the same block by the same change of the column (or the column is reset before it is used)", floor=4)
    if column_rule(prog, r4) < 4:
        raise Broken("fewer than 4 explicit next_char moves found")


    r5 = chk.rule("R5-patched-terminator-restored", "a NUL written into the scan buffer after a block/frame code is restored before "
                  "every exit on which parsing goes on (recovery paths included)", primary=False, floor=2)
    from .. import memrules
    if memrules.patched_byte_restored(prog, r5) < 2:
        raise Broken("fewer than 2 save/patch/restore sites found in parser.c")


    r6 = chk.rule("R6-unterminated-token-keeps-its-tail", "when a scan function has reported an unterminated string / text field at end of "
                  "input and recovers by taking the whole tail as the token, no closing delimiter is subtracted from the token "
                  "length: every definition of the subtracted variable that reaches the length computation through that report "
                  "is 0", primary=False, floor=3)
    if unterminated_rule(prog, r6) < 3:
        raise Broken("fewer than 3 scan functions with an end-of-input recovery found")

    r8 = chk.rule("R8-nothing-handed-back-at-end-of-input", "BACK_UP returns the character just scanned (a line terminator, the start "
                  "of the next token) to the input: no BACK_UP is reachable from the outcome `end of input` of a refill without "
                  "another character having been scanned in between - at end of input there is nothing to hand back, and the "
                  "last character of the token would be scanned again as a token of its own", primary=False, floor=4)
    if backup_rule(prog, r8) < 4:
        raise Broken("fewer than 4 BACK_UP sites in functions that test for CIF_EOF")

    r9 = chk.rule("R9-token-length-copies-fresh", "a local holding the current token's length is not used after the token's recorded "
                  "length was changed (a recovery that truncates the token, a call that scans the next one) unless it is assigned "
                  "again: recovery loops that split a token look at its current extent", primary=False, floor=4)
    from .. import memrules
    if memrules.stale_state_copies(prog, r9, "parser.c", "tvalue_length",
                                   "the loop or test still works with the extent the token had before it was shortened",
                                   callbacks_clobber=False) < 4:
        raise Broken("fewer than 4 locals computed from tvalue_length in parser.c")

    r10 = chk.rule("R10-scanner-range-tests", "the scanner's range tests on code units cut exactly at the boundaries of the "
                   "non-character and surrogate classes", primary=False, floor=8)
    from .. import unirange
    if unirange.rule(prog, r10, units=("parser.c",)) < 8:
        raise Broken("fewer than 8 code-unit range comparisons found in parser.c")

    r11 = chk.rule("R11-rewind-resets-column", "where the scan position is set back to the start of the current token text so that the "
                   "text is scanned again, the column is set back with it before scanning resumes (the over-length test counts "
                   "columns): the reset after the version-comment pre-scan; the two error-recovery push-backs of parse_table are "
                   "exempt with their reason", primary=False, floor=1)
    if rewind_rule(prog, r11) < 1:
        raise Broken("no rewind of next_char to text_start found outside the refill functions")

    r16 = chk.rule("R16-last-line-is-measured-too", "where the scanner recognises the end of the input a CIF_OVERLENGTH_LINE report is "
                   "reachable: a last line without terminator is never followed by the terminator at which lines are measured",
                   primary=False, floor=1)
    from .. import lastline
    if lastline.rule(prog, r16) < 1:
        raise Broken("no store of the END token type found in next_token")

    r15 = chk.rule("R15-line-advance-by-class", "the line counter advances only where the character was found to be of the end-of-line "
                   "class (case label or comparison with EOL_CLASS), never under a test against particular characters alone",
                   primary=False, floor=3)
    if line_advance_by_class(prog, r15) < 3:
        raise Broken("fewer than 3 expansions of POSN_INCLINE found")

    r14 = chk.rule("R14-partial-packet-recovery-starts-at-the-missing-column", "between the report of CIF_PARTIAL_PACKET and the first "
                   "use of the column variable as an index, that variable is not advanced: the documented recovery fills every "
                   "column from the first one without a value", primary=False, floor=1)
    if partial_packet_recovery(prog, r14) < 1:
        raise Broken("no CIF_PARTIAL_PACKET report found")

    r13 = chk.rule("R13-compacted-array-not-read-by-count", "an array a production fills only with the elements that pass a test "
                   "(the loop's names without the refused duplicates) while a count advances for every element is not "
                   "subscripted, in the callee that receives both, by an index run against that count: the recovery that fills a "
                   "short packet with unknown values must decide per column, not per compacted name", primary=False, floor=1)
    from .. import fillextent
    if fillextent.rule(prog, r13) < 1:
        raise Broken("no call passing a conditionally filled array together with a count found in parser.c")

    r12 = chk.rule("R12-tolerated-codes-share-the-ok-arm", "a code the recovery rules say the parser tolerates after the errors "
                   "behind it were accepted (CIF_NULL_LOOP from creating a loop whose names were all refused as duplicates) has "
                   "its case label in the arm of CIF_OK of the switch on that call's result (shared with C03 R2b)",
                   primary=False, floor=1)
    from . import c03
    if c03.tolerated_codes(prog, r12) < 1:
        raise Broken("no call site with a tolerated code found")

    r7 = chk.rule("R7-disallowed-character-class", "the per-character validation macro reports each non-character code unit (U+FEFF, "
                  "U+FFFE/F, U+FDD0..FDEF) as CIF_DISALLOWED_CHAR and no ordinary character, in every scan function "
                  "(evaluated over the CFG for chosen code units)", primary=False, floor=5)
    from .. import chareval
    if chareval.rule(prog, r7) < 5:
        raise Broken("fewer than 5 expansions of SCAN_UCHAR")


# moves of next_char whose column accounting happens elsewhere, each with its reason
COLUMN_EXEMPT = {
    ("scan_ws", 1): "the for-increment advances over every character; the loop body counts blanks and resets the column at terminators",
    ("cif_parse_internal", 1): "prologue: the column is reset to 0 before parsing starts",
}
SCAN_MACROS = ("NEXT_CHAR", "BACK_UP", "SCAN_UCHAR")


def column_rule(prog, rule):
    """The over-length test (and the column numbers given to the error callback) rest on scanner->column mirroring
    next_char.  NEXT_CHAR, BACK_UP and SCAN_UCHAR move both; this rule covers the moves written out by hand."""
    n = 0
    for m in SCAN_MACROS:
        body = prog.macro(m, "parser.c")["body"]
        if "next_char" not in body or "POSN_INCCOLUMN" not in body:
            rule.violation("parser.c", m, prog.macro(m, "parser.c")["line"], "macro-without-column:%s" % m,
                           "%s moves next_char but does not call POSN_INCCOLUMN" % m)
        else:
            rule.ok("macro:%s" % m, "moves next_char and the column together")
    for fn in prog.all_functions():
        if fn.unit != "parser.c":
            continue
        # straight-line chains: `do { ... } while (0)` macro bodies end a CFG block without branching
        dom = loops.dominators(fn)

        def fpreds(blk):
            """predecessors other than back-edge sources (the dead loop-back block of `do {} while (0)`) and unreachable blocks"""
            return [q for q in blk.preds if q in dom and blk.id not in dom[q]]

        def chain_of(b0):
            ch = [b0]
            cur = b0
            while True:
                ss = [x for x in cur.succs if x is not None]
                if len(ss) != 1 or len(fpreds(fn.blocks[ss[0]])) != 1 or fn.blocks[ss[0]] in ch:
                    break
                cur = fn.blocks[ss[0]]
                ch.append(cur)
            cur = b0
            while True:
                if len(fpreds(cur)) != 1:
                    break
                pb = fn.blocks[fpreds(cur)[0]]
                if len([x for x in pb.succs if x is not None]) != 1 or pb in ch:
                    break
                cur = pb
                ch.insert(0, cur)
            return ch
        done = set()
        for b0 in fn.blocks.values():
            if b0.id in done:
                continue
            chain = chain_of(b0)
            done |= {x.id for x in chain}
            adv, col = [], 0
            for i, r in [(i, r) for bb in chain for (i, r) in enumerate(bb.roots)]:
                for x in walk_eval(r):
                    p, k = None, None
                    if x.get("k") == "asg" and x.get("op") in ("+=", "-=") and const(x.get("rhs")) is not None:
                        p = path(strip(x.get("lhs")))
                        k = const(x.get("rhs")) * (1 if x["op"] == "+=" else -1)
                    elif x.get("k") == "un" and x.get("op") in ("post++", "pre++", "post--", "pre--"):
                        p = path(strip(x.get("e")))
                        k = 1 if "++" in x["op"] else -1
                    if not p:
                        continue
                    if p.endswith("next_char") and not any(m in SCAN_MACROS for m in (x.get("ms") or [])):
                        adv.append((k, x))
                    elif p.endswith("->column"):
                        col += k
            for (k, x) in adv:
                n += 1
                key = "%s:L%s:%+d" % (fn.name, x.get("l"), k)
                if (fn.name, k) in COLUMN_EXEMPT:
                    rule.ok(key + ":exempt", COLUMN_EXEMPT[(fn.name, k)])
                elif col == sum(kk for kk, _ in adv):
                    rule.ok(key, "column changed by the same amount in the block")
                else:
                    rule.violation(fn.file, fn.name, x.get("l"), "position-without-column:%s:%+d" % (fn.name, k),
                                   "next_char is moved by %+d at L%s without the column being changed accordingly: from here to the end "
                                   "of the line the column is off by one, so the over-length test and reported columns are wrong"
                                   % (k, x.get("l")))
    return n


def overlength_rule(prog, rule):
    """Each over-length test compares scanner->column with the limit at the moment a line terminator has been read.  Whether
    the column then includes the terminator depends on the scan loop: loops that count every character when loading it
    (SCAN_UCHAR: `c = *next_char; column += 1`) have counted it, loops that count per class have not.  A must-dataflow (gen:
    `column += k`; kill: the load of the current character) decides which, and the comparison must be
    `column > LIMIT + 1` / `column - 1 > LIMIT` in the first case and `column > LIMIT` in the second."""
    limit = prog.macro_int("CIF_LINE_LENGTH")
    n = 0
    for fn in prog.all_functions():
        if fn.unit != "parser.c":
            continue
        tests = []
        for blk in fn.blocks.values():
            c = cfgq.cond_of(fn, blk)
            if c is None or len(blk.succs) != 2:
                continue
            cs = strip(c)
            if not isinstance(cs, dict) or cs.get("k") != "bin" or cs.get("op") not in (">", ">="):
                continue
            if not any((path(x) or "").endswith("->column") for x in walk(cs.get("lhs"))):
                continue
            rv = const(cs.get("rhs"))
            if rv is None or not (limit - 2 <= rv <= limit + 2):
                continue
            # effective threshold: smallest column value for which the test holds, corrected by a constant on the left
            adj = 0
            l = strip(cs.get("lhs"))
            if isinstance(l, dict) and l.get("k") == "bin" and l.get("op") in ("-", "+") and const(l.get("rhs")) is not None:
                adj = const(l.get("rhs")) if l["op"] == "-" else -const(l.get("rhs"))
            first_bad = rv + adj + (1 if cs["op"] == ">" else 0)      # smallest column reported
            tests.append((blk, cs, first_bad))
        if not tests:
            continue
        loads, incs = [], []
        for (b, i, r, a) in fn.eval_sites():
            if a.get("k") == "asg" and a.get("op") == "=":
                rr = strip(a.get("rhs"))
                if isinstance(rr, dict) and rr.get("k") == "un" and rr.get("op") == "*" and (path(strip(rr.get("e"))) or "").endswith("next_char") \
                        and (path(strip(a.get("lhs"))) or "").replace("_", "a").isalnum():
                    loads.append((b.id, i))
            elif a.get("k") == "decl":
                for v in a.get("vars", []):
                    rr = strip(v.get("init")) if v.get("init") is not None else None
                    if isinstance(rr, dict) and rr.get("k") == "un" and rr.get("op") == "*" and (path(strip(rr.get("e"))) or "").endswith("next_char"):
                        loads.append((b.id, i))
            if a.get("k") == "asg" and a.get("op") in ("+=", "-=") and (path(strip(a.get("lhs"))) or "").endswith("->column") \
                    and const(a.get("rhs")) is not None:
                delta = const(a.get("rhs")) * (1 if a["op"] == "+=" else -1)
                if delta == 1:
                    incs.append((b.id, i))
                elif delta == -1 and "SCAN_UCHAR" not in (a.get("ms") or []):
                    # un-counts the character just scanned (SCAN_UCHAR's own -1 merges a surrogate pair into one
                    # character and never concerns a terminator)
                    loads.append((b.id, i))
        if not loads:
            continue
        mf = cfgq.MustFact(fn, gen_sites=incs, kill_sites=loads, entry_value=False)
        for (blk, cs, first_bad) in tests:
            n += 1
            counted = mf.at(blk.id, 10 ** 6)
            key = "%s:L%s" % (fn.name, blk.term.get("l"))
            want = limit + 1 + (1 if counted else 0)       # first column value that means "more than `limit` characters"
            if counted is None:
                rule.unproved(key, "test not reachable from a character load")
            elif first_bad == want:
                rule.ok(key, "terminator %s; first column reported %d" % ("counted" if counted else "not counted", first_bad))
            else:
                rule.violation(fn.file, fn.name, blk.term.get("l"), "overlength-off-by-one:%s" % fn.name,
                               "the over-length test `%s` fires from column %d on, but in this loop the column %s the terminator just "
                               "scanned, so a line of exactly %d characters %s" % (
                                   __import__("cifsa.facts", fromlist=["show"]).show(cs), first_bad,
                                   "already includes" if counted else "does not include",
                                   (first_bad - (1 if counted else 0)) if first_bad < want else limit + 1,
                                   "is reported although the limit is %d" % limit if first_bad < want else "escapes the report"))
    return n


def unterminated_rule(prog, rule):
    """Reaching definitions of the `delim_size`-like variable subtracted in TVALUE_SETLENGTH(.. - v), restricted to paths that
    pass the end-of-input error report (CIF_UNCLOSED_TEXT / CIF_MISSING_ENDQUOTE) of the same function."""
    codes = {prog.macro_int("CIF_UNCLOSED_TEXT"), prog.macro_int("CIF_MISSING_ENDQUOTE")}
    n = 0
    for fn in prog.all_functions():
        if fn.unit != "parser.c" or not fn.name.startswith("scan_"):
            continue
        reports = [(b.id, i) for (b, i, r, c) in fn.eval_sites("call")
                   if not c.get("callee") and c.get("args") and const(c["args"][0]) in codes]
        uses = []
        for (b, i, r, a) in fn.eval_sites("asg"):
            if "TVALUE_SETLENGTH" in (a.get("ms") or []) and (path(strip(a.get("lhs"))) or "").endswith("tvalue_length"):
                rr = strip(a.get("rhs"))
                if isinstance(rr, dict) and rr.get("k") == "bin" and rr.get("op") == "-" and path(strip(rr.get("rhs"))):
                    uses.append((b.id, i, path(strip(rr.get("rhs"))), a))
        if not reports or not uses:
            continue
        for (ub, ui, var, ua) in uses:
            defs = []
            for (b, i, r, x) in fn.eval_sites():
                if x.get("k") == "asg" and x.get("op") == "=" and path(strip(x.get("lhs"))) == var:
                    defs.append((b.id, i, const(x.get("rhs")), x.get("l")))
                elif x.get("k") == "decl":
                    for v in x.get("vars", []):
                        if v["name"] == var and v.get("init") is not None:
                            defs.append((b.id, i, const(v["init"]), x.get("l")))
            if not defs:
                continue
            n += 1
            def_blocks = {d[0] for d in defs}
            bad = None
            for (rb, ri) in reports:
                # definitions reaching the report: the last one in the report's block before it, else those whose block reaches
                # the report's block without passing another defining block
                in_blk = [d for d in defs if d[0] == rb and d[1] < ri]
                if in_blk:
                    reaching = [max(in_blk, key=lambda d: d[1])]
                else:
                    reaching = [d for d in defs if rb in cfgq.reach(fn, [d[0]], def_blocks - {d[0]}) or d[0] == rb and False]
                    # keep only the last definition of each block
                    last = {}
                    for d in reaching:
                        if d[0] not in last or d[1] > last[d[0]][1]:
                            last[d[0]] = d
                    reaching = list(last.values())
                # from the report to the use: a later definition overrides
                after_blk = [d for d in defs if d[0] == rb and d[1] > ri]
                if after_blk:
                    eff = [min(after_blk, key=lambda d: d[1])] if ub != rb or ui > after_blk[0][1] else reaching
                else:
                    on_way = [d for d in defs if d[0] != rb and d[0] in cfgq.reach(fn, [rb]) and (ub in cfgq.reach(fn, [d[0]]) or d[0] == ub)]
                    if ub in cfgq.reach(fn, [rb], {d[0] for d in on_way}) or ub == rb:
                        eff = reaching + on_way       # some path avoids the later definitions
                    else:
                        eff = on_way
                for d in eff:
                    if d[2] != 0:
                        bad = d
            key = "%s:%s" % (fn.name, var)
            if bad:
                rule.violation(fn.file, fn.name, ua.get("l"), "tail-shortened-after-unterminated:%s" % fn.name,
                               "after the end-of-input report the token length is computed as `... - %s`, and the definition `%s = %s` "
                               "(L%s) reaches that computation on such a path: the recovered token loses characters that were never a "
                               "closing delimiter (the unsigned length wraps when fewer are left)" % (var, var, bad[2], bad[3]))
            else:
                rule.ok(key, "only 0 reaches the length computation after the end-of-input report")
    return n


def backup_rule(prog, rule):
    eof = prog.macro_int("CIF_EOF")
    n = 0
    for fn in prog.all_functions():
        if fn.unit != "parser.c":
            continue
        backs, consumes = [], set()
        for (b, i, r, a) in fn.eval_sites("asg"):
            lp = path(strip(a.get("lhs"))) or ""
            if not lp.endswith("next_char"):
                continue
            if a.get("op") == "-=" and "BACK_UP" in (a.get("ms") or []):
                backs.append((b, i, a))
            elif a.get("op") == "+=":
                consumes.add(b.id)
        for (b, i, r, x) in fn.eval_sites("un"):
            if x.get("op") in ("pre++", "post++") and (path(strip(x.get("e"))) or "").endswith("next_char"):
                consumes.add(b.id)
        if not backs:
            continue

        def is_eof(cnd):
            t = cfgq.cmp_test(cnd, lambda e: path(strip(e)) is not None)
            if t is None or t[1] != eof or macro_name(strip(cnd).get("rhs")) != "CIF_EOF" and macro_name(strip(cnd).get("lhs")) != "CIF_EOF":
                return None
            return "true" if t[0] == "==" else ("false" if t[0] == "!=" else None)
        edges = cfgq.guard_edges(fn, is_eof)
        # case CIF_EOF: labels
        starts = [fn.blocks[bid].succs[idx] for (bid, idx) in edges if fn.blocks[bid].succs[idx] is not None]
        for bb in fn.blocks.values():
            if bb.label and bb.label.get("k") == "case" and bb.label.get("v") == eof and "CIF_EOF" in str(bb.label):
                starts.append(bb.id)
        if not starts:
            continue
        after_eof = set()
        for s0 in starts:
            if s0 in consumes:
                continue
            # path-sensitive in the status variable: `ev == CIF_OK` after a look-ahead is decided the same way each time
            after_eof |= set(cfgq.fact_reach(fn, [s0], consumes))
        for (b, i, a) in backs:
            n += 1
            key = "%s:L%s" % (fn.name, a.get("l"))
            if b.id in after_eof and b.id not in consumes:
                rule.violation(fn.file, fn.name, a.get("l"), "back-up-at-end-of-input:%s" % fn.name,
                               "BACK_UP at L%s is reached from the `end of input` outcome of a refill (tests at lines %s) without any "
                               "character having been scanned after it: the scanner steps back over the last character of the token, "
                               "which is then delivered a second time as a separate token"
                               % (a.get("l"), ", ".join(sorted({str(fn.blocks[bid].term.get("l")) for (bid, idx) in edges}))))
            else:
                rule.ok(key, "only reached after a character was scanned")
    return n


# rewinds whose missing column adjustment only affects the columns reported for later errors on the same line
REWIND_EXEMPT = {
    "parse_table": "TRIM_TOKEN in the recovery from CIF_NULL_KEY / CIF_UNQUOTED_KEY: an error has been reported already; the property "
                   "speaks of line numbers, which are unaffected",
}


def rewind_rule(prog, rule):
    n = 0
    for fn in prog.all_functions():
        if fn.unit != "parser.c" or fn.name in ("get_more_chars", "get_first_char"):
            continue
        col_stores = set()
        for (b, i, r, a) in fn.eval_sites("asg"):
            if (path(strip(a.get("lhs"))) or "").endswith("->column"):
                col_stores.add(b.id)
        scans = {b.id for (b, i, r, c) in fn.calls() if c.get("callee") and re.match(r"^(next_token|scan_|parse_|get_more_chars)", c["callee"])}
        for (b, i, r, a) in fn.eval_sites("asg"):
            lp = path(strip(a.get("lhs"))) or ""
            if not lp.endswith("->next_char") or a.get("op") != "=":
                continue
            if not any((path(x) or "").endswith("->text_start") for x in walk(a.get("rhs")) if x.get("k") == "member"):
                continue
            n += 1
            key = "%s:L%s" % (fn.name, a.get("l"))
            if fn.name in REWIND_EXEMPT:
                rule.ok(key, "exempt: " + REWIND_EXEMPT[fn.name])
                continue
            # a column store in the same block after the rewind, or on every path before scanning resumes / the function ends
            same = any((path(strip(y.get("lhs"))) or "").endswith("->column") for r2 in b.roots for y in walk_eval(r2) if y.get("k") == "asg")
            if same:
                rule.ok(key, "the column is stored in the same straight-line sequence as the rewind")
                continue
            free = cfgq.reach(fn, [b.id], col_stores - {b.id})
            if (free & scans) - {b.id} or fn.exit in free:
                rule.violation(fn.file, fn.name, a.get("l"), "rewind-without-column:%s" % fn.name,
                               "next_char is set back to the start of the token text at L%s and scanning can resume (or the function "
                               "return) without the column having been set back: the characters scanned again are counted twice, "
                               "and a legal first line of up to 2048 characters is reported as over-length" % a.get("l"))
            else:
                rule.ok(key, "a column store follows on every path before scanning resumes")
    return n



def partial_packet_recovery(prog, rule):
    """R14: the recovery from CIF_PARTIAL_PACKET ("synthesize unknown values to fill the packet") has to reset every column from
    the first one that got no value.  The column variable is the one whose non-zero test guards the report; between the
    report and the first statement that subscripts an array with it, it must not be advanced - the column it holds at
    the report *is* the first missing one (it is where the next value would have gone)."""
    n = 0
    for fn in prog.all_functions():
        if fn.unit != "parser.c":
            continue
        for (b, i, r, c) in fn.calls():
            if indirect_target(c) != "error_callback" or not c.get("args") or macro_name(c["args"][0]) != "CIF_PARTIAL_PACKET":
                continue
            n += 1
            key = "%s:CIF_PARTIAL_PACKET@L%s" % (fn.name, c.get("l"))
            # the variable tested against zero on the way to the report
            cands = []

            def nz(var):
                def m(cnd):
                    z = cfgq.zero_test(cnd, lambda e: path(strip(e)) == var)
                    if z is None:
                        return None
                    return "false" if z == "true" else "true"
                return m
            for v in fn.locals:
                if "int" not in v.get("t", "") and "size_t" not in v.get("t", ""):
                    continue
                ge = cfgq.guard_edges(fn, nz(v["name"]))
                if ge and cfgq.must_pass_edge(fn, b.id, ge):
                    cands.append(v["name"])
            if len(cands) != 1:
                rule.info(key, "column variable not identified (%s): no verdict" % cands)
                continue
            col = cands[0]
            def classify(root):
                """'store' if the root writes col (assignment, increment), 'read' if it only reads it, None otherwise"""
                reads = False
                for x in walk_eval(root):
                    if x.get("k") == "asg" and path(strip(x.get("lhs"))) == col:
                        return "store", x
                    if x.get("k") == "un" and x.get("op") in ("pre++", "post++", "pre--", "post--") and path(strip(x.get("e"))) == col:
                        return "store", x
                    if x.get("k") == "ref" and path(x) == col:
                        reads = True
                return ("read", None) if reads else (None, None)
            bad = None
            seen = set()
            work = [(b.id, i + 1)]
            n_reads = 0
            while work and bad is None:
                bid, start = work.pop()
                blk = fn.blocks[bid]
                stop = False
                for ri in range(start, len(blk.roots)):
                    kind, node = classify(blk.roots[ri])
                    if kind == "store":
                        bad = node
                        stop = True
                        break
                    if kind == "read":
                        n_reads += 1
                        stop = True
                        break
                if stop:
                    continue
                for s2 in blk.succs:
                    if s2 is not None and s2 not in seen and s2 != fn.exit:
                        seen.add(s2)
                        work.append((s2, 0))
            if bad is None and n_reads == 0:
                rule.info(key, "`%s` is not used after the report" % col)
                continue
            if bad is not None:
                rule.violation(fn.file, fn.name, bad.get("l"), "partial-packet-recovery-skips-a-column:%s" % fn.name,
                               "`%s` is modified (`%s`) between the report of CIF_PARTIAL_PACKET and the first statement that reads "
                               "it: at the report it holds the first column without a value, so the recovery no longer "
                               "starts there and that column keeps the previous packet's value" % (col, show_(bad)))
            else:
                rule.ok(key, "`%s` reaches the filling loop unchanged" % col)
    return n


def show_(n):
    from ..facts import show
    return show(n)[:60]


def line_advance_by_class(prog, rule):
    """R15: the line counter advances (POSN_INCLINE: line += n, column = 0) only where the character was found to belong to the
    end-of-line *class* - a `case EOL_CLASS` of a switch on the class, or a comparison of the class with EOL_CLASS.  A test
    against particular characters (`c == UCHAR_NL`) misses the characters the extra_eol_chars option puts into that class,
    which every other scan function honours."""
    from .. import loops
    n = 0
    for fn in prog.all_functions():
        if fn.unit != "parser.c":
            continue
        heads = {b.id for b in fn.blocks.values() if b.term and b.term.get("k") == "SwitchStmt"}
        sites = []
        for (b, i, r, x) in fn.eval_sites("asg"):
            if "POSN_INCLINE" in (x.get("ms") or []) and (path(strip(x.get("lhs"))) or "").endswith("line") and x.get("op") == "+=":
                sites.append((b, x))
        for (b, x) in sites:
            n += 1
            key = "%s:L%s" % (fn.name, x.get("l"))
            ok = False
            for lab in fn.blocks.values():
                if lab.label and lab.label.get("k") == "case" and "EOL_CLASS" in (lab.label.get("ms") or []):
                    if lab.id == b.id or b.id in cfgq.reach(fn, [lab.id], barrier_blocks=heads):
                        ok = True
            frontier = {b.id}
            char_test = None
            for depth in range(5):
                if ok:
                    break
                nxt = set()
                for tb in fn.blocks.values():
                    if len(tb.succs) != 2 or tb.id in frontier:
                        continue
                    t, f = loops.control_dependents(fn, tb.id)
                    side = "true" if (frontier & t) and not (frontier & f) else ("false" if (frontier & f) and not (frontier & t) else None)
                    if side is None:
                        continue
                    cnd = cfgq.cond_of(fn, tb)
                    c = strip(cnd) if cnd is not None else None
                    if isinstance(c, dict) and c.get("k") == "bin" and c.get("op") in ("==", "!="):
                        consts = [y for y in (strip(c.get("lhs")), strip(c.get("rhs"))) if isinstance(y, dict) and const(y) is not None]
                        if any("EOL_CLASS" in (y.get("ms") or []) for y in consts) and ((c["op"] == "==") == (side == "true")):
                            ok = True
                            break
                        if any(set(y.get("ms") or []) & {"UCHAR_NL", "UCHAR_CR"} for y in consts) and char_test is None \
                                and "POSN_INCLINE" not in (c.get("ms") or []) and "HANDLE_EOL" not in (c.get("ms") or []):
                            char_test = c
                    nxt.add(tb.id)
                frontier = nxt
                if not frontier:
                    break
            if ok:
                rule.ok(key, "under a test of the character's class against EOL_CLASS")
            elif char_test is not None:
                rule.violation(fn.file, fn.name, x.get("l"), "line-advance-by-character:%s" % fn.name,
                               "the line counter advances under `%s` (L%s), a test against one character, and under no test of the "
                               "character's class: the end-of-line characters of the extra_eol_chars option do not end a line here, "
                               "so line numbers, columns and the over-length check go wrong" % (show_(char_test), char_test.get("l")))
            else:
                rule.info(key, "no controlling test recognised: no verdict")
    return n
