"""C12 — each class of input defect is reported with its code and recovered as documented:
code tables agree (emitted / documented / required), token consumption after acceptance matches the documented action."""
import os
import re

from ..facts import Broken, strip, const, walk, walk_eval, macro_name
from ..interp import path
from .. import cfgq
from ..parserai import indirect_target
from . import c20

# Defect classes of the property statement -> codes (DESIGN.md A.4)
REQUIRED_CODES = [
    "CIF_MISSING_VALUE", "CIF_DUP_ITEMNAME", "CIF_DUP_BLOCKCODE", "CIF_INVALID_BLOCKCODE", "CIF_DUP_FRAMECODE",
    "CIF_INVALID_FRAMECODE", "CIF_NO_BLOCK_HEADER", "CIF_PARTIAL_PACKET", "CIF_NULL_LOOP", "CIF_EMPTY_LOOP",
    "CIF_MISSING_ENDQUOTE", "CIF_UNCLOSED_TEXT", "CIF_MISSING_SPACE", "CIF_UNEXPECTED_DELIM", "CIF_MISSING_DELIM",
    "CIF_MISSING_KEY", "CIF_NULL_KEY", "CIF_UNQUOTED_KEY", "CIF_MISQUOTED_KEY", "CIF_RESERVED_WORD", "CIF_NO_FRAME_TERM",
    "CIF_EOF_IN_FRAME", "CIF_UNEXPECTED_TERM", "CIF_FRAME_NOT_ALLOWED", "CIF_OVERLENGTH_LINE", "CIF_DISALLOWED_CHAR",
]
DECODER_CODES = {"CIF_INVALID_CHAR", "CIF_UNMAPPED_CHAR"}
# Documented action per code: does accepting the error consume the offending token ("drop") or leave it ("keep")?
ACTION = {
    "CIF_UNEXPECTED_DELIM": "drop", "CIF_RESERVED_WORD": "drop", "CIF_UNEXPECTED_TERM": "drop", "CIF_MISSING_KEY": "drop",
    "CIF_NO_FRAME_TERM": "keep", "CIF_EOF_IN_FRAME": "keep", "CIF_MISSING_VALUE": "keep", "CIF_MISSING_DELIM": "keep",
    "CIF_PARTIAL_PACKET": "keep", "CIF_EMPTY_LOOP": "keep",
}
CONSUMING_CALLS = {"parse_value", "parse_item", "parse_list", "parse_table"}


def documented_codes(info):
    src = open(os.path.join(info["srcdir"], "parser.c"), encoding="latin-1").read()
    m = re.search(r"@page\s+\w*recovery.*?\*/", src, re.S) or re.search(r"<table>.*?</table>", src, re.S)
    region = m.group(0) if m else src[:40000]
    rows = re.findall(r"<tr><td>([^<]*)</td><td>@c\s+(CIF_\w+)</td><td>([^<]*)</td></tr>", region)
    return {code: (what.strip(), action.strip()) for (what, code, action) in rows}


def callback_sites(prog):
    out = []
    for fn in prog.all_functions():
        if fn.unit not in ("parser.c", "ciffile.c"):
            continue
        for (b, i, r, n) in fn.calls():
            if indirect_target(n) != "error_callback":
                continue
            a0 = strip(n["args"][0])
            names = set()
            m = macro_name(a0)
            if m and m.startswith("CIF_"):
                names.add(m)
            elif a0.get("k") == "cond":
                for x in walk(a0):
                    mm = macro_name(x) if x.get("k") == "int" else None
                    if mm and mm.startswith("CIF_"):
                        names.add(mm)
            else:
                # variable code: the case labels of the switch on that variable which reach this site
                vp = path(a0)
                barrier = {bb.id for (bb, ii, rr, a) in fn.eval_sites("asg") if path(strip(a.get("lhs"))) == vp}
                barrier |= {sb.id for sb in fn.blocks.values() if sb.term and sb.term.get("k") == "SwitchStmt"
                            and cfgq.cond_of(fn, sb) is not None and path(strip(cfgq.cond_of(fn, sb))) == vp}
                for sb in fn.blocks.values():
                    if sb.term and sb.term.get("k") == "SwitchStmt":
                        c = cfgq.cond_of(fn, sb)
                        if c is not None and path(strip(c)) == vp:
                            for s in sb.succs:
                                if s is None:
                                    continue
                                lab = fn.blocks[s].label
                                if lab and lab.get("k") == "case" and (lab.get("ms") or [None])[0] and \
                                        (b.id == s or b.id in cfgq.reach(fn, [s], barrier - {b.id})):
                                    # only labels from which the site is reached before the variable is tested again
                                    names.add(lab["ms"][0])
            out.append((fn, b, i, n, names))
    return out


def run(prog, chk):
    chk.level = "other"
    chk.explanation = ("Agreement of three finite tables — codes that can reach the error callback (constant arguments and the "
                       "case labels guarding variable ones), the parser's documented recovery table, and the defect classes of "
                       "the property — plus, per documented row, a CFG check that accepting the error consumes the offending "
                       "token ('drop/ignore' rows) or leaves it for the caller ('assume the missing X' rows).  Reported line "
                       "numbers and the exact recovered content are not decided.")
    sites = callback_sites(prog)
    if len(sites) < 25:
        raise Broken("only %d error-callback sites found" % len(sites))
    doc = documented_codes(prog.info)
    if len(doc) < 20:
        raise Broken("error recovery table not found in parser.c (rows: %d)" % len(doc))
    codes, _ = c20.result_codes(prog, prog.info)
    emitted = {}
    for (fn, b, i, n, names) in sites:
        for nm in names:
            emitted.setdefault(nm, []).append((fn, n))

    r1 = chk.rule("R1-code-tables", "every code that can reach the callback is documented (or is a decoder code) and defined; "
                  "every defect class of the property has an emission site", floor=30)
    for nm, ss in sorted(emitted.items()):
        fn, n = ss[0]
        if nm not in codes:
            r1.violation(fn.file, fn.name, n.get("l"), "undefined-code:" + nm, "%s is reported but is not a result code of cif.h" % nm)
        elif nm in doc or nm in DECODER_CODES:
            r1.ok("emitted:" + nm, "%d site(s); %s" % (len(ss), "documented: " + doc[nm][1] if nm in doc else "decoder code"))
        else:
            r1.violation(fn.file, fn.name, n.get("l"), "undocumented-code:" + nm,
                         "%s can be reported (e.g. %s L%s) but the recovery table does not document it" % (nm, fn.name, n.get("l")))
    for nm in REQUIRED_CODES:
        if nm in emitted:
            r1.ok("required:" + nm, "reported by %s" % ", ".join(sorted({f.name for f, _ in emitted[nm]})))
        else:
            r1.violation("parser.c", "error_recovery", 0, "never-reported:" + nm, "no callback site reports %s" % nm)
    for nm in sorted(set(doc) - set(emitted)):
        r1.info("documented-not-emitted:" + nm, doc[nm][0])
    unnamed = [(fn, n) for (fn, b, i, n, names) in sites if not names]
    for fn, n in unnamed:
        r1.violation(fn.file, fn.name, n.get("l"), "unresolved-code-argument:%s" % fn.name, "the code argument of a callback site could not be resolved")

    r2 = chk.rule("R2-token-consumption", "after an accepted error the token is consumed for 'drop/ignore' rows and left in place for "
                  "'assume the missing ...' rows, as documented", floor=10)
    for (fn, b, i, n, names) in sites:
        acts = {ACTION[x] for x in names if x in ACTION}
        if not acts:
            continue
        if len(acts) > 1:
            r2.unproved("%s@L%s" % (fn.name, n.get("l")), "site shared by rows with different actions")
            continue
        act = acts.pop()
        code = sorted(x for x in names if x in ACTION)[0]
        consume = [(bb.id, ii) for (bb, ii, rr, a) in fn.eval_sites("asg") if "CONSUME_TOKEN" in (a.get("ms") or [])
                   and (path(strip(a.get("lhs"))) or "").endswith("text_start")]
        consume += [(bb.id, ii) for (bb, ii, rr, c) in fn.calls() if c.get("callee") in CONSUMING_CALLS]
        fetch = [(bb.id, ii) for (bb, ii, rr, c) in fn.calls() if c.get("callee") == "next_token"]
        before = cfgq.MustFact(fn, gen_sites=consume, kill_sites=fetch).at(b.id, i)
        # region after acceptance
        rvar = None
        for (b2, i2, r2_, a) in fn.eval_sites("asg"):
            if a.get("op") == "=" and any(x.get("id") == n["id"] for x in walk(a.get("rhs"))):
                rvar = path(strip(a.get("lhs")))

        def pred(e):
            e = strip(e)
            if path(e) == rvar and rvar:
                return True
            return isinstance(e, dict) and e.get("k") == "asg" and path(strip(e.get("lhs"))) == rvar
        c = cfgq.cond_of(fn, b)
        z = cfgq.zero_test(c, pred) if c is not None else None
        same_block_after = [(cb, ci) for (cb, ci) in consume if cb == b.id and ci > i]
        if z is not None and len(b.succs) == 2:
            starts = [b.succs[0 if z == "true" else 1]]
        else:
            starts = [s for s in b.succs if s is not None]
        starts = [s for s in starts if s is not None]
        consume_blocks = {cb for (cb, ci) in consume}
        fetch_blocks = {fb for (fb, fi) in fetch}
        # may: any consuming event before the next fetch / exit
        region = set()
        for s in starts:
            region |= cfgq.reach(fn, [s], fetch_blocks - {s})
        may_after = bool(same_block_after) or bool(region & consume_blocks)
        # must: every way to the next fetch / the exit passes a consuming event
        free = set()
        for s in starts:
            if s in consume_blocks:
                continue
            free |= cfgq.reach(fn, [s], consume_blocks)
        reaches_end = (fn.exit in free) or bool(free & fetch_blocks) or any(fn.exit in fn.blocks[x].succs for x in free)
        must_after = bool(same_block_after) or (bool(starts) and not reaches_end)
        key = "%s:%s" % (fn.name, code)
        if act == "drop":
            if before or must_after:
                r2.ok(key + "@L%s" % n.get("l"), "token consumed %s" % ("before the report" if before else "on every accepting path"))
            else:
                r2.violation(fn.file, fn.name, n.get("l"), "not-consumed:" + key,
                             "%s is documented as drop/ignore, but after acceptance a path reaches the next token fetch or the "
                             "function exit without consuming the token" % code)
        else:
            if before:
                r2.violation(fn.file, fn.name, n.get("l"), "consumed-before:" + key,
                             "%s is documented as 'assume the missing element' but the token is consumed before the report" % code)
            elif may_after:
                r2.violation(fn.file, fn.name, n.get("l"), "consumed:" + key,
                             "%s is documented as leaving the token for the enclosing production, but it is consumed after acceptance" % code)
            else:
                r2.ok(key + "@L%s" % n.get("l"), "token left in place")
    chk.extra_cov["callback_sites"] = len(sites)
    chk.extra_cov["documented_rows"] = len(doc)
    chk.extra_cov["emitted_codes"] = sorted(emitted)
