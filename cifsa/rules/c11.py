"""C11 — CIF version and encoding selection: magic-code agreement and the two version-dependent diagnostics' guards."""
from ..facts import Broken, strip, const, walk, walk_eval, macro_name, show
from ..interp import path
from .. import cfgq
from . import c02


def run(prog, chk):
    chk.level = "other"
    chk.explanation = ("Narrow structural claim: the magic code that selects the dialect is spelled identically everywhere it is "
                       "emitted or compared (incl. the 7-character prefix used for 'a magic code of another version'), and the "
                       "two version-dependent diagnostics (CIF_WRONG_ENCODING, CIF_DISALLOWED_CHAR for a BOM) are emitted exactly "
                       "under `version 2 and not UTF-8` / `version 1 and a BOM was scanned`.  The option x leading-bytes "
                       "decision table itself needs evaluation on data and is not decided.")
    r1 = chk.rule("R1-magic-code", "magic code spelled identically in writer, cif_parse and parser; comparison lengths agree", floor=8)
    c02.magic_rules(prog, r1)

    r2 = chk.rule("R2-version-diagnostics", "CIF_WRONG_ENCODING is reported only under cif_version == 2 && not_utf8 != 0; the BOM "
                  "CIF_DISALLOWED_CHAR only under cif_version == 1 && scanned_bom; SET_V1 runs exactly when the version is 1",
                  primary=False, floor=3)
    fn = prog.fn("cif_parse_internal")

    def ver_edge(v):
        def m(c):
            t = cfgq.cmp_test(c, lambda e: (path(strip(e)) or "").endswith("cif_version"))
            if t == ("==", v):
                return "true"
            if t == ("!=", v):
                return "false"
            return None
        return cfgq.guard_edges(fn, m)

    def nz_edge(var):
        def m(c):
            z = cfgq.zero_test(c, lambda e: path(strip(e)) == var or (strip(e).get("k") == "asg" and path(strip(strip(e).get("lhs"))) == var))
            if z is None:
                return None
            return "false" if z == "true" else "true"
        return cfgq.guard_edges(fn, m)
    sites = {}
    for (b, i, r, n) in fn.calls():
        if n.get("callee") is None and n.get("fn") is not None and (path(strip(n["fn"])) or "").endswith("error_callback"):
            code = macro_name(n["args"][0])
            sites.setdefault(code, []).append((b.id, i, n))
    for code, ver, var in (("CIF_WRONG_ENCODING", 2, "not_utf8"), ("CIF_DISALLOWED_CHAR", 1, "scanned_bom")):
        ss = sites.get(code, [])
        if not ss:
            r2.violation(fn.file, fn.name, fn.line, "missing:" + code, "cif_parse_internal never reports %s" % code)
            continue
        for (bid, idx, n) in ss:
            ve, ne = ver_edge(ver), nz_edge(var)
            g1 = bool(ve) and cfgq.must_pass_edge(fn, bid, ve)
            g2 = bool(ne) and cfgq.must_pass_edge(fn, bid, ne)
            if g1 and g2:
                r2.ok("%s@L-site" % code, "dominated by cif_version == %d and %s != 0" % (ver, var))
            else:
                r2.violation(fn.file, fn.name, n.get("l"), "guard:" + code,
                             "%s is reported without %s" % (code, " and ".join(x for x, g in (("cif_version == %d" % ver, g1), ("%s != 0" % var, g2)) if not g)))
    # SET_V1 stores only under version == 1
    v1 = [(b.id, i, n) for (b, i, r, n) in fn.eval_sites("asg") if "SET_V1" in (n.get("ms") or [])]
    if not v1:
        raise Broken("SET_V1 expansion not found in cif_parse_internal")
    ve = ver_edge(1)
    if ve and all(cfgq.must_pass_edge(fn, bid, ve) for (bid, _, _) in v1):
        r2.ok("SET_V1-under-version-1", "%d stores" % len(v1))
    else:
        r2.violation(fn.file, fn.name, v1[0][2].get("l"), "SET_V1-guard", "SET_V1 is applied without testing cif_version == 1")

    r3 = chk.rule("R3-other-version-comment-selects-cif1", "cif_parse_internal turns a leading version comment that is not the 2.0 one "
                  "into CIF 1.1: an assignment cif_version = 1 is guarded by a successful comparison of the token with the "
                  "version-independent magic prefix (the provisional version may be 2 when prefer_cif2 is positive)", floor=1)
    from .c02 import PREFIX_LEN, array_ints
    prefix = [ord(ch) for ch in "#\\#CIF_"]
    sites = []
    for (b, i, r, n) in fn.calls():
        if n.get("callee") not in ("u_strncmp", "memcmp", "u_memcmp", "strncmp") or len(n.get("args", [])) < 3:
            continue
        if const(n["args"][2]) != PREFIX_LEN:
            continue
        arr = None
        for a in n["args"][:2]:
            g = prog.globals.get(path(strip(a)) or "")
            ints = array_ints(g) if g else None
            if ints and list(ints[:PREFIX_LEN]) == prefix:
                arr = path(strip(a))
        if arr:
            sites.append((b, i, r, n, arr))
    ok_site = None
    for (b, i, r, n, arr) in sites:
        def eq0(cnd, cid=n.get("id")):
            z = cfgq.zero_test(cnd, lambda e: strip(e).get("id") == cid)
            return None if z is None else ("true" if z == "true" else "false")
        ge = cfgq.guard_edges(fn, eq0)
        for (b2, i2, r2, a) in fn.eval_sites("asg"):
            if (path(strip(a.get("lhs"))) or "").endswith("cif_version") and const(a.get("rhs")) == 1 and a.get("op") == "=":
                if ge and cfgq.must_pass_edge(fn, b2.id, ge):
                    ok_site = (n, a, arr)
    if ok_site:
        r3.ok("cif_version=1-under-prefix-match", "`%s` compared over %d characters at L%s guards cif_version = 1 at L%s"
              % (ok_site[2], PREFIX_LEN, ok_site[0].get("l"), ok_site[1].get("l")))
    else:
        r3.violation(fn.file, fn.name, fn.line, "other-version-comment-not-recognised",
                     "no assignment `cif_version = 1` in cif_parse_internal is guarded by a match of the token with the %d-character "
                     "prefix common to all CIF version comments: when the provisional version is 2 (prefer_cif2 positive, encoding "
                     "forced) a `#\\#CIF_1.1` comment no longer selects CIF 1.1" % PREFIX_LEN)

    r4 = chk.rule("R4-stray-bom-reported", "every expansion of the per-character validation macro reports U+FEFF (and the other "
                  "non-characters) as CIF_DISALLOWED_CHAR in CIF 2.0 as well as CIF 1.1 mode, and accepts ordinary characters: the "
                  "macro is evaluated over the CFG for chosen code units (a byte-order mark is accepted only as the very first "
                  "character, which cif_parse_internal consumes before scanning starts)", primary=False, floor=5)
    from .. import chareval
    if chareval.rule(prog, r4) < 5:
        raise Broken("fewer than 5 expansions of SCAN_UCHAR")

    r5 = chk.rule("R5-signature-encoding-kept", "in cif_parse the encoding name returned by ucnv_detectUnicodeSignature is overwritten "
                  "only on paths where it was found to be NULL (no signature): a detected Unicode signature decides the encoding, "
                  "whatever the version preference", primary=False, floor=2)
    cp = prog.fn("cif_parse")
    det = None
    for (b, i, r, a) in cp.eval_sites("asg"):
        rr = strip(a.get("rhs"))
        if isinstance(rr, dict) and rr.get("k") == "call" and rr.get("callee") == "ucnv_detectUnicodeSignature" and path(strip(a.get("lhs"))):
            det = (b, i, path(strip(a.get("lhs"))))
    if det is None:
        raise Broken("cif_parse: no assignment from ucnv_detectUnicodeSignature found")
    db, di, var = det

    def is_null(c):
        z = cfgq.zero_test(c, lambda e: path(strip(e)) == var)
        return None if z is None else z
    null_edges = cfgq.guard_edges(cp, is_null)
    free = cfgq.reach(cp, [db.id], (), null_edges)
    n5 = 0
    for (b, i, r, a) in cp.eval_sites("asg"):
        if path(strip(a.get("lhs"))) != var or (b.id == db.id and i == di):
            continue
        if b.id not in cfgq.reach(cp, [db.id]):
            continue                # the forced-encoding branch: no detection took place
        n5 += 1
        key = "cif_parse:L%s:%s=" % (a.get("l"), var)
        if b.id in free:
            r5.violation(cp.file, cp.name, a.get("l"), "signature-overwritten:L%s" % a.get("l"),
                         "`%s` is assigned at L%s on a path from the signature detection (L%s) that has not found it NULL: the "
                         "encoding of a detected UTF-16 / UTF-32 signature is replaced, and the document is decoded as garbage"
                         % (var, a.get("l"), db.roots[di].get("l")))
        else:
            r5.ok(key, "only after `%s` was found NULL" % var)
    if n5 < 2:
        raise Broken("cif_parse: fewer than 2 assignments to the encoding name after the signature detection")

    r6 = chk.rule("R6-named-default-encoding-used", "where cif_parse falls back to a default encoding (no signature, not CIF 2.0) the name "
                  "handed to ucnv_open is options->default_encoding_name (NULL there means the system default), never a literal "
                  "NULL: a named default is honoured without force_default_encoding", primary=False, floor=1)
    n6 = 0
    for (b, i, r, a) in cp.eval_sites("asg"):
        if path(strip(a.get("lhs"))) != var or a.get("op") != "=":
            continue
        rr = strip(a.get("rhs"))
        if isinstance(rr, dict) and rr.get("k") == "call":
            continue
        n6 += 1
        key = "cif_parse:L%s" % a.get("l")
        if const(a.get("rhs")) == 0:
            r6.violation(cp.file, cp.name, a.get("l"), "default-encoding-name-ignored:L%s" % a.get("l"),
                         "`%s = NULL` at L%s selects the converter library's own default although the caller may have named a default "
                         "encoding (options->default_encoding_name): without force_default_encoding the named encoding is ignored "
                         "and a CIF 1.1 file in that encoding is decoded wrongly" % (var, a.get("l")))
        elif any(x.get("k") == "member" and x.get("name") == "default_encoding_name" for x in walk(a.get("rhs"))):
            r6.ok(key, "the named default (or NULL = system default)")
        else:
            r6.ok(key, "a fixed encoding: %s" % (path(rr) or "constant"))
    if n6 < 3:
        raise Broken("cif_parse: fewer than 3 non-call assignments to the encoding name")

    r7 = chk.rule("R7-preference-handed-over", "wherever cif_parse leaves the version undecided (0) for cif_parse_internal, "
                  "prefer_cif2 is not positive: with a positive preference below 20 the provisional version -2 (`2.0 unless a "
                  "version comment says otherwise`) is handed over on every path - also when a Unicode signature was found",
                  primary=False, floor=1)
    from ..interp import Interp as _Interp
    hand = []

    class _V(_Interp):
        def clobbered_by_call(self, st, node):
            # the options structure is the caller's and is not handed to any callee
            return [q for q in super().clobbered_by_call(st, node) if not q.startswith("options->")]

        def assign(self, st, node, lhs, p_, av, rhs):
            if p_ and p_.endswith("scanner.cif_version"):
                # what is known about the preference: the option itself or any local that is a plain copy of it
                prefs = [st.sigma.get(a_) for a_ in pref_vars]
                hand.append((node, st.sigma.get("cif_version"), prefs, st))
            return st
    pref_vars = ["options->prefer_cif2"]
    for (b, i, r, x) in cp.eval_sites():
        pairs = []
        if x.get("k") == "asg" and x.get("op") == "=":
            pairs.append((path(strip(x.get("lhs"))), x.get("rhs")))
        elif x.get("k") == "decl":
            pairs.extend((v["name"], v.get("init")) for v in x.get("vars", []) if v.get("init") is not None)
        for nm, rhs in pairs:
            if nm and (path(strip(rhs)) or "").endswith("->prefer_cif2") and nm not in pref_vars:
                pref_vars.append(nm)
    it = _V(prog, cp)
    it.track_also(["cif_version"] + pref_vars)
    it.run()
    if not hand:
        raise Broken("cif_parse: the store to scanner.cif_version was not observed")
    bad = None
    for (node, v, prefs, st) in hand:
        undecided = v is None or v.contains(0)
        positive = all(pr is None or any(pr.contains(k) for k in (1, 5, 19)) for pr in prefs)
        pref = prefs[0]
        if undecided and positive:
            bad = (node, v, pref, st)
            break
    if it.overflow:
        r7.unproved("cif_parse:version-hand-over", "state cap reached")
    elif bad:
        node, v, pref, st = bad
        r7.violation(cp.file, cp.name, node.get("l"), "undecided-version-with-positive-preference",
                     "scanner.cif_version is set from cif_version at L%s in a state where it can be 0 (undecided) while prefer_cif2 "
                     "can be between 1 and 19: cif_parse_internal then falls back to CIF 1.1 for an input without version comment, "
                     "although the caller asked for CIF 2.0 in that case (the path through the Unicode-signature arm)"
                     % node.get("l"), path=["L%s" % x for x in st.trail_lines()][-25:])
    else:
        r7.ok("cif_parse:version-hand-over", "%d states at the hand-over: undecided only with prefer_cif2 <= 0" % len(hand))

    r9 = chk.rule("R9-end-of-file-mark-needs-a-read", "the byte source is marked as being at end of file only on paths that have read "
                  "from it (or where it was already so marked): with force_default_encoding nothing is pre-read", primary=False, floor=3)
    if eof_evidence_rule(prog, r9) < 3:
        raise Broken("fewer than 3 stores to eof_status found")

    r8 = chk.rule("R8-encoding-evidence-is-the-converter", "the `not UTF-8` flag cif_parse hands to cif_parse_internal (which decides the "
                  "CIF_WRONG_ENCODING report) is computed from the name of the converter actually opened and from nothing else: "
                  "not from the version or the preference, which say what was hoped for, not what was opened", primary=False, floor=1)
    from ..writerrules import _defs_of
    pi = prog.fn("cif_parse_internal")
    nu_ix = next((i for i, p_ in enumerate(pi.params) if "utf8" in p_["name"].lower()), None)
    calls = cp.calls_to("cif_parse_internal")
    if nu_ix is None or not calls:
        raise Broken("cif_parse: the call of cif_parse_internal or its not_utf8 parameter was not found")
    for (b, i, r, c) in calls:
        arg = c["args"][nu_ix]
        seen_, closure = set(), [arg]

        def expand(e, depth=0):
            if depth > 4:
                return
            for y in walk(e):
                if y.get("k") == "ref" and y.get("dk") in ("local", "parm") and y["name"] not in seen_:
                    seen_.add(y["name"])
                    for d_ in _defs_of(cp, y["name"], with_conditions=True):
                        closure.append(d_)
                        expand(d_, depth + 1)
        expand(arg)
        names = {y.get("name") for e in closure for y in walk(e) if y.get("k") in ("ref", "member")}
        callees = {y.get("callee") for e in closure for y in walk(e) if y.get("k") == "call"}
        key = "cif_parse:L%s:not_utf8" % c.get("l")
        wishes = sorted(nm for nm in names if nm in ("cif_version", "prefer_cif2") or (nm or "").endswith("prefer_cif2"))
        if "ucnv_getName" not in callees and not any("converter" in (nm or "") for nm in names):
            r8.violation(cp.file, cp.name, c.get("l"), "not-utf8-without-converter-name",
                         "the not_utf8 argument at L%s does not depend on the name of the converter that was opened" % c.get("l"))
        elif wishes:
            r8.violation(cp.file, cp.name, c.get("l"), "not-utf8-depends-on-version",
                         "the not_utf8 argument at L%s depends on %s: where CIF 2.0 was decided before the encoding (prefer_cif2 "
                         ">= 20 with a UTF-16/32 signature or a forced 8-bit default) the flag says UTF-8 although another "
                         "converter is open, and CIF_WRONG_ENCODING is never reported" % (c.get("l"), ", ".join(wishes)))
        else:
            r8.ok(key, "depends on %s only" % ", ".join(sorted(x for x in names if x and ("converter" in x or x in seen_))[:4]))



def eof_evidence_rule(prog, rule):
    """R9: the byte source is marked as being at end of file (a non-zero `eof_status`) only on a path that has itself called fread
    (the short count is the evidence), or where the status was already found non-zero.  The forced-encoding path of
    cif_parse does not pre-read the stream: a mark derived from a count that path sets to 0 ends the parse before it began."""
    n = 0
    for fn in prog.all_functions():
        if fn.unit != "ciffile.c":
            continue
        stores = [(b, i, x) for (b, i, r, x) in fn.eval_sites("asg")
                  if (path(strip(x.get("lhs"))) or "").endswith("eof_status") and x.get("op") == "="]
        if not stores:
            continue
        freads = [(b.id, i) for (b, i, r, c) in fn.calls_to("fread")]

        def nonzero_status(cnd):
            z = cfgq.zero_test(cnd, lambda e: (path(strip(e)) or "").endswith("eof_status"))
            if z is None:
                return None
            return "false" if z == "true" else "true"
        edges = cfgq.guard_edges(fn, nonzero_status)
        for (b, i, x) in stores:
            n += 1
            key = "%s:eof_status@L%s" % (fn.name, x.get("l"))
            if const(x.get("rhs")) == 0:
                rule.ok(key, "cleared")
            elif freads and cfgq.must_precede(fn, (b.id, i), freads):
                rule.ok(key, "after a read of the byte stream on every path")
            elif edges and cfgq.must_pass_edge(fn, b.id, edges):
                rule.ok(key, "where the status was already non-zero")
            else:
                rule.violation(fn.file, fn.name, x.get("l"), "eof-mark-without-read:%s" % fn.name,
                               "`%s` can mark the byte source as being at end of file on a path that has not read from it (the "
                               "forced-encoding path skips the look-ahead read): the parse ends at once with an empty CIF"
                               % show(x)[:70])
    return n
