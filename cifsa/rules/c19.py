"""C19 — value objects are independent deep values; lists and tables keep their contracts."""
import re

from ..facts import Broken, strip, const, walk, walk_eval, show, macro_name
from ..interp import path
from .. import cfgq, memrules

VALUE_PTR_TYPES = ("cif_value_tp *", "UChar *", "const UChar *", "cif_packet_tp *", "UChar **", "struct numb_value_s *",
                   "struct list_value_s *", "struct table_value_s *", "struct char_value_s *", "const char *", "char *")
# (function, parameter) pairs documented to take ownership of / alias their argument
ESCAPE_EXEMPT = {
    ("cif_value_init_char", "text"): "documented: the value takes ownership of the text",
    ("cif_value_parse_numb", "text"): "documented: on success the value takes ownership of the text",
    ("cif_packet_create_norm", "names"): "avoid_aliasing == 0 is reachable only from cif_packet_create, which hands over its own "
                                         "freshly normalised copies and then marks the packet standalone",
}
# storing entry points whose arguments must stay independent of what is stored
# storing entry point -> the *source* arguments (what is stored); the destination container/handle is not a source
STORING_API = {
    "cif_value_clone": ("value",), "cif_value_set_element_at": ("element",), "cif_value_insert_element_at": ("element",),
    "cif_value_set_item_by_key": ("key", "item"), "cif_packet_set_item": ("name", "value"), "cif_packet_create": ("names",),
    "cif_value_copy_char": ("text",), "cif_container_set_value": ("name_orig", "val"), "cif_loop_add_item": ("item_name", "val"),
    "cif_loop_add_packet": ("packet",), "cif_pktitr_update_packet": ("packet",), "cif_container_create_loop": ("category", "names"),
    "cif_create_block": ("code",), "cif_container_create_frame": ("code",), "cif_loop_set_category": ("category",),
}
RELEASE_CALLEES = ("free", "cif_value_free", "cif_value_clean", "cif_packet_free", "cif_loop_free", "cif_container_free",
                   "cif_block_free", "cif_frame_free", "cif_buf_free")
REINITIALISERS = {"cif_value_init": "value", "cif_value_init_char": "value", "cif_value_copy_char": "value",
                  "cif_value_init_numb": "n", "cif_value_autoinit_numb": "numb", "cif_value_parse_numb": "n"}
CLEANERS = ("cif_value_clean",) + tuple(REINITIALISERS)


def _ptr(t):
    return (t or "").strip().endswith("*")


def _nonlocal_lvalue(fn, p, locals_structs):
    if p is None:
        return True            # computed lvalue: *(cursor++) etc.
    root = re.match(r"[\(\*&]*(\w+)", p)
    root = root.group(1) if root else None
    if re.match(r"^\w+$", p):
        names = {l["name"] for l in fn.locals} | {q["name"] for q in fn.params}
        return root not in names          # a global
    if root in locals_structs and "->" not in p and "*" not in p:
        return False
    return True


class Escape:
    """escapes[(function, param index)] = description of how the argument (or a pointer read from it) is stored."""

    def __init__(self, prog):
        self.prog = prog
        self.escapes = {}
        self.fns = {f.name: f for f in prog.all_functions()}
        changed = True
        rounds = 0
        while changed and rounds < 8:
            changed = False
            rounds += 1
            for f in prog.all_functions():
                for k, prm in enumerate(f.params):
                    if (f.name, k) in self.escapes or not _ptr(prm["t"]):
                        continue
                    how = self._escape(f, k, prm["name"])
                    if how:
                        self.escapes[(f.name, k)] = how
                        changed = True

    def _tainted_expr(self, e, tainted):
        """Is the (cast-stripped) expression the parameter, an alias, or a pointer read from / into its object?"""
        e = strip(e)
        if not isinstance(e, dict):
            return False
        k = e.get("k")
        if k == "ref":
            return e.get("name") in tainted
        if k == "member":
            return _ptr(e.get("t")) and self._rooted(e, tainted)
        if k == "un" and e.get("op") == "&":
            return self._rooted(strip(e.get("e")), tainted)
        if k == "un" and e.get("op") == "*":
            return _ptr(e.get("t")) and self._rooted(e, tainted)
        if k == "index":
            return _ptr(e.get("t")) and self._rooted(e, tainted)
        if k == "cond":
            return self._tainted_expr(e.get("then"), tainted) or self._tainted_expr(e.get("else"), tainted)
        if k == "bin" and e.get("op") in ("+", "-"):
            return self._tainted_expr(e.get("lhs"), tainted)
        return False

    def _rooted(self, e, tainted):
        e = strip(e)
        while isinstance(e, dict):
            k = e.get("k")
            if k == "ref":
                return e.get("name") in tainted
            if k == "member":
                e = strip(e.get("base"))
            elif k == "un" and e.get("op") in ("*", "&"):
                e = strip(e.get("e"))
            elif k == "index":
                e = strip(e.get("base"))
            elif k == "bin" and e.get("op") in ("+", "-"):
                e = strip(e.get("lhs"))
            else:
                return False
        return False

    def _escape(self, f, k, pname):
        tainted = {pname}
        local_names = {l["name"] for l in f.locals}
        structs = {l["name"] for l in f.locals if not _ptr(l["t"])}
        assigns = []
        for (b, i, r, n) in f.eval_sites():
            if n.get("k") == "asg" and n.get("op") == "=":
                assigns.append((n.get("lhs"), n.get("rhs"), n))
            elif n.get("k") == "decl":
                for v in n.get("vars", []):
                    if v.get("init") is not None:
                        assigns.append(({"k": "ref", "name": v["name"], "dk": "local", "id": -1, "_p": v["name"]}, v["init"], n))
        changed = True
        while changed:
            changed = False
            for lhs, rhs, n in assigns:
                lp = path(strip(lhs))
                if lp and re.match(r"^\w+$", lp) and lp in local_names and lp not in tainted and self._tainted_expr(rhs, tainted):
                    tainted.add(lp)
                    changed = True
        for lhs, rhs, n in assigns:
            lp = path(strip(lhs))
            if lp and re.match(r"^\w+$", lp) and lp in local_names:
                continue
            if self._tainted_expr(rhs, tainted) and _nonlocal_lvalue(f, lp, structs):
                # writing back into the argument's own object is not an escape (p->x = p->y)
                if lp and self._rooted(strip(lhs), tainted) and not self._is_out_param_store(f, lhs):
                    continue
                return "stored at L%s: %s = %s" % (n.get("l"), show(strip(lhs))[:40], show(strip(rhs))[:40])
        for (b, i, r, n) in f.calls():
            c = n.get("callee")
            for j, a in enumerate(n.get("args", [])):
                if not self._tainted_expr(a, tainted):
                    continue
                if c in RELEASE_CALLEES:
                    continue        # releasing is not aliasing
                if c in ("memcpy", "memmove") and j == 1:
                    dst = strip(n["args"][0])
                    sz = strip(n["args"][2]) if len(n["args"]) > 2 else None
                    struct_copy = isinstance(sz, dict) and sz.get("k") == "sizeof" and re.search(r"_tp|_s\b|struct|union", sz.get("of_type", ""))
                    if struct_copy and not self._rooted(dst, tainted):
                        return "shallow copy at L%s: %s(%s, %s, ...)" % (n.get("l"), c, show(dst)[:30], show(strip(a))[:30])
                if (c, j) in self.escapes:
                    return "passed to %s (argument %d) at L%s, which %s" % (c, j, n.get("l"), self.escapes[(c, j)][:80])
                if c in ("sqlite3_bind_text16", "sqlite3_bind_text", "sqlite3_bind_blob") and j == 2:
                    continue        # SQLITE_STATIC binds are judged by C07 R3 (they must not outlive the step)
        return None

    @staticmethod
    def _is_out_param_store(f, lhs):
        l = strip(lhs)
        return isinstance(l, dict) and l.get("k") == "un" and l.get("op") == "*"


def guard_false_edges(fn, test):
    return cfgq.guard_edges(fn, test)


def run(prog, chk):
    chk.level = "other"
    chk.explanation = ("Structural contracts of value objects decided on the code: (R1) escape analysis — no storing entry point lets "
                       "its value/name argument, or a pointer read out of it, be stored into the heap (summaries over the call "
                       "graph; documented ownership transfers are the only exemptions), so stored copies share no storage with "
                       "the caller's objects; (R2) every (re)initialiser passes cif_value_clean (or another reinitialiser) on the "
                       "target before it stores into it, and cif_value_clean always ends in kind = CIF_UNK_KIND; (R3) list and "
                       "table accessors test kind and index before touching members and return the documented codes; (R4) the "
                       "list grows before the slot beyond its capacity is written.  Structural equality of clones and map "
                       "semantics under key variants are not decided.")
    esc = Escape(prog)
    r1 = chk.rule("R1-no-argument-aliasing", "no storing entry point lets its value / text / name / packet argument (or a pointer "
                  "read from it) be stored into heap objects", floor=15)
    n = 0
    for fname, sources in STORING_API.items():
        f = prog.fn(fname)
        for k, prm in enumerate(f.params):
            t = prm["t"].strip()
            if prm["name"] not in sources:
                continue
            n += 1
            key = "%s(%s)" % (fname, prm["name"])
            how = esc.escapes.get((fname, k))
            is_out = t.endswith("**") and prm["name"] in ("clone", "block", "frame", "loop", "packet", "value", "element")
            if how and (fname, prm["name"]) in ESCAPE_EXEMPT:
                r1.ok(key + ":exempt", ESCAPE_EXEMPT[(fname, prm["name"])])
            elif how and is_out:
                r1.ok(key, "out-parameter")
            elif how:
                r1.violation(f.file, fname, f.line, "argument-escapes:" + key,
                             "the argument `%s` of %s is aliased by stored data: %s" % (prm["name"], fname, how))
            else:
                r1.ok(key, "never stored (directly, through aliases, or by callees)")
    # the exemptions must still be what they are documented to be
    for (fname, pname), why in ESCAPE_EXEMPT.items():
        f = prog.fn(fname)
        k = f.param_index(pname)
        if (fname, k) not in esc.escapes:
            r1.info("exemption-unused:%s(%s)" % (fname, pname), "no longer stores its argument")
    # cif_packet_create_norm(names, avoid_aliasing = 0) only from cif_packet_create
    callers = prog.callers().get("cif_packet_create_norm", [])
    for (cf, b, i, r, c) in callers:
        aa = const(c["args"][2]) if len(c.get("args", [])) > 2 else None
        key = "%s -> cif_packet_create_norm(avoid_aliasing=%s)" % (cf.name, aa)
        if aa == 0 and cf.name != "cif_packet_create":
            r1.violation(cf.file, cf.name, c.get("l"), "aliasing-packet-create:" + cf.name,
                         "cif_packet_create_norm is called with avoid_aliasing = 0 outside cif_packet_create")
        else:
            r1.ok(key, "aliasing variant confined to cif_packet_create" if aa == 0 else "copies its names")
    for fname, sources in STORING_API.items():
        have = {p["name"] for p in prog.fn(fname).params}
        for sname in sources:
            if sname not in have:
                raise Broken("%s has no parameter %s" % (fname, sname))
    if n < 15:
        raise Broken("only %d value-carrying parameters examined" % n)
    chk.extra_cov["escaping_parameters"] = {"%s#%d" % k: v[:100] for k, v in sorted(esc.escapes.items())}

    r2 = chk.rule("R2-reinitialisers-release-first", "every store into the target value of a (re)initialising function is preceded "
                  "on every path by cif_value_clean(target) or a delegated reinitialiser; cif_value_clean ends with kind = UNK",
                  floor=8)
    unk = None
    for e in prog.enums.values():
        for x in e.get("enumerators", []):
            if x["name"] == "CIF_UNK_KIND":
                unk = x["v"]
    if unk is None:
        raise Broken("CIF_UNK_KIND not found")
    for fname, target in REINITIALISERS.items():
        f = prog.fn(fname)
        aliases = {target}
        for (b, i, r, nn) in f.eval_sites("decl"):
            for v in nn.get("vars", []):
                init = strip(v.get("init")) if v.get("init") is not None else None
                if isinstance(init, dict) and init.get("k") == "un" and init.get("op") == "&" and (path(strip(init.get("e"))) or "").startswith(target + "->"):
                    aliases.add(v["name"])
        cleans = [(b.id, i) for (b, i, r, c) in f.calls() if c.get("callee") in CLEANERS and c.get("callee") != fname
                  and c.get("args") and path(strip(c["args"][0])) == target]
        stores = [(b.id, i, a) for (b, i, r, a) in f.eval_sites("asg")
                  if any((path(strip(a.get("lhs"))) or "").startswith(al + "->") for al in aliases)]
        if not cleans and stores:
            r2.violation(f.file, fname, f.line, "no-clean:" + fname, "%s stores into its target without ever cleaning it" % fname)
            continue
        bad = [a for (bid, idx, a) in stores if not cfgq.must_precede(f, (bid, idx), cleans)]
        if bad:
            r2.violation(f.file, fname, bad[0].get("l"), "store-before-clean:" + fname,
                         "`%s` at L%s can execute before cif_value_clean(%s): the previous content leaks or is mixed with the new"
                         % (bad[0].get("txt") or show(bad[0])[:50], bad[0].get("l"), target))
        else:
            r2.ok(fname, "%d stores, all after the clean/delegation (%d clean sites)" % (len(stores), len(cleans)))
    # existing-target paths of clone / get_value / map_set_item
    cl = prog.fn("cif_value_clone")
    out_p = cl.params[1]["name"] if len(cl.params) > 1 else "clone"
    # the locals through which the destination object is written: assigned from *clone, or filled by cif_value_create(.., &v)
    dest = set()
    for (b, i, r, a) in cl.eval_sites("asg"):
        if a.get("op") == "=" and path(strip(a.get("rhs"))) == "*" + out_p and path(strip(a.get("lhs"))):
            dest.add(path(strip(a.get("lhs"))))
    for (b, i, r, c) in cl.calls_to("cif_value_create"):
        for a in c.get("args", []):
            a = strip(a)
            if isinstance(a, dict) and a.get("k") == "un" and a.get("op") == "&" and path(strip(a.get("e"))):
                dest.add(path(strip(a.get("e"))))
    cleans = [(b.id, i) for (b, i, r, c) in cl.calls_to("cif_value_clean") if c.get("args") and path(strip(c["args"][0])) in dest] \
        + [(b.id, i) for (b, i, r, c) in cl.calls_to("cif_value_create")]
    stores = [(b.id, i, a) for (b, i, r, a) in cl.eval_sites("asg")
              if any((path(strip(a.get("lhs"))) or "").startswith(d + "->") or (path(strip(a.get("lhs"))) or "") == "*" + d for d in dest)]
    helper_calls = [(b.id, i, c) for (b, i, r, c) in cl.calls()
                    if ((c.get("callee") or "").startswith("cif_value_clone_") and any(re.match(r"^[\(&\*]*(%s)->" % "|".join(map(re.escape, dest)), show(a)) for a in c.get("args", [])[1:]))
                    or (c.get("callee") in ("memcpy", "memmove") and c.get("args") and path(strip(c["args"][0])) in dest)] if dest else []
    bad = [x for x in stores + helper_calls if not cfgq.must_precede(cl, (x[0], x[1]), cleans)]
    if not dest:
        raise Broken("cif_value_clone: no local through which the destination is written was found")
    if bad or not cleans or not (stores or helper_calls):
        r2.violation(cl.file, cl.name, cl.line, "store-before-clean:cif_value_clone", "cif_value_clone writes into an existing target before cleaning it")
    else:
        r2.ok("cif_value_clone", "existing target cleaned (or fresh value created) before %d writes" % (len(stores) + len(helper_calls)))
    gv = prog.fn("cif_container_get_value")
    copies = [(b.id, i, c) for (b, i, r, c) in gv.calls_to("memcpy") if (path(strip(c["args"][0])) or "") == "*val"]
    cleans = [(b.id, i) for (b, i, r, c) in gv.calls_to("cif_value_clean") if (path(strip(c["args"][0])) or "") == "*val"]
    if copies and all(cfgq.must_precede(gv, (b, i), cleans) for (b, i, c) in copies):
        r2.ok("cif_container_get_value", "existing *val cleaned before the shallow copy")
    else:
        r2.violation(gv.file, gv.name, gv.line, "store-before-clean:cif_container_get_value", "*val is overwritten without being cleaned")
    vc = prog.fn("cif_value_clean")
    last = [(b.id, i) for (b, i, r, a) in vc.eval_sites("asg") if (path(strip(a.get("lhs"))) or "").endswith("kind") and const(a.get("rhs")) == unk]
    exits_ok = last and all(cfgq.must_precede(vc, (p, 10 ** 6), last) for p in vc.blocks[vc.exit].preds)
    if exits_ok:
        r2.ok("cif_value_clean:ends-UNK", "kind = CIF_UNK_KIND on every path to the exit")
    else:
        r2.violation(vc.file, vc.name, vc.line, "clean-leaves-kind", "cif_value_clean can return without setting kind = CIF_UNK_KIND")

    r3 = chk.rule("R3-accessor-guards", "list/table accessors test the kind (-> CIF_ARGUMENT_ERROR) and the index (-> "
                  "CIF_INVALID_INDEX; `>` for insert, `>=` otherwise) before touching members", floor=8)
    ae, ii = prog.macro_int("CIF_ARGUMENT_ERROR"), prog.macro_int("CIF_INVALID_INDEX")
    kinds = {x["name"]: x["v"] for e in prog.enums.values() for x in e.get("enumerators", [])}
    for fname, idx_op in (("cif_value_get_element_at", ">="), ("cif_value_set_element_at", ">="), ("cif_value_insert_element_at", ">"),
                          ("cif_value_remove_element_at", ">=")):
        f = prog.fn(fname)
        accesses = [(b.id, i, x) for (b, i, r, x) in f.eval_sites("index") if (path(strip(x.get("base"))) or "").endswith("as_list.elements")]
        accesses += [(b.id, i, x) for (b, i, r, x) in f.eval_sites("member") if x.get("name") in ("size", "capacity") and False]
        if not accesses:
            raise Broken("%s: no access to as_list.elements found" % fname)

        def kind_ok(c):
            t = cfgq.cmp_test(c, lambda e: (path(strip(e)) or "").endswith("->kind"))
            if t == ("!=", kinds["CIF_LIST_KIND"]):
                return "false"
            if t == ("==", kinds["CIF_LIST_KIND"]):
                return "true"
            return None

        def index_ok(c):
            cs = strip(c)
            if cs.get("k") == "bin" and cs.get("op") in (">=", ">", "<", "<="):
                l, r = path(strip(cs.get("lhs"))), path(strip(cs.get("rhs")))
                if l == "index" and (r or "").endswith("as_list.size"):
                    if cs["op"] == idx_op:
                        return "false"
                    if cs["op"] == {">=": "<", ">": "<="}[idx_op]:
                        return "true"
                    return "WRONG:" + cs["op"]
            return None
        ke = cfgq.guard_edges(f, kind_ok)
        wrong = [index_ok(cfgq.cond_of(f, b)) for b in f.blocks.values() if cfgq.cond_of(f, b) is not None]
        wrong = [w for w in wrong if isinstance(w, str) and w.startswith("WRONG")]
        ie = cfgq.guard_edges(f, lambda c: (lambda v: v if v in ("true", "false") else None)(index_ok(c)))
        bad = [x for (bid, idx, x) in accesses if not (ke and cfgq.must_pass_edge(f, bid, ke) and ie and cfgq.must_pass_edge(f, bid, ie))]
        rets = {const(nn.get("e")) for (b, i, r, nn) in f.returns() if nn.get("e") is not None}
        key = fname
        if wrong:
            r3.violation(f.file, fname, f.line, "index-comparison:" + fname, "the index is compared with `%s` (expected `%s` against the list size)" % (wrong[0][6:], idx_op))
        elif bad:
            r3.violation(f.file, fname, bad[0].get("l"), "unguarded-member-access:" + fname,
                         "as_list.elements is accessed at L%s without the kind test and the index test on every path" % bad[0].get("l"))
        elif ae not in rets or ii not in rets:
            r3.violation(f.file, fname, f.line, "refusal-codes:" + fname, "%s does not return both CIF_ARGUMENT_ERROR and CIF_INVALID_INDEX" % fname)
        else:
            r3.ok(key, "%d element accesses behind kind == LIST and index %s size" % (len(accesses), {">=": "<", ">": "<="}[idx_op]))
    for fname in ("cif_value_get_keys", "cif_value_set_item_by_key", "cif_value_get_item_by_key", "cif_value_remove_item_by_key"):
        f = prog.fn(fname)
        uses = [(b.id, i, c) for (b, i, r, c) in f.calls() if (c.get("callee") or "").startswith("cif_map_")]
        if not uses:
            raise Broken("%s: no cif_map_* call found" % fname)

        def tkind(c):
            t = cfgq.cmp_test(c, lambda e: (path(strip(e)) or "").endswith("->kind"))
            if t == ("==", kinds["CIF_TABLE_KIND"]):
                return "true"
            if t == ("!=", kinds["CIF_TABLE_KIND"]):
                return "false"
            return None
        ke = cfgq.guard_edges(f, tkind)
        rets = {const(nn.get("e")) for (b, i, r, nn) in f.returns() if nn.get("e") is not None}
        if ke and all(cfgq.must_pass_edge(f, bid, ke) for (bid, i, c) in uses) and ae in rets:
            r3.ok(fname, "map access behind kind == TABLE; CIF_ARGUMENT_ERROR otherwise")
        else:
            r3.violation(f.file, fname, f.line, "unguarded-map-access:" + fname, "%s reaches the map without testing kind == CIF_TABLE_KIND" % fname)
    # remove hands the member over or frees it, and closes the gap
    rm = prog.fn("cif_value_remove_element_at")
    frees = rm.calls_to("cif_value_free")
    outs = [a for (b, i, r, a) in rm.eval_sites("asg") if path(strip(a.get("lhs"))) == "*element"]
    dec = [a for (b, i, r, a) in rm.eval_sites("asg") if (path(strip(a.get("lhs"))) or "").endswith("as_list.size") and a.get("op") == "-="]
    if frees and outs and dec:
        r3.ok("cif_value_remove_element_at:hand-over", "member returned through *element or freed; size decremented")
    else:
        r3.violation(rm.file, rm.name, rm.line, "remove-contract", "remove does not hand over/free the member and shrink the list")

    r4 = chk.rule("R4-capacity-growth", "cif_value_insert_element_at writes the new slot only when size < capacity or after a "
                  "successful realloc", primary=False, floor=1)
    ins = prog.fn("cif_value_insert_element_at")
    writes = [(b.id, i, a) for (b, i, r, a) in ins.eval_sites("asg") if re.search(r"as_list\.elements\[", path(strip(a.get("lhs"))) or "")]

    def room(c):
        cs = strip(c)
        if cs.get("k") == "bin" and cs.get("op") in (">=", "<"):
            l, r = path(strip(cs.get("lhs"))) or "", path(strip(cs.get("rhs"))) or ""
            if l.endswith("as_list.size") and r.endswith("as_list.capacity"):
                return "false" if cs["op"] == ">=" else "true"
        z = cfgq.zero_test(c, lambda e: path(strip(e)) in realloc_results)
        if z is not None:
            return "false" if z == "true" else "true"
        return None
    # locals that receive the result of realloc (also inside a grow helper inlined here)
    realloc_results = set()
    for (b, i, r, x) in ins.eval_sites():
        if x.get("k") == "decl":
            for v in x.get("vars", []):
                if v.get("init") is not None and any(y.get("k") == "call" and y.get("callee") == "realloc" for y in walk(v["init"])):
                    realloc_results.add(v["name"])
        elif x.get("k") == "asg" and any(y.get("k") == "call" and y.get("callee") == "realloc" for y in walk(x.get("rhs"))):
            if path(strip(x.get("lhs"))):
                realloc_results.add(path(strip(x.get("lhs"))))
    re_ = cfgq.guard_edges(ins, room)
    # path-sensitive in the status variables: a helper's failure code is tested by the caller
    free_of_room = cfgq.fact_reach(ins, [ins.entry], removed_edges=re_) if re_ else None
    if writes and re_ and all(bid not in free_of_room for (bid, i, a) in writes):
        r4.ok("cif_value_insert_element_at", "%d slot writes behind `size < capacity` or a successful realloc" % len(writes))
    else:
        r4.violation(ins.file, ins.name, ins.line, "slot-write-without-room", "a slot is written without room having been established")
    if memrules.growth_positive(prog, r4) < 1:
        raise Broken("no additive capacity growth feeding realloc found")

    r5 = chk.rule("R5-map-key-aliasing", "packet / table entries may hold key_orig == key: replacing or releasing one of the two "
                  "never frees the allocation the other still uses (guarded by their inequality, tear-down of both, or an "
                  "allocation made in the same function)", primary=False, floor=4)
    judged, alias_stores = memrules.alias_pair_free(prog, r5)
    if alias_stores < 1 or judged < 4:
        raise Broken("key/key_orig sites vanished (%d frees, %d alias stores)" % (judged, alias_stores))

    r6 = chk.rule("R6-copy-field-correspondence", "a deep copy assigns each duplicated string to the same field it was read from "
                  "(`a->F = dup(b->F)` for two objects of one record type)", primary=False, floor=5)
    if memrules.dup_field_correspondence(prog, r6) < 5:
        raise Broken("fewer than 5 duplicated-field stores found")

    r7 = chk.rule("R7-hash-key-length", "every HASH_ADD_KEYPTR stores, as the key length, u_strlen(K) * sizeof(UChar) of the very key K "
                  "it stores (packets and tables are found again under the key they were filed under)", primary=False, floor=5)
    if memrules.hash_key_length(prog, r7) < 5:
        raise Broken("fewer than 5 uthash insertions found")
    r8 = chk.rule("R8-clean-helpers-reset-pointers", "`*_clean` helpers reset the pointers they free (every (re)initialising function "
                  "releases previous content through them and keeps using the object)", primary=False, floor=4)
    if memrules.clean_helpers_reset(prog, r8) < 4:
        raise Broken("fewer than 4 frees in *_clean helpers")
    r9 = chk.rule("R9-clean-helpers-reset-counters", "a `*_clean` helper that releases an indexed block leaves the counters bounding it "
                  "(size, capacity of a list) at 0 on every exit: a cleaned object that is kept is an empty list", primary=False, floor=2)
    if memrules.clean_resets_bounds(prog, r9) < 2:
        raise Broken("no counter bounding a block released by a *_clean helper found (expected the list's size and capacity)")
    element_identity_rule(prog, chk)
    r12 = chk.rule("R12-hash-keys-unique", "every insertion into a uthash table (HASH_ADD_KEYPTR) is reached only after a HASH_FIND for the "
                   "key, or takes its keys from a source that is a set already (frozen table with reasons): a table or packet is a map",
                   floor=5)
    from .. import hashunique
    if hashunique.rule(prog, r12) < 5:
        raise Broken("fewer than 5 uthash insertions found")
    r11 = chk.rule("R11-source-read-before-destination-cleaned", "a function that copies one value onto an existing one cleans the "
                   "destination only after it has read the source (the new value of a member may be part of that member)", floor=1)
    if memrules.destination_cleaned_before_source_read(prog, r11) < 1:
        raise Broken("no function cleaning a destination value found")


# who may replace or release the object in a list's element slot: insertion (shifts and stores the clone), removal, tear-down
# and the deserialiser that builds a fresh list.  cif.h: a set "is copied onto" the existing element and "will be visible to
# code that holds a reference to the value" - so cif_value_set_element_at is deliberately absent.
ELEMENT_SLOT_WRITERS = {
    "cif_value_insert_element_at": "shifts the tail and stores the clone of the new element",
    "cif_value_remove_element_at": "releases the removed element and shifts the tail",
    "cif_list_value_clean": "tear-down",
    "cif_list_deserialize": "builds a fresh list",
    "cif_value_clone_list": "builds a fresh list",
}


def element_identity_rule(prog, chk):
    r10 = chk.rule("R10-element-objects-keep-their-identity", "only insertion, removal, tear-down and the builders of fresh lists store into "
                   "a list's element slot or release an element object; a set copies onto the existing element, so references "
                   "handed out by cif_value_get_element_at stay valid and see the new content", floor=4)
    n = 0
    for fn in prog.all_functions():
        if fn.unit != "value.c":
            continue
        acts = []
        for (b, i, r, x) in fn.eval_sites("asg"):
            l = strip(x.get("lhs"))
            if isinstance(l, dict) and l.get("k") == "index" and (path(strip(l.get("base"))) or "").endswith("elements"):
                acts.append((x, "stores into an element slot"))
        for (b, i, r, c) in fn.calls():
            if c.get("callee") in ("cif_value_free", "free") and c.get("args"):
                a = strip(c["args"][0])
                if isinstance(a, dict) and a.get("k") == "index" and (path(strip(a.get("base"))) or "").endswith("elements"):
                    acts.append((c, "releases an element object"))
        if not acts:
            continue
        n += 1
        if fn.name in ELEMENT_SLOT_WRITERS:
            r10.ok(fn.name, "%d slot stores / releases: %s" % (len(acts), ELEMENT_SLOT_WRITERS[fn.name]))
        else:
            x, what = acts[0]
            r10.violation(fn.file, fn.name, x.get("l"), "element-slot-written:%s" % fn.name,
                          "%s %s (`%s`): the element object at that index is replaced or released, so a reference obtained earlier "
                          "from cif_value_get_element_at dangles instead of seeing the new content" % (fn.name, what, show(x)[:50]))
    if n < 4:
        raise Broken("fewer than 4 functions writing list element slots found")
