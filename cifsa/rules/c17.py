"""C17 — a failed allocation yields an error code, not a crash, corruption or leak."""
import re

from ..facts import Broken, strip, const, walk, walk_eval, show, macro_name
from ..interp import Interp, path, av_const, NONZERO, AV
from .. import cfgq, own, memrules
from ..codesummary import CodeSummary
from . import c05, c16, c20

COPY_FUNCS = {"memcpy": (0, 1), "memmove": (0, 1), "strcpy": (0, 1), "strncpy": (0, 1), "u_strcpy": (0, 1), "u_strncpy": (0, 1),
              "u_memcpy": (0, 1), "u_memmove": (0, 1), "memset": (0,), "sprintf": (0,), "u_strcat": (0, 1), "strcat": (0, 1)}
ALLOC_FUNCS = own.ALLOC_RET | {"realloc"}
# allocation results that are deliberately tested later / elsewhere, each with its reason
R1_EXEMPT = {
    ("cif_unicode_normalize", "buf"): "re-allocation inside `while (buf)`: tested by the loop condition before the next use",
    ("cif_fold_case", "buf"): "as cif_unicode_normalize",
}
# functions whose failure may be ignored by callers (pure clean-up)
R2_IGNORABLE = re.compile(r"^(cif_\w+_free|cif_value_clean|cif_pktitr_close|cif_pktitr_abort|cif_destroy)$")


def deref_sites(fn, p):
    """Evaluated nodes that dereference access path p."""
    out = []
    for (b, i, r, n) in fn.eval_sites():
        k = n.get("k")
        hit = False
        if k == "member" and n.get("arrow") and path(strip(n.get("base"))) == p:
            hit = True
        elif k == "un" and n.get("op") == "*" and path(strip(n.get("e"))) == p:
            hit = True
        elif k == "index" and path(strip(n.get("base"))) == p:
            hit = True
        elif k == "call" and n.get("callee") in COPY_FUNCS:
            for ai in COPY_FUNCS[n["callee"]]:
                if ai < len(n.get("args", [])) and path(strip(n["args"][ai])) == p:
                    hit = True
        if hit:
            out.append((b.id, i, n))
    return out


class DropInterp(Interp):
    """ts = id of a call that may fail for lack of memory and whose failure has not been acknowledged yet."""

    def __init__(self, prog, fn, may_fail):
        super().__init__(prog, fn)
        self.may_fail = may_fail
        self.sites = {}
        keep = {p["name"] for p in fn.params} | {l["name"] for l in fn.locals}
        self.tracked = {p for p in self.tracked if re.match(r"^\w+$", p) and p in keep}
        self.cap = 3000

    def initial_ts(self):
        return None

    def call(self, st, n, argvals):
        c = n.get("callee")
        if c in self.may_fail and st.ts is None:
            self.sites[n["id"]] = n
            # error codes are positive; negative results are traversal directives / the scanner's internal EOF mark
            return [(st, av_const(0)), (st.with_ts(n["id"]), AV(1, None)), (st, AV(None, -1))]
        return [(st, None)]

    def assign(self, st, node, lhs, p, av, rhs):
        # any store of a non-zero (or unknown) status into a variable acknowledges the failure
        if st.ts is not None and p is not None and re.match(r"^(_error_code|result\w*|\w*result|rc|temp)$", p):
            binds_call = rhs is not None and any(x.get("id") == st.ts for x in walk(rhs))
            if not binds_call and (av is None or not (av.is_const() and av.value() == 0)):
                return st.with_ts(None)
        return st


class MemCodeInterp(Interp):
    """ts = id of a call that returned exactly CIF_MEMORY_ERROR (3) on this path."""

    def __init__(self, prog, fn, may_fail, mem):
        super().__init__(prog, fn)
        self.may_fail = may_fail
        self.mem = mem
        self.sites = {}
        keep = {p["name"] for p in fn.params} | {l["name"] for l in fn.locals}
        self.tracked = {p for p in self.tracked if re.match(r"^\w+$", p) and p in keep}
        self.cap = 4000

    def initial_ts(self):
        return None

    def call(self, st, n, argvals):
        if n.get("callee") in self.may_fail and st.ts is None:
            self.sites[n["id"]] = n
            return [(st, av_const(0)), (st.with_ts(n["id"]), av_const(self.mem)),
                    (st, AV(1, None, frozenset([self.mem]))), (st, AV(None, -1))]
        return [(st, None)]


def oom_cleanup_rule(prog, chk, rid="R3", primary=True):
    from . import c16
    r3 = chk.rule(rid + "-cleanup-under-oom", "on paths that pass a failed allocation every acquired object is still released or handed "
                  "over exactly once (no leak, no double release, no use after release)", floor=40, primary=primary)
    reports, res = c16.ownership_reports(prog)
    bad_fns = set()
    for rp in reports:
        if not rp["oom_only"]:
            continue
        fn = rp["fn"]
        why = c16.exempt(rp)
        key = "%s:%s" % (fn.name, c16.report_key(rp))
        if why:
            r3.info(key, "exempt: " + why)
            continue
        bad_fns.add(fn.key)
        exits = ", ".join("`%s` L%s" % (t[:40], l) for t, l in sorted(rp["exits"].items(), key=lambda kv: kv[1] or 0)[:3])
        if rp["kind"] == "leak":
            msg = "after an allocation failure, %s acquired at L%s (%s) is neither released nor handed over on the way to %s" % (
                rp["var"] or rp["names"] or "the allocation", rp["acq_line"], rp["callee"], exits)
        else:
            msg = "after an allocation failure: %s (acquired at L%s by %s): %s" % (rp["kind"], rp["acq_line"], rp["callee"], rp["detail"])
        r3.violation(fn.file, fn.name, rp["acq_line"], c16.report_key(rp), msg, path=["L%s" % x for x in rp["state"].trail_lines()][-25:])
    for key, it in sorted(res.items()):
        if it.overflow:
            r3.unproved(key, "not analysed to a fixpoint")
        elif key not in bad_fns:
            r3.ok(key, "clean on all paths through a failed allocation", n=max(1, len(it.acq_nodes)))



def run(prog, chk):
    chk.level = "other"
    chk.explanation = ("Structural necessary conditions of graceful failure under memory exhaustion, over every allocation site of "
                       "the library (≈100): the result of each allocation is tested on every path before it is dereferenced or "
                       "copied into (must-fact dataflow per site); a memory failure reported by a callee is not turned into "
                       "CIF_OK; the clean-up ladders taken after a failed allocation release everything exactly once (ownership "
                       "typestate restricted to paths through a failed allocation); no such path leaves a transaction open.  "
                       "SQLite's and ICU's own behaviour under memory exhaustion, and `the same call succeeds when repeated`, "
                       "are not decided.")
    r1 = chk.rule("R1-allocation-tested", "no allocation result is dereferenced, indexed or copied into on a path where it has not "
                  "been tested for NULL since the allocation", floor=40)
    n_sites = 0
    for fn in prog.all_functions():
        allocs = {}
        for (b, i, r, n) in fn.eval_sites():
            rhs = None
            if n.get("k") == "asg" and n.get("op") == "=":
                rhs, lp = n.get("rhs"), path(strip(n.get("lhs")))
            elif n.get("k") == "decl":
                for v in n.get("vars", []):
                    if v.get("init") is not None and isinstance(strip(v["init"]), dict) and strip(v["init"]).get("k") == "call" \
                            and strip(v["init"]).get("callee") in ALLOC_FUNCS:
                        allocs.setdefault(v["name"], []).append((b.id, i, strip(v["init"])))
                continue
            else:
                continue
            rr = strip(rhs)
            if lp and isinstance(rr, dict) and rr.get("k") == "call" and rr.get("callee") in ALLOC_FUNCS:
                if any(m.startswith("HASH_") or m.startswith("uthash_") for m in (rr.get("ms") or [])):
                    continue
                allocs.setdefault(lp, []).append((b.id, i, rr))
        for p, sites in allocs.items():
            n_sites += len(sites)
            key = "%s:%s" % (fn.name, p)
            if (fn.name, p) in R1_EXEMPT:
                r1.ok(key + ":exempt", R1_EXEMPT[(fn.name, p)], n=len(sites))
                continue
            derefs = deref_sites(fn, p)
            if not derefs:
                r1.ok(key, "%d allocation(s), never dereferenced in this function" % len(sites), n=len(sites))
                continue
            root = re.match(r"[\(\*&]*(\w+)", p).group(1)

            def nonnull(c):
                z = cfgq.zero_test(c, lambda e: path(strip(e)) == p or (strip(e).get("k") == "asg" and path(strip(strip(e).get("lhs"))) == p))
                if z is None:
                    return None
                return "false" if z == "true" else "true"
            gen_edges = cfgq.guard_edges(fn, nonnull)
            # loop conditions (`while (buf)`) are two-way branches as well: covered by guard_edges
            kills = [(b, i) for (b, i, c) in sites]
            for (bb, ii, rr2, a) in fn.eval_sites("asg"):
                lp2 = path(strip(a.get("lhs")))
                if lp2 and lp2 != p and (lp2 == root) and root != p:
                    kills.append((bb.id, ii))
            mf = cfgq.MustFact(fn, gen_edges=gen_edges, kill_sites=kills, entry_value=True)
            bad = []
            for (db, di, dn) in derefs:
                # only dereferences reachable from an allocation matter
                if not any(db in cfgq.reach(fn, [ab]) for (ab, ai, ac) in sites):
                    continue
                v = mf.at(db, di)
                same_block_after_alloc = any(ab == db and ai < di for (ab, ai, ac) in sites)
                if v is False or (same_block_after_alloc and not any(e[0] == db for e in gen_edges)):
                    if v is False or same_block_after_alloc:
                        bad.append(dn)
            if bad:
                r1.violation(fn.file, fn.name, bad[0].get("l"), "untested-allocation:" + key,
                             "`%s` is allocated at L%s and dereferenced at L%s on a path that has not tested it for NULL"
                             % (p, sites[0][2].get("l"), bad[0].get("l")))
            else:
                r1.ok(key, "%d allocation(s), %d dereference(s), all after a NULL test" % (len(sites), len(derefs)), n=len(sites))
    if n_sites < 40:
        raise Broken("only %d allocation sites found" % n_sites)
    chk.extra_cov["allocation_sites"] = n_sites

    r2 = chk.rule("R2-failure-not-dropped", "a callee result that can be CIF_MEMORY_ERROR is never followed, on its failing branch, by "
                  "`return CIF_OK` without the failure being recorded", floor=15)
    codes, _ = c20.result_codes(prog, prog.info)
    cs = CodeSummary(prog, codes)
    may_fail = {f for f, c in cs.codes.items() if "CIF_MEMORY_ERROR" in c and not R2_IGNORABLE.match(f)}
    n_fn = 0
    for fn in prog.all_functions():
        if fn.ret.strip() != "int" or not (prog.callees(fn) & may_fail):
            continue
        n_fn += 1
        it = DropInterp(prog, fn, may_fail).run()
        if it.overflow:
            r2.unproved(fn.key, "not analysed to a fixpoint")
            continue
        bad = {}
        for st, av, node in it.exits:
            if st.ts is not None and av is not None and av.is_const() and av.value() == 0:
                bad.setdefault(st.ts, (st, node))
        for sid, (st, node) in bad.items():
            cn = it.sites[sid]
            r2.violation(fn.file, fn.name, cn.get("l"), "dropped-failure:%s:%s" % (fn.name, cn.get("callee")),
                         "when %s (L%s) fails, %s still reaches `%s` with CIF_OK: the failure (possibly CIF_MEMORY_ERROR) is dropped"
                         % (cn.get("callee"), cn.get("l"), fn.name, node.get("txt", "return") if node else "the end"),
                         path=["L%s" % x for x in st.trail_lines()][-20:])
        if not bad:
            r2.ok(fn.key, "%d may-fail call sites; no failing branch returns CIF_OK" % len(it.sites))
    if n_fn < 15:
        raise Broken("only %d functions with may-fail callees" % n_fn)

    oom_cleanup_rule(prog, chk)

    r4 = chk.rule("R4-no-open-transaction-on-failure", "no exit - including those taken when sqlite3_prepare_v2, BEGIN or an "
                  "allocation fails - leaves a transaction open (C05 R1 over all exits)", floor=7)
    c05.check_balance(prog, chk, r4)

    r5 = chk.rule("R5-no-dangling-field-after-failure", "a function that has stored `v->kind = K` does not, on a later failure, "
                  "release K's pointer fields of v and return with the kind still set (the caller's clean-up would free them again)",
                  primary=False, floor=5)
    if memrules.dangling_under_kind(prog, r5) < 5:
        raise Broken("kind stores vanished")

    r6 = chk.rule("R6-shell-free-keeps-no-fields", "in the DESERIALIZE family (which the ownership typestate cannot model) an object whose "
                  "pointer field holds a fresh allocation is not released by a plain free() - nor left behind with an unset kind - "
                  "on a path through a call that can fail for lack of memory, unless that field was released first",
                  primary=False, floor=3)
    fam = [f for (f, v) in c16.OWN_EXEMPT if v is None]
    n6 = memrules.shell_free_with_fields(prog, r6, fam, may_fail | set(memrules.ALLOCS))
    if n6 < 3:
        raise Broken("only %d field-store / shell-free pairs found in %s" % (n6, fam))

    r7 = chk.rule("R7-realloc-result-to-temporary", "no `p = realloc(p, n)`: a failed re-allocation must leave the old block reachable and "
                  "the owning object unchanged", primary=False, floor=3)
    if memrules.realloc_self_assign(prog, r7) < 3:
        raise Broken("fewer than 3 realloc sites found")

    r8 = chk.rule("R8-memory-error-code-preserved", "when a callee returns CIF_MEMORY_ERROR the caller returns CIF_MEMORY_ERROR or "
                  "CIF_ERROR - never CIF_OK or another constant code (the property names the two admissible codes)",
                  primary=False, floor=15)
    mem, gen = codes.get("CIF_MEMORY_ERROR"), codes.get("CIF_ERROR")
    n8 = 0
    for fn in prog.all_functions():
        if fn.ret.strip() != "int" or not (prog.callees(fn) & may_fail):
            continue
        n8 += 1
        it = MemCodeInterp(prog, fn, may_fail, mem).run()
        if it.overflow:
            r8.unproved(fn.key, "not analysed to a fixpoint")
            continue
        bad = {}
        for st, av, node in it.exits:
            if st.ts is not None and av is not None and av.is_const() and av.value() not in (mem, gen):
                cn = it.sites[st.ts]
                bad.setdefault((cn.get("callee"), av.value()), (st, node, cn))
        for (callee, v), (st, node, cn) in sorted(bad.items(), key=str):
            name = next((k for k, x in codes.items() if x == v), str(v))
            r8.violation(fn.file, fn.name, cn.get("l"), "memory-error-becomes:%s:%s:%s" % (fn.name, callee, name),
                         "when %s (L%s) returns CIF_MEMORY_ERROR, %s returns %s (%s): a failed allocation is reported under a code "
                         "that is neither CIF_MEMORY_ERROR nor CIF_ERROR" % (callee, cn.get("l"), fn.name, name, v),
                         path=["L%s" % x for x in st.trail_lines()][-20:])
        if not bad:
            r8.ok(fn.key, "%d may-fail call sites; CIF_MEMORY_ERROR is passed on (or becomes CIF_ERROR)" % len(it.sites))
    if n8 < 15:
        raise Broken("only %d functions with may-fail callees" % n8)

    r9 = chk.rule("R9-release-sees-initialised-fields", "a handle obtained from malloc is passed to its release function only after every "
                  "field that function reads has been assigned on every path (out-parameters handed to a callee that may fail do "
                  "not count)", primary=False, floor=10)
    if memrules.release_sees_initialised(prog, r9) < 10:
        raise Broken("fewer than 10 (fresh handle, release call) pairs found")

    r10 = chk.rule("R10-uthash-fatal-recovery", "no failure handler reached from a uthash insertion that ran out of memory walks the table "
                   "(or hands it back to the caller): uthash 1.9.9 links the element before allocating and cannot be unwound",
                   primary=False, floor=4)
    if memrules.uthash_fatal_recovery(prog, r10) < 4:
        raise Broken("fewer than 4 functions with a re-defined uthash_fatal found")

    r11 = chk.rule("R11-out-parameter-not-dangling", "a function that releases `*out` stores into `*out` again before returning",
                   primary=False, floor=1)
    if memrules.out_param_not_dangling(prog, r11) < 1:
        raise Broken("no release of an out-parameter's referent found (expected cif_packet_create)")

    r12 = chk.rule("R12-clean-helpers-reset-pointers", "a `*_clean` function resets every pointer field it frees (the object stays alive: "
                   "a failure handler may clean it and hand it back with its kind unchanged)", primary=False, floor=4)
    if memrules.clean_helpers_reset(prog, r12) < 4:
        raise Broken("fewer than 4 frees in *_clean helpers")

    r15 = chk.rule("R15-no-release-of-an-unset-pointer", "when an allocating callee fails, the local it would have set is not released: "
                   "a pointer declared without an initialiser holds stack garbage on that path (shared with C16 R14)",
                   primary=False, floor=15)
    from .. import uninitfree
    if uninitfree.rule(prog, r15) < 15:
        raise Broken("fewer than 15 locals set through an out-parameter found")
    r16 = chk.rule("R16-failure-indicator-comes-with-its-code", "a function that reports failure by a negative return and the reason through "
                   "an `int *` parameter has stored through it on every path to such a return (the caller returns that variable, an "
                   "uninitialised local, as the result code)", primary=False, floor=2)
    from .. import outcode
    if outcode.rule(prog, r16) < 2:
        raise Broken("no function with an error-code out-parameter and a negative failure return found")

    r17 = chk.rule("R17-not-freed-after-transfer", "a block stored into a field of an object that stays alive is not freed afterwards by the "
                   "same function (a clean-up added for the failure of a later step must not release what an entry of the caller's "
                   "table already owns)", primary=False, floor=2)
    if memrules.free_after_transfer(prog, r17) < 2:
        raise Broken("fewer than 2 store-then-free sites found")

    r14 = chk.rule("R14-capacity-is-allocation-count", "after a refused (re-)allocation the capacity recorded is that of the block "
                   "actually held: every allocation that can be the last before a capacity store agrees with it (shared with C16 R10)",
                   primary=False, floor=4)
    if memrules.capacity_matches_allocation(prog, r14) < 4:
        raise Broken("fewer than 4 capacity stores found in value.c")

    r13 = chk.rule("R13-clean-helpers-reset-counters", "a `*_clean` function that releases an indexed block leaves its counters at 0: the "
                   "failure handler of an in-place copy cleans the half-built target and hands it back as an empty list", primary=False, floor=2)
    if memrules.clean_resets_bounds(prog, r13) < 2:
        raise Broken("no counter bounding a block released by a *_clean helper found")
