"""C20 — every result code has its own correct message in cif_errlist (exhaustive table comparison)."""
import re

from ..facts import Broken, walk, const

# Distinguishing stems per code: every group must match (case-insensitive), a group is a tuple of
# alternatives.  This is the oracle for "describes that very condition"; a code defined later without an
# entry here gets only the generic obligations (in range, non-empty, distinct) and an info row.
STEMS = {
    "CIF_OK": [("no error", "success")],
    "CIF_FINISHED": [("finish",)],
    "CIF_ERROR": [("unspecified", "general", "generic")],
    "CIF_MEMORY_ERROR": [("memory",)],
    "CIF_INVALID_HANDLE": [("handle",)],
    "CIF_INTERNAL_ERROR": [("internal",)],
    "CIF_ARGUMENT_ERROR": [("argument",)],
    "CIF_MISUSE": [("use",)],
    "CIF_NOT_SUPPORTED": [("not supported", "unsupported")],
    "CIF_ENVIRONMENT_ERROR": [("environment",)],
    "CIF_CLIENT_ERROR": [("application", "client")],
    "CIF_DUP_BLOCKCODE": [("duplicate",), ("block",)],
    "CIF_INVALID_BLOCKCODE": [("invalid",), ("block",)],
    "CIF_NOSUCH_BLOCK": [("no ",), ("block",)],
    "CIF_DUP_FRAMECODE": [("duplicate",), ("frame",)],
    "CIF_INVALID_FRAMECODE": [("invalid",), ("frame",)],
    "CIF_NOSUCH_FRAME": [("no ",), ("frame",)],
    "CIF_CAT_NOT_UNIQUE": [("categor",), ("uniq",)],
    "CIF_INVALID_CATEGORY": [("categor",), ("invalid",)],
    "CIF_NOSUCH_LOOP": [("no loop", "no such loop")],
    "CIF_RESERVED_LOOP": [("scalar", "reserved")],
    "CIF_WRONG_LOOP": [("belong", "wrong")],
    "CIF_EMPTY_LOOP": [("loop",), ("no data", "empty", "no packets")],
    "CIF_NULL_LOOP": [("loop",), ("names",)],
    "CIF_DUP_ITEMNAME": [("duplicate",), ("item", "name")],
    "CIF_INVALID_ITEMNAME": [("invalid",), ("item", "name")],
    "CIF_NOSUCH_ITEM": [("no item", "no such item")],
    "CIF_AMBIGUOUS_ITEM": [("several", "ambiguous", "only one", "multiple")],
    "CIF_INVALID_PACKET": [("packet",), ("valid",)],
    "CIF_PARTIAL_PACKET": [("packet",), ("few", "partial", "incomplete")],
    "CIF_DISALLOWED_VALUE": [("value",)],
    "CIF_INVALID_NUMBER": [("number",)],
    "CIF_INVALID_INDEX": [("index",)],
    "CIF_INVALID_BARE_VALUE": [("bare", "quoted")],
    "CIF_INVALID_CHAR": [("invalid",), ("character",)],
    "CIF_UNMAPPED_CHAR": [("unmap",)],
    "CIF_DISALLOWED_CHAR": [("not allowed", "disallowed"), ("character",)],
    "CIF_MISSING_SPACE": [("space",)],
    "CIF_MISSING_ENDQUOTE": [("terminat", "closing", "endquote"), ("quot",)],
    "CIF_UNCLOSED_TEXT": [("multi-line", "text"), ("terminat", "closed")],
    "CIF_OVERLENGTH_LINE": [("line",), ("length", "long")],
    "CIF_DISALLOWED_INITIAL_CHAR": [("first", "initial")],
    "CIF_WRONG_ENCODING": [("encoding",)],
    "CIF_NO_BLOCK_HEADER": [("block",), ("outside", "header")],
    "CIF_FRAME_NOT_ALLOWED": [("frame",), ("disabled", "not allowed")],
    "CIF_NO_FRAME_TERM": [("terminator",), ("missing",)],
    "CIF_UNEXPECTED_TERM": [("terminator",), ("none was expected", "unexpected")],
    "CIF_EOF_IN_FRAME": [("end of",), ("frame",)],
    "CIF_RESERVED_WORD": [("reserved word",)],
    "CIF_MISSING_VALUE": [("missing",), ("value",)],
    "CIF_UNEXPECTED_VALUE": [("unexpected",), ("value",)],
    "CIF_UNEXPECTED_DELIM": [("misplaced", "unexpected"), ("delimiter",)],
    "CIF_MISSING_DELIM": [("missing",), ("delimiter",)],
    "CIF_MISSING_KEY": [("missing",), ("key",)],
    "CIF_UNQUOTED_KEY": [("unquoted",), ("key",)],
    "CIF_MISQUOTED_KEY": [("text block", "text field", "misquoted"), ("key",)],
    "CIF_NULL_KEY": [("null",), ("key",)],
    "CIF_MISSING_PREFIX": [("prefix",)],
}

CODE_FLOOR = 29          # half of the 58 codes confirmed by hand


from ..facts import c_int_literal  # noqa: E402


def result_codes(prog, info):
    """CIF_* object-like macros of cif.h's doc group `return_codes`, excluding the CIF_TRAVERSE_* directives."""
    import os
    path = os.path.join(info["srcdir"], "cif.h")
    lines = open(path, encoding="latin-1").read().split("\n")
    start = end = None
    for i, l in enumerate(lines, 1):
        if "@defgroup return_codes" in l:
            start = i
        elif start and end is None and re.search(r"@\}", l):
            end = i
    if not start or not end:
        raise Broken("cif.h: doc group return_codes not found")
    codes = {}
    for name, defs in prog.macros.items():
        if not name.startswith("CIF_") or name.startswith("CIF_TRAVERSE_"):
            continue
        for m in defs:
            if not m["file"].endswith("/cif.h") or m["file"].endswith("internal/cif.h"):
                continue
            if m.get("fnlike") or not (start <= m["line"] <= end):
                continue
            body = m["body"].strip()
            v = c_int_literal(body)
            if v is not None:
                codes[name] = v
            elif body and not body.startswith('"'):
                raise Broken("result code %s is not defined by an integer literal (%r): cannot be compared with the table" % (name, body))
    return codes, (start, end)


def run(prog, chk):
    chk.level = "proof"
    chk.explanation = ("Exhaustive comparison of every result code macro in cif.h's return_codes group with the "
                       "positional initialiser of cif_errlist and with cif_nerr, both read from the AST of the "
                       "current tree; finite and complete.")
    codes, span = result_codes(prog, prog.info)
    g = prog.globals.get("cif_errlist")
    if not g or not g.get("init") or g["init"].get("k") != "init":
        raise Broken("cif_errlist initialiser not found")
    msgs = []
    for e in g["init"]["elems"]:
        if e.get("k") != "str":
            raise Broken("cif_errlist element is not a string literal")
        msgs.append(e.get("v", ""))
    gn = prog.globals.get("cif_nerr")
    if not gn or not gn.get("init"):
        raise Broken("cif_nerr not found")
    nerr = const(gn["init"])
    if nerr is None:
        raise Broken("cif_nerr is not a constant expression")
    file, fn_ = "cif.c", "cif_errlist"

    r_n = chk.rule("nerr", "cif_nerr equals the element count of cif_errlist and is computed from the array", floor=1)
    refs = [n for n in walk(gn["init"]) if n.get("k") == "ref" and n.get("name") == "cif_errlist"]
    sizeofs = [n for n in walk(gn["init"]) if n.get("k") == "sizeof"]
    if nerr != len(msgs) or g.get("array_len") != len(msgs):
        r_n.violation(file, "cif_nerr", gn["line"], "nerr-value", "cif_nerr=%s but cif_errlist has %d rows" % (nerr, len(msgs)))
    elif not sizeofs or not refs:
        r_n.violation(file, "cif_nerr", gn["line"], "nerr-derivation", "cif_nerr is not computed from sizeof(cif_errlist)")
    else:
        r_n.ok("cif_nerr", "= %d = sizeof(cif_errlist)/sizeof(cif_errlist[0])" % nerr)

    r_c = chk.rule("code-slot", "every result code is < cif_nerr, its slot is non-empty and carries the stems of its condition",
                   floor=CODE_FLOOR)
    by_val = {}
    for name, v in sorted(codes.items(), key=lambda kv: kv[1]):
        by_val.setdefault(v, []).append(name)
    for v, names in by_val.items():
        if len(names) > 1:
            r_c.violation("cif.h", "return_codes", 0, "dup-value:%d" % v, "codes %s share the value %d" % (names, v))
    for name, v in sorted(codes.items(), key=lambda kv: kv[1]):
        if v >= nerr or v < 0:
            r_c.violation(file, fn_, g["line"], "range:" + name, "%s=%d is outside cif_errlist (cif_nerr=%d)" % (name, v, nerr))
            continue
        msg = msgs[v]
        if not msg.strip():
            r_c.violation(file, fn_, g["line"], "empty:" + name, "cif_errlist[%d] (%s) is empty" % (v, name))
            continue
        if len(msg) >= 80:
            r_c.violation(file, fn_, g["line"], "length:" + name, "message for %s does not fit char[80]" % name)
            continue
        stems = STEMS.get(name)
        if stems is None:
            r_c.info("nostem:" + name, "no frozen stem for %s; generic obligations only" % name)
            r_c.ok(name, "[%d] %r (no stem)" % (v, msg))
            continue
        low = msg.lower()
        missing = [grp for grp in stems if not any(alt in low for alt in grp)]
        if missing:
            r_c.violation(file, fn_, g["line"], "stem:" + name,
                          "cif_errlist[%d] = %r does not describe %s (expected %s)" % (v, msg, name, " & ".join("|".join(x) for x in missing)))
        else:
            r_c.ok(name, "[%d] %r" % (v, msg))

    r_d = chk.rule("distinct", "messages of distinct codes are distinct; every non-empty slot belongs to a defined code", floor=CODE_FLOOR)
    defined = set(codes.values())
    seen = {}
    for i, m in enumerate(msgs):
        if not m.strip():
            continue
        if i not in defined:
            r_d.violation(file, fn_, g["line"], "orphan-slot:%d" % i, "cif_errlist[%d] = %r but no result code has the value %d" % (i, m, i))
            continue
        if m in seen:
            r_d.violation(file, fn_, g["line"], "dup-msg:%d" % i, "cif_errlist[%d] repeats the message of slot %d" % (i, seen[m]))
            continue
        seen[m] = i
        r_d.ok("slot %d" % i, m)
    chk.extra_cov["codes"] = len(codes)
    chk.extra_cov["rows"] = len(msgs)
    chk.extra_cov["return_codes_group_lines"] = list(span)
