"""C08 — independence of line terminators and buffer boundaries: no stale scan-buffer pointer across a refill,
line accounting on every EOL branch, get_more_chars re-bases the whole scan window."""
import re

from ..facts import Broken, strip, const, walk, walk_eval, macro_name, show
from ..interp import path
from .. import cfgq, loops

WINDOW_FIELDS = ("buffer", "next_char", "text_start", "tvalue_start")
REFILL_ROOT = "get_more_chars"


def may_refill(prog):
    out = {REFILL_ROOT}
    changed = True
    fns = [f for f in prog.all_functions() if f.unit == "parser.c"]
    while changed:
        changed = False
        for f in fns:
            if f.name not in out and prog.callees(f) & out:
                out.add(f.name)
                changed = True
    return out


def mentions_window(e):
    for x in walk(e):
        if x.get("k") == "member" and x.get("name") in WINDOW_FIELDS:
            return True
    return False


def is_uchar_ptr(t):
    return (t or "").replace("const ", "").strip() in ("UChar *",)


def derived_locals(fn):
    """Local UChar* variables whose value is derived from the scan window (closed under copies)."""
    cand = {l["name"] for l in fn.locals if is_uchar_ptr(l["t"])}
    assigns = []
    for (b, i, r, n) in fn.eval_sites():
        if n.get("k") == "asg" and n.get("op") == "=":
            lp = path(strip(n.get("lhs")))
            if lp in cand:
                assigns.append((lp, n.get("rhs")))
        elif n.get("k") == "decl":
            for v in n.get("vars", []):
                if v["name"] in cand and v.get("init") is not None:
                    assigns.append((v["name"], v["init"]))
    derived = set()
    changed = True
    while changed:
        changed = False
        for lp, rhs in assigns:
            if lp in derived:
                continue
            if mentions_window(rhs) or any(x.get("k") == "ref" and x.get("name") in derived for x in walk(rhs)):
                derived.add(lp)
                changed = True
    return derived


def stale_analysis(prog, fn, refillers):
    """Forward may-dataflow: set of derived locals that may hold a pointer into a buffer that has since been moved."""
    D = derived_locals(fn)
    if not D:
        return D, [], 0
    IN = {b: None for b in fn.blocks}
    IN[fn.entry] = frozenset()
    work = [fn.entry]
    reports = {}
    n_refills = 0

    def transfer(bid, state, record):
        st = set(state)
        for r in fn.blocks[bid].roots:
            evs = walk_eval(r)
            # reads first (operands are evaluated before the call/assignment of the same root completes)
            lhs_ids = set()
            for n in evs:
                if n.get("k") == "asg" and n.get("op") == "=":
                    l = strip(n.get("lhs"))
                    if isinstance(l, dict) and l.get("k") == "ref":
                        lhs_ids.add(l.get("id"))
            for n in evs:
                k = n.get("k")
                if k == "ref" and n.get("name") in st and n.get("id") not in lhs_ids and n.get("dk") == "local":
                    if record:
                        reports.setdefault((n["name"], n.get("l")), n)
                elif k == "call" and (n.get("callee") in refillers):
                    st |= D
                elif k == "asg" and n.get("op") == "=":
                    lp = path(strip(n.get("lhs")))
                    if lp in D:
                        rhs = n.get("rhs")
                        src_stale = any(x.get("k") == "ref" and x.get("name") in st and x.get("name") != lp for x in walk(rhs))
                        if mentions_window(rhs) and not src_stale:
                            st.discard(lp)
                        elif src_stale:
                            st.add(lp)
                        else:
                            st.discard(lp)
                elif k == "decl":
                    for v in n.get("vars", []):
                        if v["name"] in D:
                            st.discard(v["name"])
        return frozenset(st)

    while work:
        b = work.pop()
        out = transfer(b, IN[b], False)
        for s in fn.blocks[b].succs:
            if s is None:
                continue
            new = out if IN[s] is None else (IN[s] | out)
            if new != IN[s]:
                IN[s] = new
                work.append(s)
    for b in fn.blocks:
        if IN[b] is not None:
            transfer(b, IN[b], True)
    for (bb, i, r, n) in fn.calls():
        if n.get("callee") in refillers:
            n_refills += 1
    return D, sorted(reports.items(), key=lambda kv: (kv[0][1] or 0)), n_refills


def stale_pointer_rule(prog, chk, rid="R1", primary=True):
    refillers = may_refill(prog)
    r1 = chk.rule(rid + "-no-stale-window-pointer", "no local derived from the scan window is read after a (transitive) call to "
                  "get_more_chars without being re-derived", floor=6, primary=primary)
    n_locals = 0
    for fn in prog.all_functions():
        if fn.unit != "parser.c":
            continue
        D, reports, n_refills = stale_analysis(prog, fn, refillers)
        if not D or not n_refills:
            continue
        n_locals += len(D)
        seen = set()
        for (name, line), n in reports:
            if name in seen:
                continue
            seen.add(name)
            r1.violation(fn.file, fn.name, line, "stale-pointer:%s:%s" % (fn.name, name),
                         "`%s` was derived from the scan window before a call that may refill (move or re-allocate) the buffer and "
                         "is read again at L%s without being re-derived" % (name, line))
        for name in sorted(D - seen):
            r1.ok("%s:%s" % (fn.name, name), "re-derived after every refill before use (%d refill sites)" % n_refills)
    if n_locals < 10:
        raise Broken("only %d window-derived locals found" % n_locals)
    chk.extra_cov["may_refill_functions"] = sorted(refillers)



def run(prog, chk):
    chk.level = "other"
    chk.explanation = ("Two necessary conditions of buffer-boundary independence, decided on the scanner's code: no local pointer "
                       "derived from the scan window (buffer / next_char / text_start / tvalue_start) is read after a call that "
                       "may reach get_more_chars (which moves or re-allocates the buffer) without being re-derived — a may-"
                       "dataflow over every function of parser.c; every scanner branch taken on an end-of-line character either "
                       "un-reads it or performs the line accounting, and the two copies of that accounting agree; "
                       "get_more_chars re-bases all window pointers whenever it moves the data.  The arithmetic of per-fill "
                       "CR LF folding is value-level and not decided.")
    stale_pointer_rule(prog, chk)
    r9 = chk.rule("R9-wide-copy-sizes-in-bytes", "every memcpy / memmove of the scan buffer (UChar elements) and of other wide objects has "
                  "its size built with sizeof, every u_memcpy / u_memmove counts UChars: a token carried over a buffer move or "
                  "enlargement arrives whole", primary=False, floor=15)
    from .. import memrules as _mr
    if _mr.wide_copy_sizes(prog, r9) < 15:
        raise Broken("fewer than 15 memcpy-family calls found")
    r2 = chk.rule("R2-line-accounting", "every scan function that consumes an end-of-line character performs the HANDLE_EOL "
                  "accounting (over-length check, CR LF state, line += ..., column = 0) or un-reads it; both copies of the "
                  "accounting agree", floor=4)
    scanners = [f for f in prog.all_functions() if f.unit == "parser.c" and (f.name.startswith("scan_") or f.name in ("next_token",))]

    def eol_tests(fn):
        out = []
        for b in fn.blocks.values():
            if b.label and b.label.get("k") == "case" and (b.label.get("ms") or [None])[0] == "EOL_CLASS":
                out.append(("case", b.id, b))
            c = cfgq.cond_of(fn, b)
            if c is not None:
                cs = strip(c)
                if cs.get("k") == "bin" and cs.get("op") == "==" and macro_name(cs.get("rhs")) == "EOL_CLASS" and len(b.succs) == 2 and b.succs[0] is not None:
                    out.append(("if", b.succs[0], b))
        return out

    def line_stores(fn):
        return [(b.id, i, n) for (b, i, r, n) in fn.eval_sites("asg") if re.search(r"(->|\.)line$", path(strip(n.get("lhs"))) or "")
                and n.get("op") == "+="]

    def backups(fn):
        return [(b.id, i) for (b, i, r, n) in fn.eval_sites("asg") if "BACK_UP" in (n.get("ms") or [])
                and (path(strip(n.get("lhs"))) or "").endswith("next_char")]
    n_eol = 0
    for fn in scanners:
        tests = eol_tests(fn)
        if not tests:
            continue
        ls = [(b, i) for (b, i, n) in line_stores(fn)]
        bu = backups(fn)
        gotos_out = []
        for kind, start, tb in tests:
            n_eol += 1
            # from the EOL branch, the function must not reach the next character fetch / its exit without
            # the accounting or a BACK_UP
            barrier = {b for (b, i) in ls + bu}
            if start in barrier:
                r2.ok("%s:EOL@L%s" % (fn.name, tb.term.get("l") if tb.term else tb.label.get("l")), "accounted or un-read")
                continue
            free = cfgq.reach(fn, [start], barrier)
            fetch = {b.id for (b, i, r, n) in fn.calls() if n.get("callee") == REFILL_ROOT}
            scan_more = set()
            for (b, i, r, n) in fn.eval_sites("asg"):
                if (path(strip(n.get("lhs"))) or "").endswith("next_char") and n.get("op") == "+=" and \
                        "BACK_UP" not in (n.get("ms") or []):
                    scan_more.add(b.id)
            line = tb.term.get("l") if tb.term else (tb.label or {}).get("l")
            if (free & scan_more) or (fn.exit in free and False):
                r2.violation(fn.file, fn.name, line, "eol-unaccounted:%s" % fn.name,
                             "after an end-of-line character the scan continues with the next character without line accounting or BACK_UP")
            else:
                r2.ok("%s:EOL@L%s" % (fn.name, line), "accounted or un-read before the next character is scanned")
    if n_eol < 4:
        raise Broken("only %d end-of-line branches found in the scanners" % n_eol)

    def accounting_shape(nodes):
        """Structural fingerprint of one copy of the EOL accounting."""
        fp = []
        for n in nodes:
            if n.get("k") == "bin" and n.get("op") == ">" and macro_name(n.get("rhs")) == "CIF_LINE_LENGTH":
                fp.append("col>LINE_LENGTH")
            if n.get("k") == "call" and not n.get("callee") and n.get("args") and macro_name(n["args"][0]) == "CIF_OVERLENGTH_LINE":
                fp.append("report OVERLENGTH")
            if n.get("k") == "asg" and re.search(r"(->|\.)line$", path(strip(n.get("lhs"))) or ""):
                consts = sorted({const(x) for x in walk(n.get("rhs")) if const(x) is not None and x.get("k") == "int"})
                fp.append("line %s %s" % (n.get("op"), consts))
            if n.get("k") == "asg" and re.search(r"(->|\.)column$", path(strip(n.get("lhs"))) or "") and n.get("op") == "=":
                fp.append("column = %s" % const(n.get("rhs")))
            if n.get("k") == "bin" and n.get("op") == "&" and const(n.get("rhs")) == 0xf:
                fp.append("state & 0xf")
            if n.get("k") == "bin" and n.get("op") == "<<" and const(n.get("rhs")) == 2:
                fp.append("state << 2")
        return fp
    copies = {}
    for fn in scanners:
        macro_nodes = [n for (b, i, r, n) in fn.eval_sites() if "HANDLE_EOL" in (n.get("ms") or [])]
        if macro_nodes:
            copies.setdefault("HANDLE_EOL", set()).add(tuple(sorted(set(accounting_shape(macro_nodes)))))
        if fn.name == "scan_text":
            own = [n for (b, i, r, n) in fn.eval_sites() if "HANDLE_EOL" not in (n.get("ms") or [])]
            fp = tuple(sorted(set(accounting_shape(own))))
            if fp:
                copies.setdefault("scan_text", set()).add(fp)
    if "HANDLE_EOL" not in copies:
        raise Broken("HANDLE_EOL expansions not found")
    he = copies["HANDLE_EOL"]
    if len(he) != 1:
        r2.violation("parser.c", "HANDLE_EOL", 0, "handle-eol-expansions-differ", "expansions of HANDLE_EOL differ: %s" % sorted(he))
    else:
        fp = next(iter(he))
        need = {"col>LINE_LENGTH", "report OVERLENGTH", "state & 0xf", "state << 2"}
        if need <= set(fp) and any(x.startswith("line +=") for x in fp):
            r2.ok("HANDLE_EOL:shape", ", ".join(fp))
        else:
            r2.violation("parser.c", "HANDLE_EOL", 0, "handle-eol-shape", "HANDLE_EOL lacks part of the accounting: %s" % (fp,))
        st = copies.get("scan_text")
        if st:
            sfp = next(iter(st))
            common = {x for x in fp if not x.startswith("line +=")}
            missing = [x for x in common if x not in sfp and x in ("col>LINE_LENGTH", "report OVERLENGTH")]
            if missing:
                r2.violation("parser.c", "scan_text", 0, "scan_text-accounting", "scan_text's own end-of-line handling lacks %s" % missing)
            else:
                r2.ok("scan_text:own-accounting", ", ".join(sfp))

    fold_rule(prog, chk)
    refill_transparency(prog, chk)
    source_accounting(prog, chk)
    drained_mark(prog, chk)
    lookahead_drop(prog, chk)
    r3 = chk.rule("R3-window-rebased", "whenever get_more_chars moves the buffered data it re-bases text_start, tvalue_start, "
                  "next_char and buffer_limit", primary=False, floor=2)
    g = prog.fn(REFILL_ROOT)
    movers = [(b.id, i, n) for (b, i, r, n) in g.calls() if n.get("callee") in ("memmove", "memcpy", "u_memmove", "u_memcpy")
              and any(x.get("k") == "member" and x.get("name") in ("buffer", "text_start") for a in n.get("args", [])[:2] for x in walk(a))]
    movers = [m for m in movers if any(x.get("k") == "member" and x.get("name") == "text_start" for x in walk(m[2]["args"][1]))]
    if not movers:
        raise Broken("get_more_chars: the data-moving calls were not found")
    for (bid, idx, n) in movers:
        missing = []
        for fld in ("text_start", "tvalue_start", "next_char", "buffer_limit"):
            stores = [(b.id, i) for (b, i, r, a) in g.eval_sites("asg") if (path(strip(a.get("lhs"))) or "").endswith("->" + fld) and a.get("op") == "="]
            after = [s for s in stores if s[0] in cfgq.reach(g, [bid]) and s != (bid, idx)]
            if not after or not cfgq.must_follow(g, (bid, idx), after):
                # failure exits (allocation failed) need no re-basing
                missing.append(fld)
        if missing:
            r3.violation(g.file, g.name, n.get("l"), "not-rebased:%s" % n.get("callee"),
                         "after %s at L%s a path reaches the exit without re-basing %s" % (n.get("callee"), n.get("l"), missing))
        else:
            r3.ok("%s@L%s" % (n.get("callee"), n.get("l")), "all four window fields re-based on every path")

    r3b = chk.rule("R3b-rebase-keeps-offsets", "where get_more_chars moves data that is kept (from text_start to the start of the "
                   "buffer), each window pointer other than text_start is re-based with a distance measured before the move - the "
                   "value stored mentions a local computed from the old window - so that the token value does not slide onto "
                   "the start of the token text", primary=False, floor=2)
    WINDOW = ("text_start", "tvalue_start", "next_char", "buffer", "buffer_limit")
    n3b = 0
    for (bid, idx, n) in movers:
        before = {bb.id for bb in g.blocks.values() if bid in cfgq.reach(g, [bb.id])} | {bid}
        # locals that carry something measured on the old window
        carried = set()
        changed = True
        while changed:
            changed = False
            for (b2, i2, r2, a_) in g.eval_sites():
                pairs = []
                if a_.get("k") == "asg" and a_.get("op") == "=":
                    pairs.append((path(strip(a_.get("lhs"))), a_.get("rhs")))
                elif a_.get("k") == "decl":
                    pairs.extend((v["name"], v.get("init")) for v in a_.get("vars", []) if v.get("init") is not None)
                for nm, rhs in pairs:
                    if not nm or not re.match(r"^\w+$", nm) or nm in carried or b2.id not in before or (b2.id == bid and i2 > idx):
                        continue
                    for x in walk(rhs):
                        if (x.get("k") == "member" and x.get("name") in WINDOW) or (x.get("k") == "ref" and x.get("name") in carried):
                            carried.add(nm)
                            changed = True
                            break
        after = cfgq.reach(g, [bid]) | {bid}
        # locals computed after the move from the carried ones carry the measurement on
        changed = True
        while changed:
            changed = False
            for (b2, i2, r2, a_) in g.eval_sites():
                pairs = []
                if a_.get("k") == "asg":
                    pairs.append((path(strip(a_.get("lhs"))), a_.get("rhs")))
                elif a_.get("k") == "decl":
                    pairs.extend((v["name"], v.get("init")) for v in a_.get("vars", []) if v.get("init") is not None)
                for nm, rhs in pairs:
                    if nm and re.match(r"^\w+$", nm) and nm not in carried and \
                            any(x.get("k") == "ref" and x.get("name") in carried for x in walk(rhs)):
                        carried.add(nm)
                        changed = True
        for fld in ("tvalue_start", "next_char"):
            for (b2, i2, r2, a_) in g.eval_sites("asg"):
                if not (path(strip(a_.get("lhs"))) or "").endswith("->" + fld) or a_.get("op") != "=" or b2.id not in after \
                        or (b2.id == bid and i2 < idx):
                    continue
                key = "%s@L%s:%s@L%s" % (n.get("callee"), n.get("l"), fld, a_.get("l"))
                if key in {k_ for k_ in getattr(r3b, "_seen", set())}:
                    continue
                r3b._seen = getattr(r3b, "_seen", set()) | {key}
                n3b += 1
                refs = {x.get("name") for x in walk(a_.get("rhs")) if x.get("k") == "ref"}
                if refs & carried:
                    r3b.ok(key, "re-based with %s, measured before the move" % ", ".join(sorted(refs & carried)))
                else:
                    from ..facts import show as _show
                    r3b.violation(g.file, g.name, a_.get("l"), "rebase-drops-offset:%s" % fld,
                                  "after the buffered data was moved (%s at L%s) `%s` is set to `%s`, which carries over nothing measured "
                                  "on the old window: its distance from the start of the token text is lost, and a token value whose "
                                  "text is being kept slides onto the text start (the opening delimiter)"
                                  % (n.get("callee"), n.get("l"), fld, _show(a_.get("rhs"))[:50]))
    if n3b < 2:
        raise Broken("fewer than 2 re-basing stores after a data move in get_more_chars")


def fold_rule(prog, chk):
    """R4: in get_more_chars' CR LF folding loop every compaction move removes one character from the data, so the
    count of characters read must be decremented on every path to that move (once per move)."""
    r4 = chk.rule("R4-crlf-fold-count", "in get_more_chars each compaction move of the CR LF folding loop is preceded, on every "
                  "path since the previous move, by a decrement of the character count", primary=False, floor=1)
    g = prog.fn(REFILL_ROOT)
    moves = [(b.id, i, n) for (b, i, r, n) in g.calls() if n.get("callee") in ("u_memmove",)
             and path(strip(n["args"][0])) == "dest"]
    decs = [(b.id, i) for (b, i, r, n) in g.eval_sites("asg") if path(strip(n.get("lhs"))) == "nread" and n.get("op") == "-="
            and const(n.get("rhs")) == 1]
    if not moves or not decs:
        r4.info("fold-loop", "the folding loop has a different shape (no `u_memmove(dest, ...)` / `nread -= 1`): rule not applicable")
        r4.ok("fold-loop:not-applicable", "shape changed; nothing judged")
        return
    for (bid, idx, n) in moves:
        fact = cfgq.MustFact(g, gen_sites=decs, kill_sites=[(bid, idx + 1)]).at(bid, idx)
        if fact:
            r4.ok("u_memmove@L%s" % n.get("l"), "one `nread -= 1` on every path to the move")
        else:
            r4.violation(g.file, g.name, n.get("l"), "fold-count:u_memmove",
                         "a path reaches the compaction move at L%s (which drops one character of a CR LF pair) without `nread -= 1`: "
                         "the count of valid characters stays one too large and a stale character is appended" % n.get("l"))


def refill_transparency(prog, chk):
    """R5: in a scan function the per-character loop sits inside a per-buffer loop that calls get_more_chars.  The state a
    scan carries from one character to the next (locals written in the inner loop and read there before being re-written)
    must be carried across a refill unchanged: on the part of the outer loop outside the inner one, such a variable is
    neither re-declared with an initialiser nor assigned a constant."""
    r5 = chk.rule("R5-refill-transparent-state", "per-character scan state (locals carried round the inner loop) is not reset or "
                  "re-initialised on the refill path of the enclosing per-buffer loop", floor=5)
    n_pairs = 0
    for fn in prog.all_functions():
        calls = [b.id for (b, i, r, n) in fn.calls_to(REFILL_ROOT)]
        if not calls or fn.name == REFILL_ROOT:
            continue
        lps = loops.natural_loops(fn)
        for lo in lps:
            cb = [b for b in calls if b in lo.body]
            if not cb:
                continue
            for li in lps:
                if li is lo or not (li.body < lo.body) or any(b in li.body for b in cb):
                    continue
                ev, cs, dw, dr = loops.loop_rw(li)
                written = {p for b in ev for (k, p) in ev[b] if k == "w" and loops._plain(p)}
                carried = sorted(v for v in written if loops.upward_exposed(li, v, ev))
                if not carried:
                    continue
                n_pairs += 1
                bad = []
                soft = []
                for b in lo.body - li.body:
                    for r in fn.blocks[b].roots:
                        for n in walk_eval(r):
                            if n.get("k") == "decl":
                                for v in n.get("vars", []):
                                    if v["name"] in carried and v.get("init") is not None:
                                        bad.append((v["name"], n.get("l"), "re-declared with the initialiser `%s`" % show(v["init"])[:30]))
                            elif n.get("k") == "asg" and path(strip(n.get("lhs"))) in carried:
                                if n.get("op") == "=" and const(n.get("rhs")) is not None:
                                    bad.append((path(strip(n.get("lhs"))), n.get("l"), "assigned the constant `%s`" % show(n.get("rhs"))[:30]))
                                else:
                                    soft.append((path(strip(n.get("lhs"))), n.get("l")))
                key = "%s:inner@%d" % (fn.name, li.header)
                for (v, l, how) in bad:
                    r5.violation(fn.file, fn.name, l, "state-reset-on-refill:%s:%s" % (fn.name, v),
                                 "`%s` carries scan state from one character to the next (written and read round the inner loop at "
                                 "L%s), but on the refill path of the enclosing loop it is %s (L%s): what the scan has seen so far is "
                                 "forgotten whenever the construct straddles a buffer boundary" % (v, li.line(), how, l))
                if not bad:
                    if soft:
                        r5.unproved(key, "carried %s; re-computed (not reset) on the refill path at %s" % (carried, soft[:3]))
                    else:
                        r5.ok(key, "carried across refills untouched: %s" % ", ".join(carried))
    if n_pairs < 5:
        raise Broken("only %d scan loops with a per-buffer / per-character nesting found" % n_pairs)


def _is_read_func(n):
    return n.get("k") == "call" and n.get("callee") is None and n.get("fn") is not None \
        and (path(strip(n["fn"])) or "").endswith("read_func")


def source_accounting(prog, chk):
    """R6: every character the character source delivers ends up in the scan window, and a CR LF pair is one line
    terminator even when the two characters arrive in different reads.
      (a) after `n = read_func(src, dest, MAX, ...)` with MAX other than the constant 1, every later store to buffer_limit on
          the way out mentions n (a constant increment would drop the other characters read);
      (b) in get_more_chars a CR is rewritten to a newline either where the following character is known to be inside the
          data just read (`p + 1 < end` holds), or the function records in the scanner that the read ended in a CR, so that
          the next call can drop the LF completing the pair."""
    r6 = chk.rule("R6-character-source-accounting", "all characters obtained from read_func are added to buffer_limit; a CR ending "
                  "a read is remembered in the scanner (or only rewritten with its successor in view)", floor=3)
    n_reads = 0
    for fn in prog.all_functions():
        if fn.unit != "parser.c":
            continue
        for (b, i, r, c) in fn.eval_sites("call"):
            if not _is_read_func(c) or len(c.get("args", [])) < 3:
                continue
            n_reads += 1
            mx = const(c["args"][2])
            resvar = None
            for x in walk(r):
                if x.get("k") == "asg" and any(y.get("id") == c.get("id") for y in walk(x.get("rhs"))):
                    resvar = path(strip(x.get("lhs")))
            key = "%s:read_func@L%s" % (fn.name, c.get("l"))
            after = cfgq.reach(fn, [b.id])
            stores = [(b2, i2, a) for (b2, i2, r2, a) in fn.eval_sites("asg")
                      if (path(strip(a.get("lhs"))) or "").endswith("buffer_limit") and ((b2.id == b.id and i2 > i) or (b2.id != b.id and b2.id in after))]
            if mx == 1:
                r6.ok(key, "asks for one character")
                continue
            bad = None
            for (b2, i2, a) in stores:
                mentions = resvar is not None and any(path(y) == resvar for y in walk(a.get("rhs")) if y.get("k") == "ref")
                if not mentions and a.get("op") in ("+=", "="):
                    # a reset to 0 / to the count of retained characters before the read is not an accounting store
                    if cfgq.must_precede(fn, (b.id, i), [(b2.id, i2)]) and not (b2.id in after and b2.id != b.id):
                        continue
                    bad = a
            if bad is not None and resvar is not None:
                r6.violation(fn.file, fn.name, bad.get("l"), "read-not-accounted:%s" % fn.name,
                             "read_func is asked for up to `%s` characters at L%s, but afterwards buffer_limit is updated by `%s` "
                             "(L%s), which does not depend on the number read (%s): every character beyond the first is dropped"
                             % (show(c["args"][2]), c.get("l"), show(bad), bad.get("l"), resvar))
            else:
                r6.ok(key, "buffer_limit updated from the count read")
    if n_reads < 3:
        raise Broken("only %d read_func call sites found" % n_reads)
    # (b)
    g = prog.fn(REFILL_ROOT)
    CR, NL = 13, 10
    rewrites = [(b.id, i, a) for (b, i, r, a) in g.eval_sites("asg")
                if strip(a.get("lhs")).get("k") == "un" and strip(a.get("lhs")).get("op") == "*" and const(a.get("rhs")) == NL]
    if not rewrites:
        raise Broken("no `*p = UCHAR_NL` rewrite found in %s" % REFILL_ROOT)

    def ahead(cnd):
        c = strip(cnd)
        if isinstance(c, dict) and c.get("k") == "bin" and c.get("op") == "<":
            l = strip(c.get("lhs"))
            if isinstance(l, dict) and l.get("k") == "bin" and l.get("op") == "+" and const(l.get("rhs")) == 1:
                return "true"
        return None
    ge = cfgq.guard_edges(g, ahead)
    blind = [(bid, idx, a) for (bid, idx, a) in rewrites if not (ge and cfgq.must_pass_edge(g, bid, ge))]
    remembered = []
    stale_tests = []
    for (b, i, r, a) in g.eval_sites("asg"):
        lp = path(strip(a.get("lhs"))) or ""
        if lp.startswith("scanner->") and const(a.get("rhs")) is None and strip(a.get("lhs")).get("k") == "member":
            # `scanner->f = (<last character> == CR)`: the comparison itself is stored
            cmp_cr = [y for y in walk(a.get("rhs")) if y.get("k") == "bin" and y.get("op") == "==" and CR in (const(y.get("lhs")), const(y.get("rhs")))]
            if cmp_cr:
                late = [(rb, ra) for (rb, ri, ra) in rewrites if b.id in cfgq.reach(g, [rb]) and not (rb == b.id and ri > i)]
                if late:
                    stale_tests.append((lp, a.get("l"), late[0][1].get("l")))
                else:
                    remembered.append((lp, a.get("l")))
            continue
        if lp.startswith("scanner->") and const(a.get("rhs")) not in (None, 0):
            # guarded by a test that some character equals CR?
            def is_cr(cnd):
                c = strip(cnd)
                if isinstance(c, dict) and c.get("k") == "bin" and c.get("op") == "==" and CR in (const(c.get("lhs")), const(c.get("rhs"))):
                    return "true"
                return None
            ce = cfgq.guard_edges(g, is_cr)
            if ce and cfgq.must_pass_edge(g, b.id, ce):
                # the test must look at the data as read: no rewrite may be able to run before it
                late = [(rb, ra) for (rb, ri, ra) in rewrites for (tb, te) in ce if tb in cfgq.reach(g, [rb])]
                if late:
                    stale_tests.append((lp, a.get("l"), late[0][1].get("l")))
                else:
                    remembered.append((lp, a.get("l")))
    if not blind:
        r6.ok("%s:cr-rewrite" % REFILL_ROOT, "%d rewrite(s), each with the successor in view" % len(rewrites))
    elif remembered:
        r6.ok("%s:cr-rewrite" % REFILL_ROOT, "a read ending in CR is recorded in %s (L%s)" % remembered[0])
    elif stale_tests:
        lp, l1, l2 = stale_tests[0]
        r6.violation(g.file, g.name, l1, "cr-test-after-rewrite:%s" % REFILL_ROOT,
                     "`%s` is set (L%s) under a test for CR that can run after the CR rewrite at L%s: a CR ending the read has "
                     "already been turned into a newline by then, so the read is not remembered as ending in CR and the LF that "
                     "opens the next read counts as a second terminator" % (lp, l1, l2))
    else:
        bid, idx, a = blind[0]
        r6.violation(g.file, g.name, a.get("l"), "cr-at-end-of-read:%s" % REFILL_ROOT,
                     "the CR at L%s is rewritten to a newline also when it is the last character of the read (the guard `p + 1 < "
                     "end` failed), and nothing is stored in the scanner to say so: if the next read starts with the LF of the same "
                     "CR LF pair, that LF is delivered as a second line terminator" % a.get("l"))


def drained_mark(prog, chk):
    """R7: the byte-to-character source marks itself drained (a positive end-of-file status, after which it delivers nothing
    more) only where the converter consumed all buffered bytes: on every path from the conversion call to such a store the
    converter's status was tested to be something other than U_BUFFER_OVERFLOW_ERROR (it stopped because the destination
    was full, with input left over)."""
    r7 = chk.rule("R7-drained-only-when-converted", "a character source stores its `drained` end-of-file mark only on paths where "
                  "the converter status excludes U_BUFFER_OVERFLOW_ERROR (unconverted bytes would be dropped otherwise)", floor=1)
    ovf = None
    for e in prog.enums.values():
        for c in e.get("consts", e.get("values", [])) if isinstance(e, dict) else []:
            if c.get("name") == "U_BUFFER_OVERFLOW_ERROR":
                ovf = c.get("v", c.get("value"))
    n = 0
    for fn in prog.all_functions():
        convs = fn.calls_to("ucnv_toUnicode")
        if not convs:
            continue
        for (cb, ci, cr, call) in convs:
            st = strip(call["args"][-1]) if call.get("args") else None
            if not (isinstance(st, dict) and st.get("k") == "un" and st.get("op") == "&" and path(st.get("e"))):
                raise Broken("%s: status argument of ucnv_toUnicode is not `&variable`" % fn.name)
            svar = path(st.get("e"))
            if ovf is None:
                # the constant as the code spells it
                for (b, i, r, x) in fn.eval_sites("ref"):
                    if x.get("name") == "U_BUFFER_OVERFLOW_ERROR" and "cv" in x:
                        ovf = x["cv"]
            if ovf is None:
                ovf = 15

            def excl(cnd):
                t = cfgq.cmp_test(cnd, lambda e: path(strip(e)) == svar)
                if t is None:
                    return None
                op, c = t
                if (op, c) == ("==", ovf):
                    return "false"
                if (op, c) == ("!=", ovf):
                    return "true"
                if op in ("==",) and c != ovf:
                    return "true"
                if op in (">", ">=") and c < ovf:       # U_FAILURE(x): x > U_ZERO_ERROR
                    return "false" if (c if op == ">" else c - 1) < ovf else None
                if op in ("<", "<=") and (c if op == "<=" else c - 1) < ovf:   # U_SUCCESS(x): x <= U_ZERO_ERROR
                    return "true"
                return None
            edges = cfgq.guard_edges(fn, excl)
            marks = []
            for (b, i, r, a) in fn.eval_sites("asg"):
                lp = path(strip(a.get("lhs"))) or ""
                v = const(a.get("rhs"))
                if lp.endswith("eof_status") and a.get("op") == "=" and v is not None and v > 0:
                    marks.append((b, i, a))
            for (b, i, a) in marks:
                n += 1
                if b.id == cb.id:
                    r7.violation(fn.file, fn.name, a.get("l"), "drained-unchecked:%s" % fn.name,
                                 "the drained mark is stored right after the conversion without testing its status")
                    continue
                free = cfgq.reach(fn, [cb.id], (), edges)
                if b.id in free:
                    r7.violation(fn.file, fn.name, a.get("l"), "drained-with-unconverted-input:%s" % fn.name,
                                 "`%s = %s` at L%s can be reached from the conversion at L%s on a path where `%s` may be "
                                 "U_BUFFER_OVERFLOW_ERROR (the destination filled up before the buffered bytes were all converted): "
                                 "the source is marked drained, later reads deliver nothing, and the rest of the final block is "
                                 "silently dropped" % (path(strip(a.get("lhs"))), const(a.get("rhs")), a.get("l"), call.get("l"), svar))
                else:
                    r7.ok("%s:L%s" % (fn.name, a.get("l")), "status tested against overflow on every path from the conversion (L%s)" % call.get("l"))
    if n < 1:
        raise Broken("no drained mark (positive eof_status store) found after a ucnv_toUnicode call")


def lookahead_drop(prog, chk):
    """R8: get_first_char reads one character of look-ahead after an initial CR and delivers it unless it completes a CR LF pair.
    The only character that may be dropped is LF: every branch condition that looks at the look-ahead character (the second
    element of the buffer) compares it with UCHAR_NL by == or != - a class test would also swallow a second CR or an extra
    end-of-line character, which is a line terminator of its own."""
    r8 = chk.rule("R8-only-lf-completes-cr", "the look-ahead character read after an initial CR is tested against UCHAR_NL only "
                  "(== / !=): nothing but the LF of a CR LF pair is ever dropped", primary=False, floor=1)
    fn = prog.fn("get_first_char")
    n = 0

    def second_slot(inner):
        inner = strip(inner)
        return isinstance(inner, dict) and inner.get("k") == "bin" and inner.get("op") == "+" and \
            (path(strip(inner.get("lhs"))) or "").endswith("buffer") and const(inner.get("rhs")) == 1
    # locals that point at the second slot (`UChar *second = scanner->buffer + 1;`)
    ptrs = set()
    for (b0, i0, r0, x) in fn.eval_sites("decl"):
        for v in x.get("vars", []):
            if v.get("init") is not None and second_slot(v["init"]):
                ptrs.add(v["name"])
    for (b0, i0, r0, x) in fn.eval_sites("asg"):
        if x.get("op") == "=" and second_slot(x.get("rhs")) and path(strip(x.get("lhs"))):
            ptrs.add(path(strip(x.get("lhs"))))

    def is_lookahead(e):
        e = strip(e)
        if not isinstance(e, dict):
            return False
        if e.get("k") == "index" and const(e.get("idx")) == 1 and (path(strip(e.get("base"))) or "").endswith("buffer"):
            return True
        if e.get("k") == "index" and const(e.get("idx")) == 0 and path(strip(e.get("base"))) in ptrs:
            return True
        if e.get("k") == "un" and e.get("op") == "*":
            return second_slot(e.get("e")) or path(strip(e.get("e"))) in ptrs
        return False
    for b in fn.blocks.values():
        c = cfgq.cond_of(fn, b)
        if c is None or len(b.succs) != 2:
            continue
        if not any(is_lookahead(x) for x in walk(c)):
            continue
        n += 1
        cs = strip(c)
        okk = isinstance(cs, dict) and cs.get("k") == "bin" and cs.get("op") in ("==", "!=") and \
            ((is_lookahead(cs.get("lhs")) and const(cs.get("rhs")) == 0x0A) or (is_lookahead(cs.get("rhs")) and const(cs.get("lhs")) == 0x0A))
        key = "get_first_char:L%s" % (b.term.get("l") if b.term else "?")
        if okk:
            r8.ok(key, "compares the look-ahead character with UCHAR_NL")
        else:
            from ..facts import show as _show
            r8.violation(fn.file, fn.name, b.term.get("l") if b.term else fn.line, "lookahead-test-not-lf",
                         "the look-ahead character after an initial CR is tested with `%s`, not by comparison with UCHAR_NL: "
                         "characters other than the LF of a CR LF pair (a second CR, an extra end-of-line character) can be "
                         "dropped, and every later line number is one too low" % _show(cs)[:70])
    if n < 1:
        raise Broken("get_first_char: no test of the look-ahead character found")

