"""C18 — string analysis and quoting agree with the parser: special-character sets, reserved words, margins."""
import re

from ..facts import Broken, strip, const, walk, walk_eval, macro_name, show
from ..interp import path
from .. import cfgq, scantab
from . import c01


def _chars(cs):
    return "{" + ",".join("U+%04X" % c for c in sorted(cs)) + "}"


def scanner_sets(prog):
    tabs = scantab.ScannerTables(prog)
    cc = tabs.char_class(2)
    meta, default = tabs.meta_of_class(2)
    by_meta = {}
    by_class = {}
    for c, (cname, val) in cc.items():
        by_class.setdefault(cname, set()).add(c)
        by_meta.setdefault(meta.get(cname, default), set()).add(c)
    return tabs, by_class, by_meta


def analyzer_sets(fn):
    """(anywhere set, first-position set, single-char set) from cif_analyze_string's unquoted test."""
    anywhere = set()
    first = set()
    for b in fn.blocks.values():
        c = cfgq.cond_of(fn, b)
        if c is None:
            continue
        c = strip(c)
        if c.get("k") == "bin" and c.get("op") == "==" and const(c.get("rhs")) == 0:
            idxs = [const(x.get("idx")) for x in walk(c.get("lhs")) if x.get("k") == "index" and path(strip(x.get("base"))) == "char_counts"]
            if len(idxs) >= 2 and None not in idxs:
                anywhere |= set(idxs)
        if c.get("k") == "bin" and c.get("op") == "!=":
            l = strip(c.get("lhs"))
            if isinstance(l, dict) and l.get("k") == "index" and path(strip(l.get("base"))) == "str" and const(l.get("idx")) == 0:
                v = const(c.get("rhs"))
                if v is not None:
                    first.add((v, b.id))
    return anywhere, first


def reserved_string_model(fn):
    """cif_is_reserved_string -> (first-char set returning 1, {word: 'prefix'|'exact'})."""
    nodes = fn.nodes()
    switches = []
    for b in fn.blocks.values():
        if b.term and b.term.get("k") == "SwitchStmt":
            c = strip(cfgq.cond_of(fn, b))
            if isinstance(c, dict) and c.get("k") == "index" and path(strip(c.get("base"))) == "str":
                switches.append((b, const(c.get("idx"))))
    if not switches:
        raise Broken("cif_is_reserved_string: switch on str[k] not found")       # the outer dispatch on the first character
    rets = {n["id"]: (b.id, i, n) for (b, i, r, n) in fn.returns()}
    # constraints from case labels: ret id -> {k: set(values)}
    cons = {rid: {} for rid in rets}
    for (sb, k) in switches:
        for s in sb.succs:
            if s is None:
                continue
            lab = fn.blocks[s].label
            if not lab or lab.get("k") != "case":
                continue
            # blocks reachable from this label without passing another label of the same switch that is not a fall-through
            reach = cfgq.reach(fn, [s])
            for rid, (rb, ri, rn) in rets.items():
                if rb in reach:
                    cons[rid].setdefault(k, set()).add(lab["v"])
    # the same selection written with if / else-if: `str[k] == V` whose true outcome leads to the return
    for b in fn.blocks.values():
        if len(b.succs) != 2 or b.succs[0] is None:
            continue
        c = cfgq.cond_of(fn, b)
        cs = strip(c) if c is not None else None
        if not (isinstance(cs, dict) and cs.get("k") == "bin" and cs.get("op") == "=="):
            continue
        l = strip(cs.get("lhs"))
        if not (isinstance(l, dict) and l.get("k") == "index" and path(strip(l.get("base"))) == "str"):
            continue
        k, v = const(l.get("idx")), const(cs.get("rhs"))
        if k is None or v is None:
            continue
        # only selections made by statements (the terminator is an if or a short-circuit operand of one), not the
        # comparisons inside a returned expression
        reach_t = cfgq.reach(fn, [b.succs[0]]) | {b.succs[0]}
        for rid, (rb, ri, rn) in rets.items():
            if rb in reach_t and not any(x.get("id") == cs.get("id") for x in walk(rn.get("e") or {})):
                cons[rid].setdefault(k, set()).add(v)
    first_one = set()
    words = {}
    for rid, (rb, ri, rn) in rets.items():
        e = strip(rn.get("e"))
        if e is None:
            continue
        if const(e) == 1:
            first_one |= cons[rid].get(0, set())
            continue
        if const(e) == 0:
            continue
        # conjunction of (str[i]==X || str[i]==x) / str[i]==C
        pos = {k: set(v) for k, v in cons[rid].items()}
        for x in walk(e):
            if x.get("k") == "bin" and x.get("op") == "==":
                l = strip(x.get("lhs"))
                if isinstance(l, dict) and l.get("k") == "index" and path(strip(l.get("base"))) == "str":
                    i, v = const(l.get("idx")), const(x.get("rhs"))
                    if i is not None and v is not None:
                        pos.setdefault(i, set()).add(v)
        # the case-label constraint of an outer switch also reaches inner returns: keep the smallest sets
        word = ""
        exact = False
        okcase = True
        for i in range(0, max(pos) + 1):
            vs = pos.get(i, set())
            if vs == {0}:
                exact = True
                break
            letters = {chr(v).lower() for v in vs if 32 <= v < 127}
            if len(letters) != 1:
                word += "?"
                continue
            ch = letters.pop()
            if ch.isalpha() and {ord(ch), ord(ch.upper())} - vs:
                okcase = False
            word += ch
        words[word] = ("exact" if exact else "prefix", okcase)
    return first_one, words


def reserved_words_rule(prog, chk, rid="R2", primary=True):
    rs = prog.fn("cif_is_reserved_string")
    first_one, words = reserved_string_model(rs)
    r2 = chk.rule(rid + "-reserved-words", "cif_is_reserved_string recognises exactly the words next_token does "
                  "(data_/save_ as prefixes, loop_/stop_/global_ exact), case-insensitively", floor=5, primary=primary)
    nt_words = scantab.next_token_words(prog)
    want = {"data_": "prefix", "save_": "prefix", "loop_": "exact", "stop_": "exact", "global_": "exact"}
    for w, kind in sorted(want.items()):
        if w not in nt_words:
            r2.violation("parser.c", "next_token", 0, "next_token-lacks:" + w, "next_token does not recognise %r" % w)
        g = words.get(w)
        if g is None:
            r2.violation(rs.file, rs.name, rs.line, "reserved_string-lacks:" + w, "cif_is_reserved_string does not recognise %r (has %s)" % (w, sorted(words)))
        elif g[0] != kind:
            r2.violation(rs.file, rs.name, rs.line, "reserved_string-kind:" + w, "%r is matched as %s, expected %s" % (w, g[0], kind))
        elif not g[1]:
            r2.violation(rs.file, rs.name, rs.line, "reserved_string-case:" + w, "%r is not matched case-insensitively" % w)
        else:
            r2.ok(w, "%s in both" % kind)
    for w in sorted(set(words) - set(want)):
        r2.violation(rs.file, rs.name, rs.line, "reserved_string-extra:" + w, "cif_is_reserved_string also reserves %r" % w)



def run(prog, chk):
    chk.level = "other"
    chk.explanation = ("Agreement of finite tables: the characters that cif_analyze_string, cif_value_set_quoted and "
                       "cif_is_reserved_string treat as special equal what the CIF 2.0 scanner table says ends or cannot start "
                       "a whitespace-delimited token; reserved-word sets agree with next_token; the analyser's length margins "
                       "equal the writer's delimiter overheads.  Does not decide that each recommended form reads back.")
    tabs, by_class, by_meta = scanner_sets(prog)
    eol = by_class.get("EOL_CLASS", set())
    enders = by_meta.get("WS_META", set()) | by_meta.get("OPEN_META", set()) | by_meta.get("CLOSE_META", set())
    starters = set()
    for cn in ("QUOTE_CLASS", "HASH_CLASS", "DOLLAR_CLASS", "UNDERSC_CLASS"):
        starters |= by_class.get(cn, set())
    semi = by_class.get("SEMI_CLASS", set())

    r1 = chk.rule("R1-special-characters", "analyser / set_quoted / reserved-string character sets equal the scanner's "
                  "token-ending and token-starting classes", floor=4)
    an = prog.fn("cif_analyze_string")
    anywhere, first = analyzer_sets(an)
    want_any = enders - eol     # a one-line string cannot contain a line terminator
    if anywhere == want_any:
        r1.ok("analyze:anywhere", _chars(anywhere))
    else:
        r1.violation(an.file, an.name, an.line, "analyze:anywhere",
                     "characters that forbid the whitespace-delimited form anywhere: %s, scanner says %s" % (_chars(anywhere), _chars(want_any)))
    first_chars = {v for v, _ in first}
    q, d = 0x3F, 0x2E
    want_first = starters | semi | {q, d}
    if first_chars == want_first:
        r1.ok("analyze:first", _chars(first_chars))
    else:
        r1.violation(an.file, an.name, an.line, "analyze:first",
                     "first-position characters refused unquoted: %s, scanner (+ '?' '.') says %s" % (_chars(first_chars), _chars(want_first)))
    # '?' and '.' only when they are the whole string
    len_edges = cfgq.guard_edges(an, lambda c: (lambda t: "false" if t in ((">", 1), (">=", 2)) else None)(
        cfgq.cmp_test(c, lambda e: path(strip(e)) == "length")))
    for v, bid in first:
        if v in (q, d):
            if len_edges and cfgq.must_pass_edge(an, bid, len_edges):
                r1.ok("analyze:single-char-%s" % chr(v), "tested only when length <= 1")
            else:
                r1.violation(an.file, an.name, an.line, "analyze:single-char-%s" % chr(v),
                             "the test for %r is not confined to one-character strings" % chr(v))
    sq = prog.fn("cif_value_set_quoted_impl")
    dis = None
    hard_ofs = None
    for (b, i, r, n) in sq.eval_sites("decl"):
        for v in n.get("vars", []):
            if v["name"] == "disallowed_chars" and v.get("init"):
                dis = [const(e) for e in strip(v["init"]).get("elems", [])]
            if v["name"] == "hard_disallowed_chars" and v.get("init"):
                e = strip(v["init"])
                if e.get("k") == "bin" and e.get("op") == "+" and path(strip(e.get("lhs"))) == "disallowed_chars":
                    hard_ofs = const(e.get("rhs"))
    if dis is None or hard_ofs is None or None in dis:
        raise Broken("cif_value_set_quoted_impl: disallowed_chars / hard_disallowed_chars not found")
    dset = set(dis[:dis.index(0)]) if 0 in dis else set(dis)
    hset = set(dis[hard_ofs:dis.index(0)]) if 0 in dis else set(dis[hard_ofs:])
    if dis[-1] != 0:
        r1.violation(sq.file, sq.name, sq.line, "set_quoted:terminator", "disallowed_chars is not NUL-terminated")
    if dset == enders:
        r1.ok("set_quoted:disallowed", _chars(dset))
    else:
        r1.violation(sq.file, sq.name, sq.line, "set_quoted:disallowed",
                     "disallowed_chars = %s, scanner's token-ending characters are %s" % (_chars(dset), _chars(enders)))
    ws = by_meta.get("WS_META", set())
    if hset == ws:
        r1.ok("set_quoted:hard_disallowed", _chars(hset))
    else:
        r1.violation(sq.file, sq.name, sq.line, "set_quoted:hard_disallowed",
                     "hard_disallowed_chars = %s, scanner's whitespace is %s" % (_chars(hset), _chars(ws)))
    rs = prog.fn("cif_is_reserved_string")
    first_one, words = reserved_string_model(rs)
    if first_one == starters:
        r1.ok("reserved_string:first", _chars(first_one))
    else:
        r1.violation(rs.file, rs.name, rs.line, "reserved_string:first",
                     "reserved first characters %s, scanner says %s (';' is special only in column 1 and must not be listed)" % (_chars(first_one), _chars(starters)))

    reserved_words_rule(prog, chk)

    r3 = chk.rule("R3-margins", "the analyser's length margins equal the writer's delimiter overheads; delim_length values "
                  "are the writer's case labels", floor=3)
    margins = set()
    for (b, i, r, n) in an.eval_sites("bin"):
        if n.get("op") == "-" and path(strip(n.get("lhs"))) == "length_limit" and const(n.get("rhs")) is not None:
            margins.add(const(n.get("rhs")))
    wq = prog.fn("write_quoted")
    wt = prog.fn("write_triple_quoted")
    wc = prog.fn("write_char")

    def const_set(fn, e, depth=0):
        """Possible constant values of an overhead term: literals, conditional arms, locals with a single initialiser."""
        e = strip(e)
        if not isinstance(e, dict) or depth > 6:
            return None
        c = const(e)
        if c is not None:
            return {c}
        if e.get("k") == "cond":
            x, y = const_set(fn, e.get("then"), depth + 1), const_set(fn, e.get("else"), depth + 1)
            return None if x is None or y is None else x | y
        if e.get("k") == "ref":
            inits = [v.get("init") for (b2, i2, r2, d) in fn.eval_sites("decl") for v in d.get("vars", []) if v["name"] == e["name"]]
            stores = [a2 for (b2, i2, r2, a2) in fn.eval_sites("asg") if path(strip(a2.get("lhs"))) == e["name"]]
            if len(inits) == 1 and inits[0] is not None and not stores:
                return const_set(fn, inits[0], depth + 1)
        if e.get("k") == "bin" and e.get("op") == "+":
            x, y = const_set(fn, e.get("lhs"), depth + 1), const_set(fn, e.get("rhs"), depth + 1)
            return None if x is None or y is None else {p + q for p in x for q in y}
        return None

    def overhead(fn, var):
        """Constant(s) the writer adds to last_column + <length> when it compares with the line limit."""
        out = set()
        for b in fn.blocks.values():
            c = cfgq.cond_of(fn, b)
            if c is None:
                continue
            c = strip(c)
            if c.get("k") == "bin" and c.get("op") == ">":
                ps = {path(x) for x in walk(c.get("lhs")) if x.get("k") == "ref"}
                if var in ps and "last_column" in ps:
                    terms, st = [], [strip(c.get("lhs"))]
                    while st:
                        t = strip(st.pop())
                        if isinstance(t, dict) and t.get("k") == "bin" and t.get("op") == "+" and "cv" not in t:
                            st += [t.get("lhs"), t.get("rhs")]
                        else:
                            terms.append(t)
                    tot = {0}
                    for t in terms:
                        if path(t) in (var, "last_column"):
                            continue
                        cs = const_set(fn, t)
                        if cs is None:
                            raise Broken("%s: overhead term `%s` of the line-limit comparison is not a constant set" % (fn.name, show(t)))
                        tot = {p + q for p in tot for q in cs}
                    out |= tot
        return out
    oq = overhead(wq, "length")
    ot = overhead(wt, "line1_length")
    extra = set()
    for (b, i, r, n) in wc.calls_to("write_triple_quoted"):
        a2 = strip(n["args"][2])
        if a2.get("k") == "bin" and a2.get("op") == "+" and const(a2.get("rhs")) is not None:
            extra.add(const(a2.get("rhs")))
    if len(oq) != 1 or not ot or len(extra) > 1:
        raise Broken("writer overhead constants not found (quoted %s, triple %s, caller %s)" % (oq, ot, extra))
    q_over = oq.pop()
    t_open = extra.pop() if extra else 0
    want_margins = {q_over} | {t_open + t for t in ot}
    if t_open:
        want_margins |= set(ot)
    if margins == want_margins:
        r3.ok("margins", "analyser %s = writer {quoted %d, triple-quoted %s}" % (sorted(margins), q_over, sorted(want_margins - {q_over})))
    else:
        r3.violation(an.file, an.name, an.line, "margins", "analyser margins %s, writer overheads %s" % (sorted(margins), sorted(want_margins)))
    # delim_length values assigned vs the writer's case labels
    assigned = set()
    for f_ in analyser_family(prog):
        for (b, i, r, n) in f_.eval_sites("asg"):
            p = path(strip(n.get("lhs")))
            if p and p.endswith("delim_length") and const(n.get("rhs")) is not None:
                assigned.add(const(n.get("rhs")))
    labels = {}
    for sb in wc.blocks.values():
        if sb.term and sb.term.get("k") == "SwitchStmt":
            c = cfgq.cond_of(wc, sb)
            p = path(strip(c)) if c else None
            if p and p.endswith("delim_length"):
                for s in sb.succs:
                    if s is not None and wc.blocks[s].label and wc.blocks[s].label.get("k") == "case":
                        labels[wc.blocks[s].label["v"]] = s
    if not labels:
        raise Broken("write_char: switch on analysis.delim_length not found")
    if assigned == set(labels):
        r3.ok("delim_length-values", "%s" % sorted(assigned))
    else:
        r3.violation(wc.file, wc.name, wc.line, "delim_length-values", "analyser assigns %s, write_char handles %s" % (sorted(assigned), sorted(labels)))
    want_writer = {0: "write_unquoted", 1: "write_quoted", 3: "write_triple_quoted", 2: "write_text"}
    for v, s in sorted(labels.items()):
        got = c01.first_calls(wc, s, set(want_writer.values()), set())
        if got == {want_writer.get(v)}:
            r3.ok("write_char:case %d" % v, "-> %s" % want_writer[v])
        else:
            r3.violation(wc.file, wc.name, wc.line, "write_char:case %d" % v, "case %d reaches %s, expected %s" % (v, sorted(got), want_writer.get(v)))

    delimiter_agreement(prog, chk)
    r5 = chk.rule("R5-monotone-accumulators", ACC_DESC, floor=3)
    accumulator_rule(prog, r5)
    histogram_rule(prog, chk)
    # the scanner's class tables are what the analyser's character sets are compared with (R1): they must themselves be right
    c01.class_table_rule(prog, chk, rid="R10", primary=False)
    terminator_count_rule(prog, chk)
    r7 = chk.rule("R7-unquoting-refuses-the-empty-string", "cif_value_set_quoted(NOT_QUOTED): the store that marks a character value "
                  "unquoted is reached only where the first character of its text was found non-zero (an empty string has no "
                  "whitespace-delimited form)", primary=False, floor=1)
    sq = prog.fn("cif_value_set_quoted_impl")
    qparam = sq.params[1]["name"] if len(sq.params) > 1 else None
    stores = [(b, i, a) for (b, i, r, a) in sq.eval_sites("asg")
              if (path(strip(a.get("lhs"))) or "").endswith("as_char.quoted") and path(strip(a.get("rhs"))) == qparam]
    if not stores:
        raise Broken("cif_value_set_quoted_impl: the store `as_char.quoted = %s` of the unquoting branch was not found" % qparam)

    # locals that are nothing but the text pointer (`const UChar *text = value->as_char.text;`)
    text_alias = set()
    defs_ = {}
    for (b, i, r, x) in sq.eval_sites():
        if x.get("k") == "decl":
            for v in x.get("vars", []):
                if v.get("init") is not None:
                    defs_.setdefault(v["name"], []).append(path(strip(v["init"])) or "?")
        elif x.get("k") == "asg" and isinstance(strip(x.get("lhs")), dict) and strip(x["lhs"]).get("k") == "ref":
            defs_.setdefault(strip(x["lhs"])["name"], []).append(path(strip(x.get("rhs"))) or "?" if x.get("op") == "=" else "?")
    for nm, ds in defs_.items():
        if ds and all(d.endswith("as_char.text") for d in ds):
            text_alias.add(nm)

    def is_text(e):
        pth = path(strip(e)) or ""
        return pth.endswith("as_char.text") or pth in text_alias

    def first_char(e):
        e = strip(e)
        if not isinstance(e, dict):
            return False
        if e.get("k") == "un" and e.get("op") == "*":
            return is_text(e.get("e"))
        if e.get("k") == "index" and const(e.get("idx")) == 0:
            return is_text(e.get("base"))
        return False

    def nonempty(c):
        z = cfgq.zero_test(c, first_char)
        return None if z is None else ("false" if z == "true" else "true")
    ne = cfgq.guard_edges(sq, nonempty)
    for (b, i, a) in stores:
        if ne and cfgq.must_pass_edge(sq, b.id, ne):
            r7.ok("cif_value_set_quoted_impl:L%s" % a.get("l"), "dominated by a test that the text's first character is not 0")
        else:
            r7.violation(sq.file, sq.name, a.get("l"), "unquote-empty-string",
                         "`as_char.quoted = %s` at L%s is reachable without the first character of the text having been tested "
                         "against 0: unquoting the empty string succeeds, although the empty string cannot be written "
                         "whitespace-delimited" % (qparam, a.get("l")))

    r6 = chk.rule("R6-parser-counts-contiguous-delimiters", "the analyser offers triple quotes when the string does not contain three "
                  "*contiguous* delimiter characters (u_strstr): the parser's closing-delimiter counter must count contiguous "
                  "characters too - it is reset by every other character, line terminators included", primary=False, floor=1)
    from .. import memrules
    if memrules.run_counters(prog, r6) < 1:
        raise Broken("no run counter found in parser.c (expected delim_count of scan_triple_delim_string)")


def analyser_family(prog):
    """cif_analyze_string and the static helpers of utils.c it hands its `result` object to."""
    an = prog.fn("cif_analyze_string")
    fam = [an]
    for (b, i, r, c) in an.calls():
        g = c.get("callee")
        if g and prog.has_fn(g) and prog.fn(g).unit == an.unit and prog.fn(g).static \
                and any(path(strip(a)) == "result" for a in c.get("args", [])) and prog.fn(g) not in fam:
            fam.append(prog.fn(g))
    return fam


def delimiter_agreement(prog, chk):
    """R4: the evidence tested on the way to recommending delimiter D is evidence about D: on every guard whose *true* outcome
    must be passed to reach `u_strcpy(result->delim, D)`, a delimiter array that is mentioned is D itself, and a per-character
    count that is tested is the count of D's own character."""
    r4 = chk.rule("R4-delimiter-evidence", "guards passed (true outcome) on the way to recommending a delimiter mention only that "
                  "delimiter's array and the count of its own character", floor=5)
    fam = analyser_family(prog)
    first = {}
    from .c02 import array_ints
    for f_ in fam:
        for (b, i, r, n) in f_.eval_sites("decl"):
            for v in n.get("vars", []):
                if v["name"].endswith("_delim") and v.get("init") is not None:
                    el = strip(v["init"]).get("elems") or []
                    if el and const(el[0]) is not None:
                        first[v["name"]] = const(el[0])
        for l in f_.locals:
            if l["name"].endswith("_delim") and l.get("init") is not None and l["name"] not in first:
                el = strip(l["init"]).get("elems") or []
                if el and const(el[0]) is not None:
                    first[l["name"]] = const(el[0])
    for gname, g in prog.globals.items():
        if gname.endswith("_delim") and gname not in first and (g.get("unit") == fam[0].unit):
            ints = array_ints(g)
            if ints:
                first[gname] = ints[0]
    if len(first) < 4:
        raise Broken("delimiter arrays of cif_analyze_string not found (%s)" % sorted(first))
    quote_chars = {v for k, v in first.items() if k != "text_delim"}
    all_copies = []
    for f_ in fam:
        for (b, i, r, n) in f_.calls_to("u_strcpy"):
            if not (path(strip(n["args"][0])) or "").endswith("->delim"):
                continue
            src = path(strip(n["args"][1]))
            if src in first:
                all_copies.append((f_, b.id, i, n, src))
            elif src and re.match(r"^\w+$", src):
                # copied through a local pointer: each `local = <delimiter array>` is where that delimiter is chosen
                for (b2, i2, r2, a) in f_.eval_sites("asg"):
                    if path(strip(a.get("lhs"))) == src and path(strip(a.get("rhs"))) in first and a.get("op") == "=":
                        all_copies.append((f_, b2.id, i2, a, path(strip(a.get("rhs")))))
    if {d_ for (_, _, _, _, d_) in all_copies} < set(first):
        raise Broken("not every delimiter of cif_analyze_string is recommended somewhere (%s)" % sorted(first))
    for (an, bid, idx, n, d) in all_copies:
        branches = [(blk, cfgq.cond_of(an, blk)) for blk in an.blocks.values() if len(blk.succs) == 2 and cfgq.cond_of(an, blk) is not None]
        bad = []
        n_guards = 0
        for blk, c in branches:
            if not cfgq.must_pass_edge(an, bid, [(blk.id, 0)]):
                continue
            for x in walk(c):
                if x.get("k") == "ref" and x.get("name") in first:
                    n_guards += 1
                    if x["name"] != d:
                        bad.append((blk.term.get("l"), "mentions %s" % x["name"]))
                if x.get("k") == "index" and path(strip(x.get("base"))) == "char_counts":
                    cv = const(x.get("idx"))
                    if cv in quote_chars:
                        n_guards += 1
                        if cv != first[d]:
                            bad.append((blk.term.get("l"), "tests the count of character 0x%02x" % cv))
        key = "recommend:%s@L%s" % (d, n.get("l"))
        if d == "text_delim":
            r4.ok(key, "fallback: no evidence required")
        elif bad:
            r4.violation(an.file, an.name, n.get("l"), "delimiter-evidence:%s" % d,
                         "%s is recommended at L%s, but a guard that must hold on the way there %s: the suitability test is "
                         "made for a different delimiter than the one recommended" % (d, n.get("l"), "; ".join("L%s %s" % b for b in bad[:3])))
        elif n_guards == 0:
            r4.unproved(key, "no delimiter evidence found on the guards")
        else:
            r4.ok(key, "%d evidence mention(s), all about %s" % (n_guards, d))


# statistics of cif_analyze_string that quantify over the whole string (from the documentation of struct
# cif_string_analysis_s): field -> how its source variable may be updated while scanning
ACCUMULATORS = {
    "contains_text_delim": "exists",     # some newline is followed by a semicolon
    "has_trailing_ws": "exists",         # some line ends in a blank
    "max_semi_run": "max",               # longest run of semicolons
}
ACC_DESC = ("the variables behind the whole-string statistics (contains_text_delim, has_trailing_ws: `exists`; max_semi_run: `max`) are "
            "only updated monotonically: `v = v || e` / a non-zero constant, resp. `v = w` under the guard `w > v`")


def accumulator_rule(prog, rule):
    an = prog.fn("cif_analyze_string")
    src = {}
    for (b, i, r, n) in an.eval_sites("asg"):
        lp = path(strip(n.get("lhs"))) or ""
        for fld in ACCUMULATORS:
            if lp == "result->" + fld:
                v = path(strip(n.get("rhs")))
                if v:
                    src[fld] = v
    if set(src) != set(ACCUMULATORS):
        raise Broken("result statistics not stored from a local in cif_analyze_string: %s" % sorted(set(ACCUMULATORS) - set(src)))
    for fld, v in sorted(src.items()):
        kind = ACCUMULATORS[fld]
        stores = [(b.id, i, n) for (b, i, r, n) in an.eval_sites("asg") if path(strip(n.get("lhs"))) == v]
        if not stores:
            raise Broken("%s is never assigned" % v)
        bad = None
        for (bid, idx, n) in stores:
            rhs = strip(n.get("rhs"))
            if kind == "exists":
                c = const(rhs)
                ok = (c is not None and c != 0) or (
                    n.get("op") in ("|=",)) or (
                    isinstance(rhs, dict) and rhs.get("k") == "bin" and rhs.get("op") in ("||", "|")
                    and v in (path(strip(rhs.get("lhs"))), path(strip(rhs.get("rhs")))))
            else:
                w = path(rhs)

                def gt(cnd):
                    c = strip(cnd)
                    if isinstance(c, dict) and c.get("k") == "bin" and c.get("op") in (">", "<"):
                        l, rr = path(strip(c.get("lhs"))), path(strip(c.get("rhs")))
                        if (c["op"] == ">" and (l, rr) == (w, v)) or (c["op"] == "<" and (l, rr) == (v, w)):
                            return "true"
                    return None
                ge = cfgq.guard_edges(an, gt)
                ok = bool(w) and bool(ge) and cfgq.must_pass_edge(an, bid, ge)
            if not ok:
                bad = n
        key = "%s<-%s" % (fld, v)
        if bad is not None:
            rule.violation(an.file, an.name, bad.get("l"), "non-monotone:%s" % v,
                           "`%s` feeds result->%s, a statistic over the whole string (%s), but the update at L%s can lower it "
                           "again: what was found on an earlier line is forgotten" % (v, fld, kind, bad.get("l")))
        else:
            rule.ok(key, "%d update(s), all monotone (%s)" % (len(stores), kind))


def histogram_rule(prog, chk):
    """R8: the character histogram of cif_analyze_string.  Every slot the decision cascade reads must count exactly the
    occurrences of that code unit: the index expression of the counting store, evaluated for every UTF-16 code unit,
    stays inside the array and maps no other code unit onto a slot that is read."""
    from ..chareval import _ev
    r8 = chk.rule("R8-histogram-slots-exact", "cif_analyze_string: the index under which a code unit is counted, evaluated for "
                  "every UTF-16 code unit 1..0xFFFF, lies inside the count array and equals a slot the analysis later reads "
                  "only for that very code unit (characters beyond the table share a slot nobody reads)", floor=1)
    fn = prog.fn("cif_analyze_string")
    arrays = {}
    for (b, i, r, n) in fn.eval_sites("asg"):
        lhs = strip(n.get("lhs"))
        if lhs.get("k") == "index" and n.get("op") in ("+=", "="):
            base = path(strip(lhs.get("base")))
            if base and const(lhs.get("idx")) is None:
                arrays.setdefault(base, []).append((n, lhs))
    for (b, i, r, n) in fn.eval_sites("un"):
        if n.get("op") in ("pre++", "post++"):
            lhs = strip(n.get("e"))
            if lhs.get("k") == "index" and const(lhs.get("idx")) is None:
                base = path(strip(lhs.get("base")))
                if base:
                    arrays.setdefault(base, []).append((n, lhs))
    if not arrays:
        raise Broken("cif_analyze_string: no counting store into an array indexed by the character found")
    for base, stores in sorted(arrays.items()):
        # the slots read: subscripts of the same array with a constant index, anywhere in the function
        reads = {}
        for (b, i, r, n) in fn.eval_sites("index"):
            if path(strip(n.get("base"))) == base:
                c = const(n.get("idx"))
                if c is not None:
                    reads.setdefault(c, n.get("l"))
        if not reads:
            continue
        size = array_size(fn, base)
        for (n, lhs) in stores:
            idx = lhs.get("idx")
            vars_ = sorted({path(x) for x in walk(idx) if isinstance(x, dict) and x.get("k") == "ref" and path(x)})
            key = "%s[...]@L%s" % (base, n.get("l"))
            if len(vars_) != 1:
                r8.info(key, "index mentions %s: not a function of one character variable" % vars_)
                continue
            cvar = vars_[0]
            pre = None          # `slot = f(ch); counts[slot] += 1`: evaluate the local's single definition first
            if not _is_uchar(fn, cvar):
                from ..writerrules import _defs_of
                defs = _defs_of(fn, cvar)
                dv = sorted({path(x) for d in defs for x in walk(d) if isinstance(x, dict) and x.get("k") == "ref" and path(x)})
                if len(defs) != 1 or len(dv) != 1 or not _is_uchar(fn, dv[0]):
                    r8.info(key, "index variable %s is not the character and has no single definition from it" % cvar)
                    continue
                pre = (dv[0], defs[0])
            bad = None
            for ch in range(1, 0x10000):
                if pre:
                    v0 = _ev(pre[1], {pre[0]: ch}, 2)
                    v = None if v0 is None else _ev(idx, {cvar: v0}, 2)
                else:
                    v = _ev(idx, {cvar: ch}, 2)
                if v is None:
                    bad = ("unknown", ch, None)
                    break
                if v < 0 or (size is not None and v >= size):
                    bad = ("outside", ch, v)
                    break
                if v in reads and v != ch:
                    bad = ("alias", ch, v)
                    break
            if bad is None:
                r8.ok(key, "index %s: 65535 code units evaluated, %d slots read (%s), array size %s"
                      % (show(idx), len(reads), ",".join(str(x) for x in sorted(reads)), size))
            elif bad[0] == "unknown":
                r8.info(key, "index %s cannot be evaluated for U+%04X: no verdict" % (show(idx), bad[1]))
            elif bad[0] == "outside":
                r8.violation(fn.file, fn.name, n.get("l"), "histogram-index:" + base,
                             "code unit U+%04X is counted in slot %d, outside %s[%s]" % (bad[1], bad[2], base, size))
            else:
                r8.violation(fn.file, fn.name, n.get("l"), "histogram-index:" + base,
                             "code unit U+%04X is counted in slot %d, which the analysis reads (line %s) as the number of "
                             "U+%04X characters" % (bad[1], bad[2], reads[bad[2]], bad[2]))


def _is_uchar(fn, name):
    for v in list(fn.locals) + list(fn.params):
        if v.get("name") == name:
            return v.get("t", "").replace("const ", "").strip() in ("UChar", "uint16_t", "char16_t", "unsigned short")
    return False


def array_size(fn, base):
    for v in fn.locals:
        if v.get("name") == base:
            m = re.search(r"\[(\d+)\]", v.get("t", ""))
            if m:
                return int(m.group(1))
    return None


def _additive_terms(e, sign=1, out=None):
    """flatten a tree of + and - into [(sign, term)]"""
    if out is None:
        out = []
    e = strip(e)
    if isinstance(e, dict) and e.get("k") == "bin" and e.get("op") in ("+", "-"):
        _additive_terms(e.get("lhs"), sign, out)
        _additive_terms(e.get("rhs"), sign if e["op"] == "+" else -sign, out)
    else:
        out.append((sign, e))
    return out


def terminator_count_rule(prog, chk):
    """R9: cif_analyze_string counts every code unit in the histogram before it looks at it, so a CR LF pair adds one to the
    CR slot and one to the LF slot although it is one line terminator; the pairs are counted separately (a counter
    incremented where the character after a CR is found to be LF).  Every expression that adds the two slots up to a number
    of line terminators must therefore subtract that counter - the number of lines does; a sum without the correction takes
    a leading CR LF for two terminators."""
    r9 = chk.rule("R9-terminator-count-subtracts-pairs", "cif_analyze_string: every sum of the CR and LF histogram slots subtracts "
                  "the counter of CR LF pairs (a pair is counted in both slots but is one line terminator)", floor=2)
    fn = prog.fn("cif_analyze_string")
    NL, CR = 10, 13

    def is_nl(cnd):
        t = cfgq.cmp_test(cnd, lambda e: True)
        if t and t[1] == NL and t[0] in ("==", "!="):
            return "true" if t[0] == "==" else "false"
        return None
    edges = cfgq.guard_edges(fn, is_nl)
    cr_labels = [b.id for b in fn.blocks.values() if b.label and b.label.get("k") == "case" and b.label.get("v") == CR]
    pair_counters = set()
    # the CR arm written with if / else: the blocks behind the true outcome of `ch == UCHAR_CR`
    def is_cr(cnd):
        t = cfgq.cmp_test(cnd, lambda e: True)
        if t and t[1] == CR and t[0] in ("==", "!="):
            return "true" if t[0] == "==" else "false"
        return None
    cr_edges = cfgq.guard_edges(fn, is_cr)
    cr_starts = list(cr_labels) + [fn.blocks[bid].succs[idx] for (bid, idx) in cr_edges if fn.blocks[bid].succs[idx] is not None]
    if edges and cr_starts:
        heads = {b.id for b in fn.blocks.values() if b.term and b.term.get("k") == "SwitchStmt"}
        loop_heads = set()
        from .. import loops as _loops
        for lp in _loops.natural_loops(fn):
            loop_heads.add(lp.header)
        in_cr_arm = cfgq.reach(fn, cr_starts, barrier_blocks=heads | loop_heads)
        incs = [(b, path(strip(n.get("lhs")))) for (b, i, r, n) in fn.eval_sites("asg")
                if n.get("op") == "+=" and const(n.get("rhs")) == 1]
        incs += [(b, path(strip(n.get("e")))) for (b, i, r, n) in fn.eval_sites("un") if n.get("op") in ("pre++", "post++")]
        for b, v in incs:
            if v and "[" not in v and b.id in in_cr_arm and cfgq.must_pass_edge(fn, b.id, [e for e in edges if e[0] in in_cr_arm]):
                pair_counters.add(v)
    if not pair_counters:
        raise Broken("cif_analyze_string: no counter of CR LF pairs (incremented under `next character == LF` in the CR arm) found")

    def slot(t):
        t = strip(t)
        if isinstance(t, dict) and t.get("k") == "index":
            return const(t.get("idx"))
        return None
    seen = set()

    def visit(e, parent_additive):
        e0 = e
        e = strip(e) if isinstance(e, dict) else e
        if not isinstance(e, dict):
            return
        additive = e.get("k") == "bin" and e.get("op") in ("+", "-")
        if additive and not parent_additive and e.get("id") not in seen:
            seen.add(e.get("id"))
            terms = _additive_terms(e)
            slots = {slot(t) for sg, t in terms if sg > 0}
            if NL in slots and CR in slots:
                subtracted = {path(strip(t)) for sg, t in terms if sg < 0}
                key = "L%s:%s" % (e.get("l"), show(e)[:60])
                missing = sorted(pair_counters - subtracted)
                if missing:
                    r9.violation(fn.file, fn.name, e.get("l"), "terminator-sum-without-pairs:L%s" % e.get("l"),
                                 "`%s` adds the CR and LF slots without subtracting %s: a CR LF pair counts as two line "
                                 "terminators here, so a string whose first terminator is CR LF is not recognised as being at its "
                                 "first line end" % (show(e)[:80], ", ".join(missing)))
                else:
                    r9.ok(key, "subtracts %s" % ", ".join(sorted(pair_counters)))
        for k, v in e.items():
            if k in ("ms",):
                continue
            if isinstance(v, dict):
                visit(v, additive)
            elif isinstance(v, list):
                for x in v:
                    if isinstance(x, dict):
                        visit(x, additive)
    for b in fn.blocks.values():
        for r in b.roots:
            visit(r, False)
        if b.term and isinstance(b.term.get("full"), dict):
            visit(b.term["full"], False)
