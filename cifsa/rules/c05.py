"""C05 — a failed API call leaves the managed CIF unchanged: transaction typestate on every exit."""
from ..facts import Broken
from .. import tx as txm

FLOOR_EVENTS = 23       # half of the 47 transaction macro sites confirmed by hand
FLOOR_FUNCS = 7         # half of the 14+ functions of DESIGN.md A.5

# R3 exemptions: functions whose modifying statements outside a transaction are by design.
R3_EXEMPT = {
    "cif_parse": "parser: the unit of atomicity is the individual API call it makes (DESIGN.md C05 R3)",
    "cif_parse_internal": "as cif_parse",
}


def exit_desc(node):
    if node is None:
        return "fall-off"
    ms = node.get("ms") or []
    return "%s%s" % (node.get("txt", "return"), (" [in %s]" % ms[-1]) if ms else "")


def analysis(prog):
    a = getattr(prog, "_txa", None)
    if a is None:
        a = prog._txa = txm.TxAnalysis(prog)
    return a


def check_balance(prog, chk, rule, only=None):
    """R1: every exit is reached at the expected depth."""
    a = analysis(prog)
    n_events = 0
    for fn in a.functions:
        if only and fn.name not in only:
            continue
        it = a.results[fn.key]
        evs = {(k, l) for (k, l, d) in it.events}
        n_events += len(evs)
        if it.overflow:
            rule.unproved(fn.key, "configuration cap reached; not analysed to a fixpoint")
            continue
        if not evs and not (prog.callees(fn) & set(txm.UNBALANCED)) and fn.name not in txm.INSIDE_ITERATOR_TX:
            continue
        bad = {}
        n_exits = 0
        seen = set()
        for st, av, node in it.exits:
            cls = txm.ret_class(av)
            depth = len(st.ts[0])
            k = (node.get("id") if node else None, cls, depth)
            if k in seen:
                continue
            seen.add(k)
            n_exits += 1
            exp = a.expected_exit_depth(fn, cls)
            if exp is None:
                # unbalanced-by-contract function and unknown return class: accept either contract depth
                if depth in set(txm.UNBALANCED[fn.name][1].values()):
                    continue
                exp = 0
            if depth != exp:
                bad.setdefault((exit_desc(node), cls, depth, exp), (st, node))
        for kind, line, st in it.anomalies:
            if kind.startswith("nested-same-name-savepoint") and (kind, line) not in bad:
                bad[(kind, line)] = None
                rule.violation(fn.file, fn.name, line, "anomaly:%s" % kind,
                               "%s is called at L%s while this function's own `savepoint s` is open, and it can set a `savepoint s` of "
                               "its own: when it fails it only does ROLLBACK TO s, which leaves its savepoint on the stack, so this "
                               "function's ROLLBACK TO s returns to the callee's savepoint and the modifications made here before "
                               "the call survive the failure" % (kind.split(":")[1], line),
                               path=["L%s" % x for x in st.trail_lines()])
            if kind == "outermost-savepoint-left-open" and (kind, line) not in bad:
                bad[(kind, line)] = None
                rule.violation(fn.file, fn.name, line, "anomaly:%s" % kind,
                               "`rollback to s` at L%s can run for a savepoint that is this function's outermost level with no "
                               "enclosing transaction known: SQLite started a transaction for that savepoint, and ROLLBACK TO "
                               "neither removes the savepoint nor ends the transaction - it stays open, and every later BEGIN on "
                               "this CIF fails" % line, path=["L%s" % x for x in st.trail_lines()])
                continue
            if kind == "full-rollback-without-own-transaction" and (kind, line) not in bad:
                bad[(kind, line)] = None
                rule.violation(fn.file, fn.name, line, "anomaly:%s" % kind,
                               "a plain ROLLBACK at L%s is executed on a path where this function has no transaction of its own "
                               "open (its BEGIN failed or was not reached): it can only roll back a transaction held by someone "
                               "else - the one an open packet iterator lives in - whose pending changes are lost" % line,
                               path=["L%s" % x for x in st.trail_lines()])
                continue
            if kind.startswith("full-") and (kind, line) not in bad:
                bad[(kind, line)] = None
                rule.violation(fn.file, fn.name, line, "anomaly:%s" % kind,
                               "a plain %s at L%s is executed on a path where sqlite3_get_autocommit() reported an enclosing "
                               "transaction that this function did not open (it only set a savepoint): the caller's whole "
                               "transaction is ended, not just this function's part of it"
                               % ("ROLLBACK" if "rollback" in kind else "COMMIT", line),
                               path=["L%s" % x for x in st.trail_lines()])
            if kind == "begin-inside-transaction" and (kind, line) not in bad:
                bad[(kind, line)] = None
                rule.violation(fn.file, fn.name, line, "anomaly:%s" % kind,
                               "plain BEGIN at L%s is executed while a transaction is already open (depth %d): SQLite refuses "
                               "it, so the operation always fails here" % (line, len(st.ts[0])),
                               path=["L%s" % x for x in st.trail_lines()])
        for k4, sn in list(bad.items()):
            if sn is None:
                continue
            (desc, cls, depth, exp), (st, node) = k4, sn
            rule.violation(fn.file, fn.name, node.get("l") if node else fn.endline,
                           "depth-at-exit:%s:%s:%d!=%d" % (desc, cls, depth, exp),
                           "exit `%s` (return class %s) is reached with transaction depth %d, expected %d "
                           "(relative to entry depth %d)" % (desc, cls, depth, exp, a.entry_depth(fn)),
                           path=["L%s" % x for x in st.trail_lines()])
        if not bad:
            rule.ok(fn.key, "%d exits, %d tx events, balanced on all (entry depth %d)" % (n_exits, len(evs), a.entry_depth(fn)),
                    n=max(1, n_exits))
    return n_events


def run(prog, chk):
    chk.level = "proof"
    chk.explanation = ("Path-universal transaction typestate over the CFG of every function that contains or "
                       "transitively reaches a begin/commit/rollback/savepoint event or a modifying statement: "
                       "balanced on every exit (incl. the hidden return of PREPARE_STMT), error exits never after a "
                       "successful commit, success exits never after rolling back modifications, multi-statement "
                       "modifications only inside a transaction.  Decides the structural necessary condition, not "
                       "the contents of the database.")
    chk.assumptions += ["SQLite transaction semantics: rollback restores the state at begin/savepoint; a single "
                        "statement in autocommit mode is atomic",
                        "rollback with no open transaction is a harmless no-op (idiom inventory, DESIGN.md 4)"]
    a = analysis(prog)
    pub = prog.public_api()

    r1 = chk.rule("R1-balanced", "every exit is reached with the transaction depth it had at entry "
                  "(frozen contract table: cif_loop_get_packets +1 on CIF_OK; cif_pktitr_close/abort -1)", floor=FLOOR_FUNCS)
    n_events = check_balance(prog, chk, r1)
    if n_events < FLOOR_EVENTS:
        chk.fail_broken("only %d transaction events recognised (floor %d)" % (n_events, FLOOR_EVENTS))

    r2 = chk.rule("R2-error-rollback", "no non-OK return after a successful commit of this function's transaction; "
                  "no OK return after a rollback that discarded this function's modifications", floor=FLOOR_FUNCS)
    for fn in a.functions:
        it = a.results[fn.key]
        if it.overflow or not it.events:
            continue
        bad = False
        unknown = 0
        for st, av, node in it.exits:
            cls = txm.ret_class(av)
            mods, committed, lost, mo = st.ts[:4]
            if cls == "err" and committed:
                bad = True
                r2.violation(fn.file, fn.name, node.get("l") if node else fn.endline,
                             "error-after-commit:%s" % exit_desc(node),
                             "returns a failure code (%r) after successfully committing: half-committed failure" % (av,),
                             path=["L%s" % x for x in st.trail_lines()])
            elif cls == "ok" and lost:
                bad = True
                r2.violation(fn.file, fn.name, node.get("l") if node else fn.endline,
                             "ok-after-rollback:%s" % exit_desc(node),
                             "returns CIF_OK after rolling back modifications made in its transaction",
                             path=["L%s" % x for x in st.trail_lines()])
            elif cls == "unknown" and (committed or lost):
                unknown += 1
        if not bad:
            (r2.ok if not unknown else r2.unproved)(fn.key, "%d exits; %d with unknown return class after a close" % (len(it.exits), unknown))

    r3 = chk.rule("R3-multi-statement-in-tx", "helpers documented 'no transaction management' are called only with a "
                  "transaction open; no function runs two or more modifying statements outside a transaction", floor=3)
    for fn in a.functions:
        it = a.results[fn.key]
        seen = set()
        for callee, line, depth in it.helper_calls:
            if (callee, line, depth) in seen:
                continue
            seen.add((callee, line, depth))
            if depth < 1 and fn.name not in txm.TX_REQUIRED_HELPERS:
                r3.violation(fn.file, fn.name, line, "helper-outside-tx:%s" % callee,
                             "%s (no transaction management of its own) is called with no transaction open" % callee)
            else:
                r3.ok("%s -> %s" % (fn.key, callee), "called at depth %d" % depth)
        if fn.name in txm.TX_REQUIRED_HELPERS or fn.name in R3_EXEMPT or fn.unit == "parser.c":
            continue
        worst = max([st.ts[3] for st, _, _ in it.exits] or [0])
        if worst >= 2:
            r3.violation(fn.file, fn.name, fn.line, "multi-modify-outside-tx",
                         "two or more modifying statements can run outside any transaction in one call: "
                         + ", ".join(sorted({"L%s %s" % (l, w) for (l, w, d) in it.mod_sites if d == 0})))
        elif it.mod_sites:
            r3.ok(fn.key, "modifying statements: %s" % ", ".join(sorted({"%s@depth%d" % (w, d) for (l, w, d) in it.mod_sites})))
    chk.extra_cov["tx_events"] = n_events
    chk.extra_cov["functions_analysed"] = [f.key for f in a.functions]
    chk.extra_cov["summary_rounds"] = a.rounds
    chk.extra_cov["statements"] = {k: v["sql"][:60] for k, v in a.sqlm.statements.items()}
