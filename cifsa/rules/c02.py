"""C02 — what cif_write emits re-parses: magic-code agreement, complete column accounting, single delimiter source."""
import re

from ..facts import Broken, strip, const, walk, walk_eval, show
from ..interp import Interp, State, path, av_const, AV, NONZERO
from .. import cfgq
from ..sqlmodel import literal_text

EMITTERS = ("u_fprintf", "u_fputc", "u_fputs", "u_file_write", "u_vfprintf")
PREFIX_LEN = 7          # "#\#CIF_" : the part shared by the magic codes of all CIF versions


def array_ints(g):
    init = strip(g.get("init")) if g else None
    if not init:
        return None
    if init.get("k") == "str":
        return [ord(c) for c in init.get("v", "")] if "v" in init else init.get("units")
    if init.get("k") == "init":
        return [const(e) for e in init.get("elems", [])]
    return None


def writer_magic(prog):
    fn = prog.fn("write_cif_start")
    cond = None
    for (b, i, r, n) in fn.eval_sites():
        pass
    for b in fn.blocks.values():
        for r in b.roots:
            for n in walk(r):
                if n.get("k") == "cond":
                    th = [x for x in walk(n["then"]) if x.get("k") == "call" and x.get("callee") in EMITTERS]
                    el = [x for x in walk(n["else"]) if x.get("k") == "call" and x.get("callee") in EMITTERS]
                    c = strip(n["c"])
                    if th and el and c.get("k") == "bin" and c.get("op") == "==" and (path(strip(c.get("lhs"))) or "").endswith("version"):
                        v = const(c.get("rhs"))
                        t1, t2 = literal_text(th[0]["args"][1]), literal_text(el[0]["args"][1])
                        if v == 1:
                            cond = (t1, t2)
                        elif v == 2:
                            cond = (t2, t1)
    if not cond:
        raise Broken("write_cif_start: dialect-selecting magic literals not found")
    return fn, cond[0], cond[1]


def magic_rules(prog, rule):
    """Shared by C02 R1 and C11 R1."""
    fn, lit1, lit2 = writer_magic(prog)
    want1, want2 = "#\\#CIF_1.1", "#\\#CIF_2.0"
    for name, lit, want in (("CIF 1.1", lit1, want1), ("CIF 2.0", lit2, want2)):
        if lit == want + "\n":
            rule.ok("writer-literal:" + name, repr(lit))
        else:
            rule.violation(fn.file, fn.name, fn.line, "writer-literal:" + name,
                           "write_cif_start emits %r for %s, expected %r followed by a newline" % (lit, name, want))
    gl = prog.globals
    for gname, want, unit in (("CIF2_DEFAULT_MAGIC", want2, "ciffile.c"), ("CIF2_UTF8_MAGIC", want2, "ciffile.c"),
                              ("CIF2_MAGIC", want2, "parser.c"), ("CIF1_MAGIC", want1, "parser.c")):
        g = gl.get(gname)
        if not g and gname == "CIF1_MAGIC":
            # judged by C11 R3 (other-version comments select CIF 1.1): its absence is a finding there, not a lost anchor
            rule.info("array:CIF1_MAGIC", "not present")
            continue
        if not g:
            raise Broken("magic array %s not found" % gname)
        ints = array_ints(g)
        if ints is None:
            raise Broken("magic array %s has no readable initialiser" % gname)
        ints = [x for x in ints]
        while ints and ints[-1] == 0:
            ints.pop()
        if ints == [ord(c) for c in want]:
            rule.ok("array:" + gname, want)
        else:
            rule.violation(g["file"], gname, g["line"], "array:" + gname,
                           "%s spells %r, expected %r" % (gname, "".join(chr(x) if x and 32 <= x < 127 else "?" for x in ints), want))
    # lengths
    ml_c = [m for m in prog.macro_defs("MAGIC_LENGTH") if m["file"].endswith("ciffile.c")]
    ml_p = [m for m in prog.macro_defs("MAGIC_LENGTH") if m["file"].endswith("parser.c")]
    me = [m for m in prog.macro_defs("MAGIC_EXTRA") if m["file"].endswith("ciffile.c")]
    if not ml_c or not ml_p or not me:
        raise Broken("MAGIC_LENGTH / MAGIC_EXTRA macros not found")
    lc, lp, le = int(ml_c[-1]["body"]), int(ml_p[-1]["body"]), int(me[-1]["body"])
    if lc == PREFIX_LEN and lc + le == len(want2) and lp == len(want2):
        rule.ok("lengths", "ciffile.c %d+%d, parser.c %d" % (lc, le, lp))
    else:
        rule.violation("ciffile.c", "MAGIC_LENGTH", ml_c[-1]["line"], "lengths",
                       "MAGIC_LENGTH/EXTRA = %d/%d (ciffile.c), %d (parser.c); the magic code has %d characters, %d shared by all versions"
                       % (lc, le, lp, len(want2), PREFIX_LEN))
    if want1[:PREFIX_LEN] != want2[:PREFIX_LEN]:
        raise Broken("internal: prefix table")
    # comparison sites
    n_sites = 0
    for fname, cmpf in (("cif_parse_internal", "u_strncmp"), ("cif_parse", "memcmp")):
        f = prog.fn(fname)
        for (b, i, r, n) in f.calls_to(cmpf):
            args = n.get("args", [])
            names = [path(strip(a)) for a in args[:2]]
            arr = next((x for x in names if x in ("CIF1_MAGIC", "CIF2_MAGIC", "CIF2_DEFAULT_MAGIC", "CIF2_UTF8_MAGIC")), None)
            if not arr:
                continue
            n_sites += 1
            ln = const(args[2])
            key = "%s:%s(%s,%s)" % (fname, cmpf, arr, ln)
            full = len(want2)
            # polarity of the use: `cmp(...) == 0` identifies this very magic code, `cmp(...) != 0` rules out any magic code
            pol = None
            for x in walk(r):
                if x.get("k") == "bin" and x.get("op") in ("==", "!="):
                    l, rr = strip(x.get("lhs")), strip(x.get("rhs"))
                    if (isinstance(l, dict) and l.get("id") == n.get("id") and const(rr) == 0) or \
                            (isinstance(rr, dict) and rr.get("id") == n.get("id") and const(l) == 0):
                        pol = x["op"]
            key = "%s:%s(%s,%s)%s" % (fname, cmpf, arr, ln, pol or "")
            if arr == "CIF1_MAGIC":
                okk = ln == PREFIX_LEN          # "a magic code for another version": the common prefix only
            elif pol == "!=":
                okk = ln == PREFIX_LEN          # "no magic code of any version": must not distinguish versions
            elif pol == "==":
                okk = ln == full                # "this is the CIF 2.0 magic code": the whole code
            else:
                okk = ln in (full, PREFIX_LEN)
            if okk:
                rule.ok(key, "compares %s characters" % ln)
            else:
                rule.violation(f.file, f.name, n.get("l"), key, "compares %s characters of %s (magic length %d, common prefix %d)" % (ln, arr, full, PREFIX_LEN))
    if n_sites < 3:
        raise Broken("only %d magic comparison sites found" % n_sites)
    f = prog.fn("cif_parse_internal")
    found = False
    for bl in f.blocks.values():
        c = cfgq.cond_of(f, bl)
        if c is None:
            continue
        c = strip(c)
        if c.get("k") == "bin" and c.get("op") in ("==", "!=") and "tvalue_length" in str(path(strip(c.get("lhs"))) or "") \
                and const(c.get("rhs")) == len(want2):
            found = True        # `== MAGIC_LENGTH` guarding the comparisons, or `!= MAGIC_LENGTH` guarding their absence
    (rule.ok if found else lambda k, d="": rule.violation(f.file, f.name, f.line, k, "token length is not compared with the magic length"))(
        "cif_parse_internal:token-length==magic-length", "")


class ColumnInterp(Interp):
    """ts = (dirty, preset0): dirty = characters were sent to the UFILE and last_column not stored since."""

    def __init__(self, prog, fn):
        super().__init__(prog, fn)
        self.dirty_exits = []
        self.emissions = 0

    def initial_ts(self):
        return (False, False)

    def call(self, st, n, argvals):
        c = n.get("callee")
        if c in EMITTERS:
            self.emissions += 1
            dirty, preset = st.ts
            fmt = literal_text(n["args"][1]) if c == "u_fprintf" and len(n.get("args", [])) > 1 else None
            ends_nl = fmt is not None and fmt.endswith("\n")
            if c == "u_fputc":
                a0 = argvals[0] if argvals else None
                ends_nl = a0 is not None and a0.is_const() and a0.value() == 10
            if ends_nl and preset:
                ok_ts = (dirty, True)
            else:
                ok_ts = (True, False)
            if c == "u_fputc":
                a0 = argvals[0] if argvals else None
                if a0 is not None and a0.is_const():
                    return [(st.with_ts(ok_ts), a0), (st, AV(None, None, frozenset([a0.value()])))]
                return [(st.with_ts(ok_ts), None)]
            return [(st.with_ts(ok_ts), AV(1, None)), (st, AV(None, 0))]
        if c and self.prog.has_fn(c) and self.prog.fn(c).unit == "ciffile.c":
            # callee keeps its own accounting (checked separately); the column is no longer the preset 0
            return [(st.with_ts((st.ts[0], False)), None)]
        return [(st, None)]

    def assign(self, st, node, lhs, p, av, rhs):
        if p and p.endswith("last_column") and ("->" in p):
            zero = av is not None and av.is_const() and av.value() == 0
            return st.with_ts((False, zero))
        return st

    def on_return(self, st, node, av):
        super().on_return(st, node, av)


def run(prog, chk):
    chk.level = "other"
    chk.explanation = ("Necessary conditions of write/re-parse agreement decided on the code's shape: the magic code is spelled "
                       "identically in the writer, cif_parse and the parser; the 2048 line limit rests on last_column, which every "
                       "emitting function of ciffile.c stores after every emission on every path, and every length-limited "
                       "primitive compares it before emitting; the delimiter choice has a single source (write_char's switch on "
                       "cif_analyze_string's verdict).  Round-trip equality of documents is not decided.")
    r1 = chk.rule("R1-magic-code", "writer literals, CIF2_*_MAGIC (ciffile.c) and CIF1/CIF2_MAGIC (parser.c) spell the same "
                  "code; lengths and comparison lengths agree", floor=8)
    magic_rules(prog, r1)

    r2a = chk.rule("R2a-column-stored", "after every successful emission to the UFILE, last_column is stored before the function "
                   "returns (or was preset to 0 before a literal ending in a newline)", floor=6)
    n_sites = 0
    for fn in prog.all_functions():
        if fn.unit != "ciffile.c":
            continue
        sites = [n for (b, i, r, n) in fn.calls() if n.get("callee") in EMITTERS]
        if not sites:
            continue
        ctx_param = any(p["name"] == "context" for p in fn.params)
        if not ctx_param:
            continue
        n_sites += len(sites)
        it = ColumnInterp(prog, fn).run()
        if it.overflow:
            r2a.unproved(fn.key, "not analysed to a fixpoint")
            continue
        bad = {}
        for st, av, node in it.exits:
            if st.ts[0]:
                # a failure return needs no accounting: constant error codes, negative counts, CIF_FALSE of write_newline
                if av is not None and ((av.is_const() and av.value() != 0 and fn.name != "write_newline") or av.negative()):
                    continue
                if av is not None and av.is_const() and av.value() == 0 and fn.name == "write_newline":
                    continue
                bad.setdefault(node.get("l") if node else None, (st, av, node))
        for line, (st, av, node) in bad.items():
            r2a.violation(fn.file, fn.name, line, "emission-without-column-store:%s" % (node.get("txt") if node else "fall-off"),
                          "characters are emitted and the function returns (%r) without storing last_column" % (av,),
                          path=["L%s" % x for x in st.trail_lines()])
        if not bad:
            r2a.ok(fn.key, "%d emission sites, %d exits, column stored on all success paths" % (len(sites), len(it.exits)), n=len(sites))
    if n_sites < 8:
        raise Broken("only %d emission sites found in ciffile.c" % n_sites)

    r2b = chk.rule("R2b-limit-compared", "each length-limited primitive compares last_column + length (+ delimiters) with the line "
                   "limit before emitting; past a failed comparison only write_newline leads to the emission", floor=4)
    limit = prog.macro_int("CIF_LINE_LENGTH")
    for fname, lenvar in (("write_literal", "length"), ("write_uliteral", "length"), ("write_quoted", "length"),
                          ("write_triple_quoted", "line1_length")):
        fn = prog.fn(fname)
        ems = [(b.id, i, n) for (b, i, r, n) in fn.calls() if n.get("callee") in EMITTERS]
        if not ems:
            raise Broken("%s: no emission found" % fname)
        guards = []
        for b in fn.blocks.values():
            c = cfgq.cond_of(fn, b)
            if c is None:
                continue
            c = strip(c)
            if c.get("k") == "bin" and c.get("op") in (">", ">=") and const(c.get("rhs")) == limit:
                ps = {path(x) for x in walk(c.get("lhs")) if x.get("k") == "ref"}
                if lenvar in ps and "last_column" in ps:
                    guards.append(b)
        if not guards:
            r2b.violation(fn.file, fn.name, fn.line, "no-limit-comparison", "%s never compares last_column + %s with the line limit" % (fname, lenvar))
            continue
        for (bid, idx, n) in ems:
            if not cfgq.must_precede(fn, (bid, idx), [(g.id, 10 ** 6) for g in guards]):
                r2b.violation(fn.file, fn.name, n.get("l"), "emission-before-comparison", "the emission is reachable without the limit comparison")
                continue
            nl = {b.id for (b, i, r, c2) in fn.calls_to("write_newline")}
            okk = True
            for g in guards:
                too_long = g.succs[0]
                if too_long is None:
                    continue
                r = cfgq.reach(fn, [too_long], nl - {too_long})
                if bid in r and too_long not in nl:
                    okk = False
            if okk:
                r2b.ok("%s:emission L%s" % (fname, n.get("l")), "guarded; too-long edge reaches it only through write_newline")
            else:
                r2b.violation(fn.file, fn.name, n.get("l"), "too-long-edge-reaches-emission",
                              "after a failed limit comparison the emission is reachable without write_newline")

    r3 = chk.rule("R3-single-delimiter-source", "write_unquoted/_quoted/_triple_quoted/_text are called only from write_char",
                  floor=4)
    callers = prog.callers()
    for w in ("write_unquoted", "write_quoted", "write_triple_quoted", "write_text"):
        prog.fn(w)
        cs = sorted({f.name for (f, b, i, r, n) in callers.get(w, [])})
        if cs == ["write_char"]:
            r3.ok(w, "only caller: write_char")
        else:
            r3.violation("ciffile.c", w, prog.fn(w).line, "caller:" + w, "%s is called from %s (expected only write_char)" % (w, cs))

    r4 = chk.rule("R4-writer-length-contract", "what write_char hands to the delimiter-specific writers is consistent with how they use "
                  "it: an index into the analysed text built from an analysis length is never past the terminator, and the "
                  "success test on the number of characters emitted can be met by every string the analyser routes there", floor=3)
    if writer_contract(prog, r4) < 3:
        raise Broken("writer length contract: too few obligations found")


    r5 = chk.rule("R5-declaration-parameter-names", "every declaration of a function of the writer's unit names its parameters as the "
                  "definition does: two same-position parameters are never exchanged (callers follow the declaration)", primary=False, floor=20)
    from .. import memrules
    if memrules.declaration_parameter_agreement(prog, r5, units=("ciffile.c",)) < 20:
        raise Broken("fewer than 20 declaration/definition pairs in ciffile.c")

    text_field_rules(prog, chk, "R6", "R7")
    precision_rule(prog, chk, "R9")
    column_advance_rule(prog, chk, "R11")
    name_line_rule(prog, chk, "R12")
    first_line_rule(prog, chk, "R13")
    # the writer quotes a value with whatever the analyser recommends: the analyser's evidence rule is a condition of C02 too
    from . import c18
    c18.delimiter_agreement(prog, chk)
    # a value the reserved-word recogniser lets through is written bare: its agreement with next_token is a condition of C02
    c18.reserved_words_rule(prog, chk, rid="R14", primary=False)

    r10 = chk.rule("R10-surrogate-range-tests", "the writer's tests for surrogate pairs (where a folded line may be split) cut the code "
                   "units exactly at the boundaries of the lead and trail ranges", floor=8)
    from .. import unirange
    if unirange.rule(prog, r10, units=("ciffile.c",)) < 8:
        raise Broken("fewer than 8 surrogate range comparisons found in ciffile.c")

    r8 = chk.rule("R8-column-copies-fresh", "a local computed from the writer's last_column is not used after a call that writes "
                  "output (and so moves the column) unless it was recomputed or reset: line-length decisions look at the column "
                  "the next character will actually get", floor=4)
    if memrules.stale_state_copies(prog, r8, "ciffile.c", "last_column",
                                   "the room left on the line is judged from a column the output has already moved on from") < 4:
        raise Broken("fewer than 4 locals computed from last_column in ciffile.c")


def name_line_rule(prog, chk, rid):
    from .. import writerrules
    rr = chk.rule(rid + "-name-line-budget", "the literal characters a format puts on the line of a block / frame code or data name "
                  "fit in what the name validator leaves of the line (5 for codes, 0 for data names), unless that arm of the format "
                  "is selected under a length test that makes room: the longest valid name is not written as an over-length line",
                  floor=3)
    if writerrules.name_line_budget(prog, rr) < 3:
        raise Broken("fewer than 3 name emissions (container headers, loop header names) found in ciffile.c")


def first_line_rule(prog, chk, rid):
    from .. import writerrules
    rr = chk.rule(rid + "-first-line-budget", "the fold decision of a text field is true for a value whose first line has exactly the "
                  "line length: that line is written behind the opening `;` and would be one character too long", floor=1)
    if writerrules.first_line_budget(prog, rr) < 1:
        raise Broken("no call of write_text with a computed fold decision found")


def column_advance_rule(prog, chk, rid):
    from .. import writerrules
    rr = chk.rule(rid + "-column-advance-equals-emission", "after an emission whose count is kept, last_column advances by that count "
                  "or by every character the format emits (delimiters included)", floor=3)
    if writerrules.column_advance(prog, rr) < 3:
        raise Broken("fewer than 3 column stores after a counted emission in ciffile.c")


def precision_rule(prog, chk, rid):
    from .. import writerrules
    r9 = chk.rule(rid + "-precision-in-code-units", "the precision of every %S conversion is a count of UChar units (never a "
                  "u_countChar32 result): names and values with supplementary-plane characters are written whole", floor=3)
    if writerrules.precision_units(prog, r9) < 3:
        raise Broken("fewer than 3 %S conversions with a `*` precision in ciffile.c")


def text_field_rules(prog, chk, ida, idb):
    from .. import writerrules
    ra0 = chk.rule(ida + "a-text-field-only-where-allowed", "write_char writes a text field only where its caller allows one: the "
                   "write_text call is dominated by a non-zero test of the allow_text parameter in every dialect (table keys "
                   "cannot be text fields)", floor=1)
    wcf = prog.fn("write_char")
    wt_calls = wcf.calls_to("write_text")
    allow = next((p_["name"] for p_ in wcf.params if p_["name"].startswith("allow")), None)
    if not wt_calls or allow is None:
        raise Broken("write_char: write_text call or allow_text parameter not found")

    def allowed(c):
        z = cfgq.zero_test(c, lambda e: path(strip(e)) == allow)
        return None if z is None else ("false" if z == "true" else "true")
    ae = cfgq.guard_edges(wcf, allowed)
    for (b, i, r, c) in wt_calls:
        if ae and cfgq.must_pass_edge(wcf, b.id, ae):
            ra0.ok("write_char:L%s" % c.get("l"), "dominated by `%s` non-zero" % allow)
        else:
            ra0.violation(wcf.file, wcf.name, c.get("l"), "text-field-where-not-allowed",
                          "write_text at L%s can be reached with `%s` zero (the refusal is tied to another condition as well): a "
                          "table key that can be neither quoted nor triple-quoted is written as a text field, which the parser "
                          "rejects as a key" % (c.get("l"), allow))
    rp = chk.rule(idb + "b-fold-accounts-for-prefix", "write_char's decision not to fold a text field compares the longest line plus "
                  "the prefix length with the limit when a prefix can be requested", floor=1)
    writerrules.fold_accounts_for_prefix(prog, rp)
    ra = chk.rule(ida + "-text-line-terminators", "write_text (folding / prefixing): every iteration of the loop over the value's "
                  "logical lines writes a line terminator - no logical line, the empty last one included, is dropped", floor=1)
    line_loop_rule(prog, ra)
    rc = chk.rule(ida + "b-protected-line-continued", "write_text: after a line whose fold marker protects a trailing backslash an "
                  "empty line is written, for the last logical line as for every other", floor=1)
    protected_line_rule(prog, rc)
    rb = chk.rule(idb + "-folded-first-character", "a folded text field starts its content in column 1: the decision to prefix or "
                  "refuse depends on whether the value's first character is `;`", floor=1)
    first_char_semicolon_rule(prog, rb)


# ------------------------------------------------------------------------------------------------- text-field body rules
def _newline_emission(n):
    """call node that writes a line terminator to the output: u_fputc(UCHAR_NL, ..) or u_fprintf(.., "\n...")"""
    if n.get("k") != "call":
        return False
    c = n.get("callee")
    a = n.get("args", [])
    if c == "u_fputc" and a and const(a[0]) == 0x0A:
        return True
    if c == "u_fprintf" and len(a) > 1:
        t = literal_text(a[1])
        return bool(t) and t.startswith("\n")
    return False


def line_loop_rule(prog, rule):
    """write_text, folding/prefixing branch: the loop over the logical lines of the value writes a line terminator on every
    iteration (each logical line, the empty last line of a value ending in a newline included, is announced by its own
    newline; an iteration that writes none drops a line of the value).  Path search over one iteration, with the zero /
    non-zero facts established by the branches taken (so `if (*tok == 0) .. else while (*tok != 0)` is understood)."""
    from .. import loops
    fn = prog.fn("write_text")
    emit_blocks = {}
    for (b, i, r, n) in fn.calls():
        if _newline_emission(n):
            emit_blocks.setdefault(b.id, []).append(i)
    lps = loops.natural_loops(fn)
    outer = [lp for lp in lps if any(bid in lp.body for bid in emit_blocks)
             and not any(lp is not o and lp.header in o.body and lp.body < o.body for o in lps)]
    if len(outer) != 1:
        raise Broken("write_text: expected exactly one outermost loop that writes line terminators, found %d" % len(outer))
    lp = outer[0]
    inner_emit = sum(len(v) for b, v in emit_blocks.items() if b in lp.body)
    if inner_emit < 2:
        raise Broken("write_text: the line loop contains %d line-terminator emissions (expected the empty-line and the segment one)" % inner_emit)

    def key_of(e):
        e = strip(e)
        return show(e) if isinstance(e, dict) else None

    def branch_fact(cnd):
        """(key, which outcome means zero) for a test of an expression against zero"""
        holder = {}

        def pred(e):
            k = key_of(e)
            if k is not None and e.get("k") in ("ref", "un", "index", "member"):
                holder["k"] = k
                return True
            return False
        z = cfgq.zero_test(cnd, pred)
        if z is None or "k" not in holder:
            return None
        return holder["k"], z

    def kills(b):
        """variables written in block b, and whether something is stored through a pointer"""
        ws, through = set(), False
        for r in b.roots:
            rd, wr, calls, dw, dr = loops.rw(r)
            ws |= set(wr)
            through = through or dw
        return ws, through

    def mentions(key, var):
        return re.search(r"\b%s\b" % re.escape(var), key) is not None

    hdr = lp.header
    start = [s for s in fn.blocks[hdr].succs if s is not None and s in lp.body]
    seen = set()
    stack = [(s, frozenset(), (hdr, s)) for s in start]
    bad = None
    steps = 0
    while stack and bad is None:
        bid, facts, trail = stack.pop()
        steps += 1
        if steps > 200000:
            raise Broken("write_text line loop: path search exceeded its budget")
        if (bid, facts) in seen:
            continue
        seen.add((bid, facts))
        if bid == hdr:
            bad = trail
            break
        if bid not in lp.body or bid in emit_blocks:
            continue                    # left the loop (error return) or wrote a line terminator
        b = fn.blocks[bid]
        ws, through = kills(b)
        facts = frozenset((k, v) for (k, v) in facts
                          if not any(mentions(k, w.lstrip("*(").split("->")[0].split(".")[0].split("[")[0]) for w in ws)
                          and not (through and ("*" in k or "[" in k or "->" in k)))
        cnd = cfgq.cond_of(fn, b) if len(b.succs) == 2 else None
        bf = branch_fact(cnd) if cnd is not None else None
        for idx, s in enumerate(b.succs):
            if s is None:
                continue
            f2 = facts
            if bf is not None:
                k, zero_on = bf
                is_zero = (idx == 0) == (zero_on == "true")
                known = dict(facts).get(k)
                if known is not None and known != is_zero:
                    continue            # contradicts what an earlier branch on this path established
                f2 = facts | {(k, is_zero)}
            stack.append((s, f2, trail + (s,)))
    if bad is None:
        rule.ok("write_text:line-loop", "every iteration of the loop at L%s passes one of %d line-terminator emissions"
                % (fn.blocks[hdr].term.get("l") if fn.blocks[hdr].term else "?", inner_emit))
    else:
        lines = []
        for x in bad:
            t = fn.blocks[x].term
            if t and t.get("l") and (not lines or lines[-1] != t["l"]):
                lines.append(t["l"])
        rule.violation(fn.file, fn.name, fn.blocks[hdr].term.get("l") if fn.blocks[hdr].term else fn.line, "line-without-terminator",
                       "an iteration of the loop over the value's logical lines can complete without writing a line terminator "
                       "(branches at lines %s): that logical line - the empty last line of a value that ends in a newline - is "
                       "dropped from a folded or prefixed text field, so the value is read back without its final newline"
                       % ", ".join(str(x) for x in lines), path=["L%s" % x for x in lines])
    return 1


def protected_line_rule(prog, rule):
    """write_text: a logical line that ends in a backslash is written with a protecting fold marker (a `\\` after its last
    segment); the marker continues the line onto the next physical one, so an empty line must follow - before the next logical
    line and before the closing delimiter alike.  From the end of the segment loop, on the paths where the protect flag is
    non-zero, a line terminator is written before the line loop is re-entered or left."""
    from .. import loops
    fn = prog.fn("write_text")
    emit_blocks = {b.id for (b, i, r, n) in fn.calls() if _newline_emission(n)}
    lps = loops.natural_loops(fn)
    outer = [lp for lp in lps if any(bid in lp.body for bid in emit_blocks)
             and not any(lp is not o and lp.header in o.body and lp.body < o.body for o in lps)]
    if len(outer) != 1:
        raise Broken("write_text: line loop not found")
    lp = outer[0]
    # the segment loop: the inner loop containing the fold-marker emission
    seg_calls = [b.id for (b, i, r, c) in fn.calls_to("u_fprintf")
                 if any(literal_text(y) == "\\" for a in c.get("args", []) for y in walk(a) if y.get("k") == "str") and b.id in lp.body]
    inner = [l2 for l2 in lps if l2 is not lp and l2.body < lp.body and any(bid in l2.body for bid in seg_calls)]
    if not inner:
        raise Broken("write_text: segment loop not found")
    seg = min(inner, key=lambda l2: len(l2.body))
    # the protect flag: a local tested in the condition that selects the "\\" suffix of the segment emission; a local that is
    # itself computed inside the segment loop (`continued = tok[len] || protect`) is looked through
    seg_defs = {}
    for bid in seg.body:
        for r in fn.blocks[bid].roots:
            for x in walk_eval(r):
                if x.get("k") == "asg" and x.get("op") == "=" and isinstance(strip(x.get("lhs")), dict) and strip(x["lhs"]).get("k") == "ref":
                    seg_defs.setdefault(strip(x["lhs"])["name"], []).append(x.get("rhs"))
                elif x.get("k") == "decl":
                    for v in x.get("vars", []):
                        if v.get("init") is not None:
                            seg_defs.setdefault(v["name"], []).append(v["init"])
    flags = set()

    def tested(e, depth=0):
        e = strip(e)
        if not isinstance(e, dict) or depth > 4:
            return
        if e.get("k") == "ref" and e.get("dk") == "local":
            if e["name"] in seg_defs:
                for d_ in seg_defs[e["name"]]:
                    tested(d_, depth + 1)
            else:
                flags.add(e["name"])
        elif e.get("k") == "bin" and e.get("op") in ("||", "&&", "!=", "=="):
            tested(e.get("lhs"), depth)
            tested(e.get("rhs"), depth)
        elif e.get("k") == "un" and e.get("op") == "!":
            tested(e.get("e"), depth)
    for (b, i, r, c) in fn.calls_to("u_fprintf"):
        if b.id not in seg.body:
            continue
        for a in c.get("args", []):
            for x in walk(a):
                if x.get("k") == "cond":
                    arms = [literal_text(y) for y in walk(x.get("then")) if y.get("k") == "str"] + \
                           [literal_text(y) for y in walk(x.get("else")) if y.get("k") == "str"]
                    if "\\" in arms:
                        tested(x.get("c"))
    locals_int = {l["name"] for l in fn.locals if l.get("t", "").strip() == "int"}
    flags &= locals_int
    if len(flags) != 1:
        raise Broken("write_text: the protect flag of the fold-marker emission was not identified (candidates: %s)" % sorted(flags))
    flag = next(iter(flags))
    exits = sorted({s for bid in seg.body for s in fn.blocks[bid].succs if s is not None and s not in seg.body and s in lp.body})
    if not exits:
        raise Broken("write_text: the segment loop has no exit inside the line loop")
    # barrier: emissions outside the segment loop (the empty continuation line)
    barriers = {bid for bid in emit_blocks if bid not in seg.body}
    found = cfgq.fact_reach(fn, exits, barriers, init_facts=[(flag, False)])
    escaped = [bid for bid in found if bid == lp.header or bid not in lp.body]
    if escaped:
        trail = found[escaped[0]]
        lines = []
        for x in trail:
            t = fn.blocks[x].term
            if t and t.get("l") and (not lines or lines[-1] != t["l"]):
                lines.append(t["l"])
        rule.violation(fn.file, fn.name, lines[-1] if lines else fn.line, "protected-line-not-continued",
                       "with `%s` set (the line's last segment got a protecting fold marker) the line loop can be re-entered or "
                       "left (branches at lines %s) without an empty line having been written: the marker then folds the line into "
                       "whatever follows - for the last line of the value, into the closing delimiter's line, and the value is "
                       "read back with an extra backslash" % (flag, ", ".join(str(x) for x in lines)),
                       path=["L%s" % x for x in lines])
    else:
        rule.ok("write_text:%s" % flag, "an empty line follows every protected line (%d exit(s) of the segment loop examined)" % len(exits))
    return 1


def first_char_semicolon_rule(prog, rule):
    """A folded (or prefixed) text field starts its content on a new physical line, so a value whose first character is `;`
    would close the field at once unless a prefix is put in front of it (or the value is refused).  Necessary condition
    checked: the decision whether to prefix / refuse - the prefix argument write_char hands to write_text, the branch
    conditions deciding the refusal there, or write_text's own handling - depends on a comparison of the value's first
    character with UCHAR_SEMI."""
    SEMI = 0x3B

    def first_char_tests(fn, textvars):
        out = []
        for (b, i, r, n) in fn.eval_sites("bin"):
            if n.get("op") not in ("==", "!="):
                continue
            for x, o in ((n.get("lhs"), n.get("rhs")), (n.get("rhs"), n.get("lhs"))):
                if const(o) != SEMI:
                    continue
                x = strip(x)
                if not isinstance(x, dict):
                    continue
                if x.get("k") == "un" and x.get("op") == "*" and path(strip(x.get("e"))) in textvars:
                    out.append(n)
                elif x.get("k") == "index" and const(x.get("idx")) == 0 and path(strip(x.get("base"))) in textvars:
                    out.append(n)
        return out

    wc = prog.fn("write_char")
    calls = wc.calls_to("write_text")
    if len(calls) != 1:
        raise Broken("write_char: expected one call of write_text, found %d" % len(calls))
    (cb, ci, cr, call) = calls[0]
    wt = prog.fn("write_text")
    if len(call.get("args", [])) != len(wt.params) or len(wt.params) < 5:
        raise Broken("write_text signature changed")
    text_arg = path(strip(call["args"][1]))
    fold_ix = next((i for i, p in enumerate(wt.params) if p["name"] == "fold"), None)
    prefix_ix = next((i for i, p in enumerate(wt.params) if p["name"] == "prefix"), None)
    if text_arg is None or prefix_ix is None or fold_ix is None:
        raise Broken("write_text: text / fold / prefix parameters not found")
    # 1. in write_char: a first-character test that the prefix argument or a branch deciding the refusal depends on
    tests = first_char_tests(wc, {text_arg})
    test_ids = {t.get("id") for t in tests}
    # locals whose value depends on such a test (assignment closure)
    dep_locals = set()
    changed = True
    while changed:
        changed = False
        for (b, i, r, n) in list(wc.eval_sites("asg")) + [(b, i, r, v) for (b, i, r, d) in wc.eval_sites("decl") for v in d.get("vars", [])]:
            if n.get("k") == "asg":
                tgt, rhs = path(strip(n.get("lhs"))), n.get("rhs")
            else:
                tgt, rhs = n.get("name"), n.get("init")
            if tgt is None or rhs is None or tgt in dep_locals:
                continue
            for x in walk(rhs):
                if x.get("id") in test_ids or (x.get("k") == "ref" and x.get("name") in dep_locals):
                    dep_locals.add(tgt)
                    changed = True
                    break

    def depends(e):
        return any(x.get("id") in test_ids or (x.get("k") == "ref" and x.get("name") in dep_locals) for x in walk(e))
    how = None
    if depends(call["args"][prefix_ix]):
        how = "the prefix argument of the write_text call at L%s depends on a test of %s[0] against `;`" % (call.get("l"), text_arg)
    else:
        # a branch whose one side reaches the call and whose other side does not (the refusal), depending on the test
        for b in wc.blocks.values():
            if len(b.succs) != 2 or None in b.succs:
                continue
            full = b.term.get("full") if b.term else None
            cnd = full if isinstance(full, dict) else cfgq.cond_of(wc, b)
            if cnd is None or not depends(cnd):
                continue
            r0, r1 = cfgq.reach(wc, [b.succs[0]]), cfgq.reach(wc, [b.succs[1]])
            if (cb.id in r0) != (cb.id in r1):
                how = "the branch at L%s that decides between write_text and a refusal depends on a test of %s[0] against `;`" % (b.term.get("l"), text_arg)
                break
    if how is None:
        # 2. write_text handles it itself
        tv = wt.params[1]["name"]
        if first_char_tests(wt, {tv}):
            how = "write_text itself compares %s[0] with `;`" % tv
    if how:
        rule.ok("write_char->write_text:first-character", how)
    else:
        rule.violation(wc.file, wc.name, call.get("l"), "folded-first-line-semicolon",
                       "write_text starts the content of a folded text field on a new physical line, but neither the prefix "
                       "argument at L%s, nor a refusal before it, nor write_text itself depends on whether the value's first "
                       "character is `;`: a value that starts with `;` and needs folding is written with `;` in column 1, which "
                       "ends the text field at once" % call.get("l"))
    return 1


# fields of struct cif_string_analysis_s that are lengths of (parts of) the analysed string: each is <= length, with
# equality for single-line strings (cif_analyze_string sets them all to the string length then)
ANALYSIS_LENGTHS = ("length", "length_first", "length_last", "length_max")


def _lin(n, subst=None, depth=0):
    """Linear form {symbol: coeff, '': const} of an int expression over analysis fields / parameters."""
    n = strip(n)
    if not isinstance(n, dict) or depth > 10:
        return None
    c = const(n)
    if c is not None:
        return {"": c}
    p = path(n)
    if p is not None and n.get("k") in ("ref", "member"):
        if subst is not None and p in subst:
            return dict(subst[p]) if subst[p] is not None else None
        m = re.match(r"^analysis\.(\w+)$", p)
        if m and m.group(1) in ANALYSIS_LENGTHS:
            return {m.group(1): 1, "": 0}
        return {p: 1, "": 0}
    if n.get("k") == "bin" and n.get("op") in ("+", "-"):
        a, b = _lin(n.get("lhs"), subst, depth + 1), _lin(n.get("rhs"), subst, depth + 1)
        if a is None or b is None:
            return None
        out = dict(a)
        sg = 1 if n["op"] == "+" else -1
        for k, v in b.items():
            out[k] = out.get(k, 0) + sg * v
        return {k: v for k, v in out.items() if v != 0 or k == ""}
    return None


def _fixed_chars(fmt):
    """(number of characters a u_fprintf format emits besides its one string conversion, has a string conversion)."""
    fixed, i, strings = 0, 0, 0
    while i < len(fmt):
        if fmt[i] == "%":
            j = i + 1
            while j < len(fmt) and fmt[j] in "*.0123456789-+ #lh":
                j += 1
            conv = fmt[j] if j < len(fmt) else ""
            if conv == "%":
                fixed += 1
            elif conv == "c":
                fixed += 1
            elif conv in ("S", "s"):
                strings += 1
            else:
                return None, 0
            i = j + 1
        else:
            fixed += 1
            i += 1
    return fixed, strings


def writer_contract(prog, rule):
    wc = prog.fn("write_char")
    n_obl = 0
    for (b, i, r, c) in wc.calls():
        w = c.get("callee")
        if w not in ("write_unquoted", "write_quoted", "write_triple_quoted", "write_text") or not prog.has_fn(w):
            continue
        fn = prog.fn(w)
        subst = {}
        text_param = None
        for k, a in enumerate(c.get("args", [])):
            if k >= len(fn.params):
                break
            pname = fn.params[k]["name"]
            if path(strip(a)) == "text":
                text_param = pname
            else:
                subst[pname] = _lin(a)
        if text_param is None:
            continue
        # parameters re-assigned inside the writer lose their meaning
        for (b2, i2, r2, a2) in fn.eval_sites("asg"):
            lp = path(strip(a2.get("lhs")))
            if lp in subst:
                subst[lp] = None
        # (i) indexes into the analysed text
        for (b2, i2, r2, x) in fn.eval_sites("index"):
            if path(strip(x.get("base"))) != text_param:
                continue
            lf = _lin(x.get("idx"), subst)
            if lf is None:
                continue
            syms = {k: v for k, v in lf.items() if k}
            if len(syms) == 1 and list(syms.values()) == [1] and list(syms)[0] in ANALYSIS_LENGTHS:
                n_obl += 1
                fld, k = list(syms)[0], lf.get("", 0)
                key = "%s:%s[%s]" % (w, text_param, show_lin(lf))
                if k >= 1:
                    rule.violation(fn.file, w, x.get("l"), "index-past-terminator:%s" % w,
                                   "%s reads %s[%s] where write_char passes `%s`: that is %s[analysis.%s %+d]; for a single-line string "
                                   "analysis.%s equals the string length, so the read is %d element(s) past the terminator (and the "
                                   "decision taken on it is arbitrary)" % (w, text_param, show(x.get("idx")), show(c["args"][[pp["name"] for pp in fn.params].index(path(strip(x.get("idx"))))]) if path(strip(x.get("idx"))) in [pp["name"] for pp in fn.params] else show(x.get("idx")),
                                                                          text_param, fld, k, fld, k))
                else:
                    rule.ok(key, "at or before the terminator for every string")
        # (ii) the success test on the emitted count
        counts = {}
        for (b2, i2, r2, a2) in fn.eval_sites("asg"):
            rr = strip(a2.get("rhs"))
            if isinstance(rr, dict) and rr.get("k") == "call" and rr.get("callee") == "u_fprintf" and len(rr.get("args", [])) > 1:
                fmt = literal_text(rr["args"][1])
                if fmt is not None:
                    fixed, strings = _fixed_chars(fmt)
                    if fixed is not None and strings == 1:
                        # a precision (`%*.*S`) limits the text to that many characters
                        prec = None
                        if "*.*" in fmt and len(rr["args"]) > 3:
                            prec = _lin(rr["args"][3], subst)
                        counts[path(strip(a2.get("lhs")))] = (fixed, prec, rr)
        for (b2, i2, r2, rt) in fn.returns():
            e = strip(rt.get("e")) if rt.get("e") else None
            if not isinstance(e, dict) or e.get("k") != "cond":
                continue
            cnd = strip(e.get("c"))
            if not isinstance(cnd, dict) or cnd.get("k") != "bin" or cnd.get("op") not in (">=", "==", ">"):
                continue
            v = path(strip(cnd.get("lhs")))
            if v not in counts or const(e.get("then")) != 0:
                continue
            fixed, prec, call = counts[v]
            need = _lin(cnd.get("rhs"), subst)
            if need is None:
                continue
            emitted = dict(prec) if prec is not None else {"length": 1, "": 0}
            emitted[""] = emitted.get("", 0) + fixed
            syms_n = {k: c2 for k, c2 in need.items() if k}
            syms_e = {k: c2 for k, c2 in emitted.items() if k}
            if len(syms_n) != 1 or list(syms_n.values()) != [1] or list(syms_n)[0] not in ANALYSIS_LENGTHS \
                    or len(syms_e) != 1 or list(syms_e)[0] not in ANALYSIS_LENGTHS:
                continue
            n_obl += 1
            # worst case: the required field equals the string length (single-line strings)
            slack = emitted.get("", 0) - need.get("", 0)
            op = cnd["op"]
            okk = (slack >= 0) if op == ">=" else (slack > 0 if op == ">" else (slack == 0 and list(syms_n)[0] == list(syms_e)[0]))
            key = "%s:success-test %s %s %s" % (w, v, op, show_lin(need))
            if okk:
                rule.ok(key, "emits %s characters; the test can be met by every string" % show_lin(emitted))
            else:
                rule.violation(fn.file, w, rt.get("l"), "success-test-unsatisfiable:%s" % w,
                               "%s reports success only if `%s %s %s`, which with write_char's arguments is %s; the format emits %s "
                               "characters, so for every single-line string (analysis.%s == length) the test fails and cif_write "
                               "returns CIF_ERROR for a value it should write" % (
                                   w, v, op, show(cnd.get("rhs")), show_lin(need), show_lin(emitted), list(syms_n)[0]))
    return n_obl


def show_lin(lf):
    parts = ["%s%s" % ("" if c == 1 else "%d*" % c, k) for k, c in sorted(lf.items()) if k and c]
    k = lf.get("", 0)
    if k or not parts:
        parts.append("%d" % k)
    return " + ".join(parts).replace("+ -", "- ")
