"""C02 — what cif_write emits re-parses: magic-code agreement, complete column accounting, single delimiter source."""
import re

from ..facts import Broken, strip, const, walk, walk_eval, show
from ..interp import Interp, State, path, av_const, AV, NONZERO
from .. import cfgq
from ..sqlmodel import literal_text

EMITTERS = ("u_fprintf", "u_fputc", "u_fputs", "u_file_write", "u_vfprintf")
PREFIX_LEN = 7          # "#\#CIF_" : the part shared by the magic codes of all CIF versions


def array_ints(g):
    init = strip(g.get("init")) if g else None
    if not init:
        return None
    if init.get("k") == "str":
        return [ord(c) for c in init.get("v", "")] if "v" in init else init.get("units")
    if init.get("k") == "init":
        return [const(e) for e in init.get("elems", [])]
    return None


def writer_magic(prog):
    fn = prog.fn("write_cif_start")
    cond = None
    for (b, i, r, n) in fn.eval_sites():
        pass
    for b in fn.blocks.values():
        for r in b.roots:
            for n in walk(r):
                if n.get("k") == "cond":
                    th = [x for x in walk(n["then"]) if x.get("k") == "call" and x.get("callee") in EMITTERS]
                    el = [x for x in walk(n["else"]) if x.get("k") == "call" and x.get("callee") in EMITTERS]
                    c = strip(n["c"])
                    if th and el and c.get("k") == "bin" and c.get("op") == "==" and (path(strip(c.get("lhs"))) or "").endswith("version"):
                        v = const(c.get("rhs"))
                        t1, t2 = literal_text(th[0]["args"][1]), literal_text(el[0]["args"][1])
                        if v == 1:
                            cond = (t1, t2)
                        elif v == 2:
                            cond = (t2, t1)
    if not cond:
        raise Broken("write_cif_start: dialect-selecting magic literals not found")
    return fn, cond[0], cond[1]


def magic_rules(prog, rule):
    """Shared by C02 R1 and C11 R1."""
    fn, lit1, lit2 = writer_magic(prog)
    want1, want2 = "#\\#CIF_1.1", "#\\#CIF_2.0"
    for name, lit, want in (("CIF 1.1", lit1, want1), ("CIF 2.0", lit2, want2)):
        if lit == want + "\n":
            rule.ok("writer-literal:" + name, repr(lit))
        else:
            rule.violation(fn.file, fn.name, fn.line, "writer-literal:" + name,
                           "write_cif_start emits %r for %s, expected %r followed by a newline" % (lit, name, want))
    gl = prog.globals
    for gname, want, unit in (("CIF2_DEFAULT_MAGIC", want2, "ciffile.c"), ("CIF2_UTF8_MAGIC", want2, "ciffile.c"),
                              ("CIF2_MAGIC", want2, "parser.c"), ("CIF1_MAGIC", want1, "parser.c")):
        g = gl.get(gname)
        if not g and gname == "CIF1_MAGIC":
            # judged by C11 R3 (other-version comments select CIF 1.1): its absence is a finding there, not a lost anchor
            rule.info("array:CIF1_MAGIC", "not present")
            continue
        if not g:
            raise Broken("magic array %s not found" % gname)
        ints = array_ints(g)
        if ints is None:
            raise Broken("magic array %s has no readable initialiser" % gname)
        ints = [x for x in ints]
        while ints and ints[-1] == 0:
            ints.pop()
        if ints == [ord(c) for c in want]:
            rule.ok("array:" + gname, want)
        else:
            rule.violation(g["file"], gname, g["line"], "array:" + gname,
                           "%s spells %r, expected %r" % (gname, "".join(chr(x) if x and 32 <= x < 127 else "?" for x in ints), want))
    # lengths
    ml_c = [m for m in prog.macro_defs("MAGIC_LENGTH") if m["file"].endswith("ciffile.c")]
    ml_p = [m for m in prog.macro_defs("MAGIC_LENGTH") if m["file"].endswith("parser.c")]
    me = [m for m in prog.macro_defs("MAGIC_EXTRA") if m["file"].endswith("ciffile.c")]
    if not ml_c or not ml_p or not me:
        raise Broken("MAGIC_LENGTH / MAGIC_EXTRA macros not found")
    lc, lp, le = int(ml_c[-1]["body"]), int(ml_p[-1]["body"]), int(me[-1]["body"])
    if lc == PREFIX_LEN and lc + le == len(want2) and lp == len(want2):
        rule.ok("lengths", "ciffile.c %d+%d, parser.c %d" % (lc, le, lp))
    else:
        rule.violation("ciffile.c", "MAGIC_LENGTH", ml_c[-1]["line"], "lengths",
                       "MAGIC_LENGTH/EXTRA = %d/%d (ciffile.c), %d (parser.c); the magic code has %d characters, %d shared by all versions"
                       % (lc, le, lp, len(want2), PREFIX_LEN))
    if want1[:PREFIX_LEN] != want2[:PREFIX_LEN]:
        raise Broken("internal: prefix table")
    # comparison sites
    n_sites = 0
    for fname, cmpf in (("cif_parse_internal", "u_strncmp"), ("cif_parse", "memcmp")):
        f = prog.fn(fname)
        for (b, i, r, n) in f.calls_to(cmpf):
            args = n.get("args", [])
            names = [path(strip(a)) for a in args[:2]]
            arr = next((x for x in names if x in ("CIF1_MAGIC", "CIF2_MAGIC", "CIF2_DEFAULT_MAGIC", "CIF2_UTF8_MAGIC")), None)
            if not arr:
                continue
            n_sites += 1
            ln = const(args[2])
            key = "%s:%s(%s,%s)" % (fname, cmpf, arr, ln)
            full = len(want2)
            # polarity of the use: `cmp(...) == 0` identifies this very magic code, `cmp(...) != 0` rules out any magic code
            pol = None
            for x in walk(r):
                if x.get("k") == "bin" and x.get("op") in ("==", "!="):
                    l, rr = strip(x.get("lhs")), strip(x.get("rhs"))
                    if (isinstance(l, dict) and l.get("id") == n.get("id") and const(rr) == 0) or \
                            (isinstance(rr, dict) and rr.get("id") == n.get("id") and const(l) == 0):
                        pol = x["op"]
            key = "%s:%s(%s,%s)%s" % (fname, cmpf, arr, ln, pol or "")
            if arr == "CIF1_MAGIC":
                okk = ln == PREFIX_LEN          # "a magic code for another version": the common prefix only
            elif pol == "!=":
                okk = ln == PREFIX_LEN          # "no magic code of any version": must not distinguish versions
            elif pol == "==":
                okk = ln == full                # "this is the CIF 2.0 magic code": the whole code
            else:
                okk = ln in (full, PREFIX_LEN)
            if okk:
                rule.ok(key, "compares %s characters" % ln)
            else:
                rule.violation(f.file, f.name, n.get("l"), key, "compares %s characters of %s (magic length %d, common prefix %d)" % (ln, arr, full, PREFIX_LEN))
    if n_sites < 3:
        raise Broken("only %d magic comparison sites found" % n_sites)
    f = prog.fn("cif_parse_internal")
    found = False
    for bl in f.blocks.values():
        c = cfgq.cond_of(f, bl)
        if c is None:
            continue
        c = strip(c)
        if c.get("k") == "bin" and c.get("op") == "==" and const(c.get("rhs")) == len(want2) and "tvalue_length" in str(path(strip(c.get("lhs"))) or ""):
            found = True
    (rule.ok if found else lambda k, d="": rule.violation(f.file, f.name, f.line, k, "token length is not compared with the magic length"))(
        "cif_parse_internal:token-length==magic-length", "")


class ColumnInterp(Interp):
    """ts = (dirty, preset0): dirty = characters were sent to the UFILE and last_column not stored since."""

    def __init__(self, prog, fn):
        super().__init__(prog, fn)
        self.dirty_exits = []
        self.emissions = 0

    def initial_ts(self):
        return (False, False)

    def call(self, st, n, argvals):
        c = n.get("callee")
        if c in EMITTERS:
            self.emissions += 1
            dirty, preset = st.ts
            fmt = literal_text(n["args"][1]) if c == "u_fprintf" and len(n.get("args", [])) > 1 else None
            ends_nl = fmt is not None and fmt.endswith("\n")
            if c == "u_fputc":
                a0 = argvals[0] if argvals else None
                ends_nl = a0 is not None and a0.is_const() and a0.value() == 10
            if ends_nl and preset:
                ok_ts = (dirty, True)
            else:
                ok_ts = (True, False)
            if c == "u_fputc":
                a0 = argvals[0] if argvals else None
                if a0 is not None and a0.is_const():
                    return [(st.with_ts(ok_ts), a0), (st, AV(None, None, frozenset([a0.value()])))]
                return [(st.with_ts(ok_ts), None)]
            return [(st.with_ts(ok_ts), AV(1, None)), (st, AV(None, 0))]
        if c and self.prog.has_fn(c) and self.prog.fn(c).unit == "ciffile.c":
            # callee keeps its own accounting (checked separately); the column is no longer the preset 0
            return [(st.with_ts((st.ts[0], False)), None)]
        return [(st, None)]

    def assign(self, st, node, lhs, p, av, rhs):
        if p and p.endswith("last_column") and ("->" in p):
            zero = av is not None and av.is_const() and av.value() == 0
            return st.with_ts((False, zero))
        return st

    def on_return(self, st, node, av):
        super().on_return(st, node, av)


def run(prog, chk):
    chk.level = "other"
    chk.explanation = ("Necessary conditions of write/re-parse agreement decided on the code's shape: the magic code is spelled "
                       "identically in the writer, cif_parse and the parser; the 2048 line limit rests on last_column, which every "
                       "emitting function of ciffile.c stores after every emission on every path, and every length-limited "
                       "primitive compares it before emitting; the delimiter choice has a single source (write_char's switch on "
                       "cif_analyze_string's verdict).  Round-trip equality of documents is not decided.")
    r1 = chk.rule("R1-magic-code", "writer literals, CIF2_*_MAGIC (ciffile.c) and CIF1/CIF2_MAGIC (parser.c) spell the same "
                  "code; lengths and comparison lengths agree", floor=8)
    magic_rules(prog, r1)

    r2a = chk.rule("R2a-column-stored", "after every successful emission to the UFILE, last_column is stored before the function "
                   "returns (or was preset to 0 before a literal ending in a newline)", floor=6)
    n_sites = 0
    for fn in prog.all_functions():
        if fn.unit != "ciffile.c":
            continue
        sites = [n for (b, i, r, n) in fn.calls() if n.get("callee") in EMITTERS]
        if not sites:
            continue
        ctx_param = any(p["name"] == "context" for p in fn.params)
        if not ctx_param:
            continue
        n_sites += len(sites)
        it = ColumnInterp(prog, fn).run()
        if it.overflow:
            r2a.unproved(fn.key, "not analysed to a fixpoint")
            continue
        bad = {}
        for st, av, node in it.exits:
            if st.ts[0]:
                # a failure return needs no accounting: constant error codes, negative counts, CIF_FALSE of write_newline
                if av is not None and ((av.is_const() and av.value() != 0 and fn.name != "write_newline") or av.negative()):
                    continue
                if av is not None and av.is_const() and av.value() == 0 and fn.name == "write_newline":
                    continue
                bad.setdefault(node.get("l") if node else None, (st, av, node))
        for line, (st, av, node) in bad.items():
            r2a.violation(fn.file, fn.name, line, "emission-without-column-store:%s" % (node.get("txt") if node else "fall-off"),
                          "characters are emitted and the function returns (%r) without storing last_column" % (av,),
                          path=["L%s" % x for x in st.trail_lines()])
        if not bad:
            r2a.ok(fn.key, "%d emission sites, %d exits, column stored on all success paths" % (len(sites), len(it.exits)), n=len(sites))
    if n_sites < 8:
        raise Broken("only %d emission sites found in ciffile.c" % n_sites)

    r2b = chk.rule("R2b-limit-compared", "each length-limited primitive compares last_column + length (+ delimiters) with the line "
                   "limit before emitting; past a failed comparison only write_newline leads to the emission", floor=4)
    limit = prog.macro_int("CIF_LINE_LENGTH")
    for fname, lenvar in (("write_literal", "length"), ("write_uliteral", "length"), ("write_quoted", "length"),
                          ("write_triple_quoted", "line1_length")):
        fn = prog.fn(fname)
        ems = [(b.id, i, n) for (b, i, r, n) in fn.calls() if n.get("callee") in EMITTERS]
        if not ems:
            raise Broken("%s: no emission found" % fname)
        guards = []
        for b in fn.blocks.values():
            c = cfgq.cond_of(fn, b)
            if c is None:
                continue
            c = strip(c)
            if c.get("k") == "bin" and c.get("op") in (">", ">=") and const(c.get("rhs")) == limit:
                ps = {path(x) for x in walk(c.get("lhs")) if x.get("k") == "ref"}
                if lenvar in ps and "last_column" in ps:
                    guards.append(b)
        if not guards:
            r2b.violation(fn.file, fn.name, fn.line, "no-limit-comparison", "%s never compares last_column + %s with the line limit" % (fname, lenvar))
            continue
        for (bid, idx, n) in ems:
            if not cfgq.must_precede(fn, (bid, idx), [(g.id, 10 ** 6) for g in guards]):
                r2b.violation(fn.file, fn.name, n.get("l"), "emission-before-comparison", "the emission is reachable without the limit comparison")
                continue
            nl = {b.id for (b, i, r, c2) in fn.calls_to("write_newline")}
            okk = True
            for g in guards:
                too_long = g.succs[0]
                if too_long is None:
                    continue
                r = cfgq.reach(fn, [too_long], nl - {too_long})
                if bid in r and too_long not in nl:
                    okk = False
            if okk:
                r2b.ok("%s:emission L%s" % (fname, n.get("l")), "guarded; too-long edge reaches it only through write_newline")
            else:
                r2b.violation(fn.file, fn.name, n.get("l"), "too-long-edge-reaches-emission",
                              "after a failed limit comparison the emission is reachable without write_newline")

    r3 = chk.rule("R3-single-delimiter-source", "write_unquoted/_quoted/_triple_quoted/_text are called only from write_char",
                  floor=4)
    callers = prog.callers()
    for w in ("write_unquoted", "write_quoted", "write_triple_quoted", "write_text"):
        prog.fn(w)
        cs = sorted({f.name for (f, b, i, r, n) in callers.get(w, [])})
        if cs == ["write_char"]:
            r3.ok(w, "only caller: write_char")
        else:
            r3.violation("ciffile.c", w, prog.fn(w).line, "caller:" + w, "%s is called from %s (expected only write_char)" % (w, cs))

    r4 = chk.rule("R4-writer-length-contract", "what write_char hands to the delimiter-specific writers is consistent with how they use "
                  "it: an index into the analysed text built from an analysis length is never past the terminator, and the "
                  "success test on the number of characters emitted can be met by every string the analyser routes there", floor=3)
    if writer_contract(prog, r4) < 3:
        raise Broken("writer length contract: too few obligations found")


    r5 = chk.rule("R5-declaration-parameter-names", "every declaration of a function of the writer's unit names its parameters as the "
                  "definition does: two same-position parameters are never exchanged (callers follow the declaration)", primary=False, floor=20)
    from .. import memrules
    if memrules.declaration_parameter_agreement(prog, r5, units=("ciffile.c",)) < 20:
        raise Broken("fewer than 20 declaration/definition pairs in ciffile.c")


# fields of struct cif_string_analysis_s that are lengths of (parts of) the analysed string: each is <= length, with
# equality for single-line strings (cif_analyze_string sets them all to the string length then)
ANALYSIS_LENGTHS = ("length", "length_first", "length_last", "length_max")


def _lin(n, subst=None, depth=0):
    """Linear form {symbol: coeff, '': const} of an int expression over analysis fields / parameters."""
    n = strip(n)
    if not isinstance(n, dict) or depth > 10:
        return None
    c = const(n)
    if c is not None:
        return {"": c}
    p = path(n)
    if p is not None and n.get("k") in ("ref", "member"):
        if subst is not None and p in subst:
            return dict(subst[p]) if subst[p] is not None else None
        m = re.match(r"^analysis\.(\w+)$", p)
        if m and m.group(1) in ANALYSIS_LENGTHS:
            return {m.group(1): 1, "": 0}
        return {p: 1, "": 0}
    if n.get("k") == "bin" and n.get("op") in ("+", "-"):
        a, b = _lin(n.get("lhs"), subst, depth + 1), _lin(n.get("rhs"), subst, depth + 1)
        if a is None or b is None:
            return None
        out = dict(a)
        sg = 1 if n["op"] == "+" else -1
        for k, v in b.items():
            out[k] = out.get(k, 0) + sg * v
        return {k: v for k, v in out.items() if v != 0 or k == ""}
    return None


def _fixed_chars(fmt):
    """(number of characters a u_fprintf format emits besides its one string conversion, has a string conversion)."""
    fixed, i, strings = 0, 0, 0
    while i < len(fmt):
        if fmt[i] == "%":
            j = i + 1
            while j < len(fmt) and fmt[j] in "*.0123456789-+ #lh":
                j += 1
            conv = fmt[j] if j < len(fmt) else ""
            if conv == "%":
                fixed += 1
            elif conv == "c":
                fixed += 1
            elif conv in ("S", "s"):
                strings += 1
            else:
                return None, 0
            i = j + 1
        else:
            fixed += 1
            i += 1
    return fixed, strings


def writer_contract(prog, rule):
    wc = prog.fn("write_char")
    n_obl = 0
    for (b, i, r, c) in wc.calls():
        w = c.get("callee")
        if w not in ("write_unquoted", "write_quoted", "write_triple_quoted", "write_text") or not prog.has_fn(w):
            continue
        fn = prog.fn(w)
        subst = {}
        text_param = None
        for k, a in enumerate(c.get("args", [])):
            if k >= len(fn.params):
                break
            pname = fn.params[k]["name"]
            if path(strip(a)) == "text":
                text_param = pname
            else:
                subst[pname] = _lin(a)
        if text_param is None:
            continue
        # parameters re-assigned inside the writer lose their meaning
        for (b2, i2, r2, a2) in fn.eval_sites("asg"):
            lp = path(strip(a2.get("lhs")))
            if lp in subst:
                subst[lp] = None
        # (i) indexes into the analysed text
        for (b2, i2, r2, x) in fn.eval_sites("index"):
            if path(strip(x.get("base"))) != text_param:
                continue
            lf = _lin(x.get("idx"), subst)
            if lf is None:
                continue
            syms = {k: v for k, v in lf.items() if k}
            if len(syms) == 1 and list(syms.values()) == [1] and list(syms)[0] in ANALYSIS_LENGTHS:
                n_obl += 1
                fld, k = list(syms)[0], lf.get("", 0)
                key = "%s:%s[%s]" % (w, text_param, show_lin(lf))
                if k >= 1:
                    rule.violation(fn.file, w, x.get("l"), "index-past-terminator:%s" % w,
                                   "%s reads %s[%s] where write_char passes `%s`: that is %s[analysis.%s %+d]; for a single-line string "
                                   "analysis.%s equals the string length, so the read is %d element(s) past the terminator (and the "
                                   "decision taken on it is arbitrary)" % (w, text_param, show(x.get("idx")), show(c["args"][[pp["name"] for pp in fn.params].index(path(strip(x.get("idx"))))]) if path(strip(x.get("idx"))) in [pp["name"] for pp in fn.params] else show(x.get("idx")),
                                                                          text_param, fld, k, fld, k))
                else:
                    rule.ok(key, "at or before the terminator for every string")
        # (ii) the success test on the emitted count
        counts = {}
        for (b2, i2, r2, a2) in fn.eval_sites("asg"):
            rr = strip(a2.get("rhs"))
            if isinstance(rr, dict) and rr.get("k") == "call" and rr.get("callee") == "u_fprintf" and len(rr.get("args", [])) > 1:
                fmt = literal_text(rr["args"][1])
                if fmt is not None:
                    fixed, strings = _fixed_chars(fmt)
                    if fixed is not None and strings == 1:
                        # a precision (`%*.*S`) limits the text to that many characters
                        prec = None
                        if "*.*" in fmt and len(rr["args"]) > 3:
                            prec = _lin(rr["args"][3], subst)
                        counts[path(strip(a2.get("lhs")))] = (fixed, prec, rr)
        for (b2, i2, r2, rt) in fn.returns():
            e = strip(rt.get("e")) if rt.get("e") else None
            if not isinstance(e, dict) or e.get("k") != "cond":
                continue
            cnd = strip(e.get("c"))
            if not isinstance(cnd, dict) or cnd.get("k") != "bin" or cnd.get("op") not in (">=", "==", ">"):
                continue
            v = path(strip(cnd.get("lhs")))
            if v not in counts or const(e.get("then")) != 0:
                continue
            fixed, prec, call = counts[v]
            need = _lin(cnd.get("rhs"), subst)
            if need is None:
                continue
            emitted = dict(prec) if prec is not None else {"length": 1, "": 0}
            emitted[""] = emitted.get("", 0) + fixed
            syms_n = {k: c2 for k, c2 in need.items() if k}
            syms_e = {k: c2 for k, c2 in emitted.items() if k}
            if len(syms_n) != 1 or list(syms_n.values()) != [1] or list(syms_n)[0] not in ANALYSIS_LENGTHS \
                    or len(syms_e) != 1 or list(syms_e)[0] not in ANALYSIS_LENGTHS:
                continue
            n_obl += 1
            # worst case: the required field equals the string length (single-line strings)
            slack = emitted.get("", 0) - need.get("", 0)
            op = cnd["op"]
            okk = (slack >= 0) if op == ">=" else (slack > 0 if op == ">" else (slack == 0 and list(syms_n)[0] == list(syms_e)[0]))
            key = "%s:success-test %s %s %s" % (w, v, op, show_lin(need))
            if okk:
                rule.ok(key, "emits %s characters; the test can be met by every string" % show_lin(emitted))
            else:
                rule.violation(fn.file, w, rt.get("l"), "success-test-unsatisfiable:%s" % w,
                               "%s reports success only if `%s %s %s`, which with write_char's arguments is %s; the format emits %s "
                               "characters, so for every single-line string (analysis.%s == length) the test fails and cif_write "
                               "returns CIF_ERROR for a value it should write" % (
                                   w, v, op, show(cnd.get("rhs")), show_lin(need), show_lin(emitted), list(syms_n)[0]))
    return n_obl


def show_lin(lf):
    parts = ["%s%s" % ("" if c == 1 else "%d*" % c, k) for k, c in sorted(lf.items()) if k and c]
    k = lf.get("", 0)
    if k or not parts:
        parts.append("%d" % k)
    return " + ".join(parts).replace("+ -", "- ")
