"""C09 — codes, names and keys are matched by normalised equivalence: pipeline order; every key passes the normaliser."""
import re

from ..facts import Broken, strip, const, walk, walk_eval, show
from ..interp import path
from .. import cfgq, memrules
from . import c04

NORMALISERS = {"cif_normalize": 2, "cif_normalize_name": 2, "cif_normalize_item_name": 2, "cif_normalize_table_index": 2}
# Frozen from DESIGN.md A.3: parameters documented "already normalised", each verified at its call sites.
ALREADY_NORMALISED = {
    ("cif_container_create_loop_internal", "names_norm"): "array of normalised names built by cif_container_create_loop",
    ("cif_container_get_item_loop_internal", "name"): "callers normalise first",
    ("cif_container_add_scalar", "item_name"): "normalised by cif_container_set_value",
    ("cif_container_set_all_values", "item_name"): "normalised by the callers",
    ("cif_loop_add_item_internal", "norm_name"): "normalised by cif_loop_add_item / cif_container_add_scalar",
    ("cif_packet_create_norm", "names"): "names are 'assumed already normalized' (utils.h)",
}
# Struct fields that only ever receive normaliser output (checked below by enumerating all stores).
NORMALISED_FIELDS = {"code", "key", "item_names"}
# Stores into those fields that are not direct normaliser output, with their reason.
FIELD_STORE_EXCEPTIONS = {
    ("cif_table_deserialize", "key"): "key read back from a serialised table: it was normalised when the table was built",
    ("cif_pktitr_next_packet", "key"): "entry->key = cif_u_strdup(entry->key): a copy of an already normalised key",
    ("cif_get_all_blocks", "code"): "code read from data_block.name, which only ever stores normalised codes (this rule)",
    ("cif_container_get_all_frames", "code"): "code read from save_frame.name (normalised codes only)",
    ("cif_map_clone", "key"): "copy of a normalised key",
    ("cif_table_clone", "key"): "copy of a normalised key",
}


def root_path(n):
    return path(strip(n))


def normaliser_outputs(fn):
    """Access paths that receive normaliser output in this function (out-argument of a normaliser call)."""
    out = set()
    for (b, i, r, n) in fn.calls():
        c = n.get("callee")
        idx = NORMALISERS.get(c)
        args = n.get("args", [])
        if idx is None and n.get("fn") is not None and "normalizer" in (path(strip(n["fn"])) or ""):
            idx = 2
        if idx is None or len(args) <= idx:
            continue
        a = strip(args[idx])
        if a.get("k") == "un" and a.get("op") == "&":
            p = path(strip(a.get("e")))
            if p:
                out.add(p)
        elif a.get("k") == "bin" and a.get("op") == "+":
            p = path(strip(a.get("lhs")))
            if p:
                out.add(p + "[?]")
        else:
            p = path(a)
            if p:
                out.add("*" + p)
    # element stores through a cursor:  *(cursor++) = <normaliser output>,  cursor initialised from an array
    inits = {}
    for (b, i, r, n) in fn.eval_sites("decl"):
        for v in n.get("vars", []):
            if v.get("init") is not None:
                ip = path(strip(v["init"]))
                if ip:
                    inits[v["name"]] = ip
    for (b, i, r, n) in fn.eval_sites("asg"):
        if n.get("op") != "=":
            continue
        l = strip(n.get("lhs"))
        if not isinstance(l, dict) or l.get("k") != "un" or l.get("op") != "*":
            continue
        inner = strip(l.get("e"))
        if isinstance(inner, dict) and inner.get("k") == "un" and inner.get("op") in ("post++", "pre++"):
            inner = strip(inner.get("e"))
        cp = path(inner)
        rp = path(strip(n.get("rhs")))
        if cp and rp and rp in out:
            out.add(inits.get(cp, cp) + "[?]")
    return out


def classify_key_expr(prog, fn, expr, outs, depth=0):
    """-> (verdict, detail) with verdict in ok / violation / unknown."""
    e = strip(expr)
    if isinstance(e, dict) and e.get("k") == "call" and e.get("callee") == "cif_u_strdup" and e.get("args"):
        v, d = classify_key_expr(prog, fn, e["args"][0], outs, depth + 1)
        return v, "copy of " + d
    if isinstance(e, dict) and e.get("k") == "un" and e.get("op") == "&":
        ip = path(strip(e.get("e")))
        inits = [v.get("init") for (b, i, r, n) in fn.eval_sites("decl") for v in n.get("vars", []) if v["name"] == ip]
        if inits and all(x is not None and const(x) == 0 for x in inits):
            return "ok", "address of `%s`, which is NULL: an empty name list" % ip
    p = path(e)
    if p is None:
        return "unknown", "expression without access path: %s" % show(e)[:60]
    if (p + "[?]") in outs:
        return "ok", "array `%s` filled with normaliser output" % p
    if p in outs:
        return "ok", "normaliser output `%s`" % p
    m = re.match(r"^(\w+)\[", p)
    if m and (m.group(1) + "[?]") in outs:
        return "ok", "element of normaliser output array `%s`" % m.group(1)
    tail = re.split(r"->|\.", p)[-1]
    tail = re.sub(r"\[.*$", "", tail)
    if ("->" in p or "." in p) and tail in NORMALISED_FIELDS:
        return "ok", "field `%s` (only ever assigned normaliser output)" % tail
    m2 = re.match(r"^\*?(\w+)", p)
    rv = m2.group(1) if m2 else None
    if rv and fn.param_index(rv) is not None:
        if (fn.name, rv) in ALREADY_NORMALISED:
            return "ok", "parameter `%s` (already normalised: %s)" % (rv, ALREADY_NORMALISED[(fn.name, rv)])
        return "violation", "parameter `%s` of %s reaches a key position without normalisation" % (rv, fn.name)
    # local copies: follow single assignments
    if rv and depth < 4:
        srcs = []
        for (b, i, r, n) in fn.eval_sites():
            if n.get("k") == "asg" and n.get("op") == "=" and path(strip(n.get("lhs"))) == rv:
                srcs.append(n.get("rhs"))
            if n.get("k") == "decl":
                for v in n.get("vars", []):
                    if v["name"] == rv and v.get("init") is not None:
                        srcs.append(v["init"])
        if srcs:
            verdicts = [classify_key_expr(prog, fn, s, outs, depth + 1) for s in srcs if const(s) != 0]
            if verdicts and all(v[0] == "ok" for v in verdicts):
                return "ok", "local `%s` <- %s" % (rv, "; ".join(v[1] for v in verdicts))
            bad = [v for v in verdicts if v[0] == "violation"]
            if bad:
                return bad[0]
    return "unknown", "source of `%s` not classified" % p


def run(prog, chk):
    chk.level = "other"
    chk.explanation = ("Who-may-reach rule decided on the resolved program: every string that reaches a key position — a "
                       "`name` column of an SQL statement (bind sites joined with the statements' own column lists) or a "
                       "uthash key (HASH_FIND / HASH_ADD_KEYPTR expansions) — is the output of the normaliser, a field that "
                       "only ever receives normaliser output (all stores enumerated), or a parameter of the frozen "
                       "already-normalised table whose call sites are checked recursively; the normaliser itself runs "
                       "NFD -> case fold -> NFC in that order, each stage consuming the previous buffer.  What ICU computes "
                       "and the accept/reject boundary per code point are not decided.")
    r1 = chk.rule("R1-pipeline-order", "cif_normalize = NFD, then u_strFoldCase(U_FOLD_CASE_DEFAULT), then NFC, chained through "
                  "the buffers; table indexes use NFC only; the validating variants validate first", floor=6)
    fn = prog.fn("cif_normalize")
    calls = []
    from .. import scantab
    order = scantab.rpo(fn)
    for (b, i, r, n) in fn.calls():
        if n.get("callee") in ("cif_unicode_normalize", "cif_fold_case"):
            calls.append((order.get(b.id, 0), i, b.id, n))
    calls.sort(key=lambda x: (x[0], x[1]))

    def mode_name(a):
        a = strip(a)
        return a.get("name") if isinstance(a, dict) and a.get("k") == "ref" else None

    def outvar(a):
        a = strip(a)
        if isinstance(a, dict) and a.get("k") == "un" and a.get("op") == "&":
            return path(strip(a.get("e")))
        return None
    shape = [(n["callee"], mode_name(n["args"][2]) if n["callee"] == "cif_unicode_normalize" else None) for (_, _, _, n) in calls]
    want = [("cif_unicode_normalize", "UNORM_NFD"), ("cif_fold_case", None), ("cif_unicode_normalize", "UNORM_NFC")]
    if shape != want:
        r1.violation(fn.file, fn.name, fn.line, "stage-sequence", "cif_normalize runs %s, expected %s" % (shape, want))
    else:
        r1.ok("stage-sequence", "NFD -> fold -> NFC")
        (c1, c2, c3) = [c[3] for c in calls]
        b1, b2, b3 = calls[0][2], calls[1][2], calls[2][2]
        chain_ok = (path(strip(c1["args"][0])) == "src" and outvar(c1["args"][3]) == path(strip(c2["args"][0]))
                    and outvar(c2["args"][2]) == path(strip(c3["args"][0])))
        if chain_ok:
            r1.ok("buffer-chain", "src -> %s -> %s -> %s" % (outvar(c1["args"][3]), outvar(c2["args"][2]), outvar(c3["args"][3])))
        else:
            r1.violation(fn.file, fn.name, c2.get("l"), "buffer-chain", "a stage does not consume the previous stage's output")
        dom = cfgq.must_precede(fn, (b2, 0), [(b1, 10 ** 6)]) and cfgq.must_precede(fn, (b3, 0), [(b2, 10 ** 6)])
        (r1.ok if dom else lambda k, d: r1.violation(fn.file, fn.name, fn.line, k, "a later stage is reachable without the earlier one"))(
            "stage-dominance", "each stage dominated by the previous")
        stores = [(b.id, i, n) for (b, i, r, n) in fn.eval_sites("asg") if path(strip(n.get("lhs"))) == "*normalized"]
        final = outvar(c3["args"][3])
        if stores and all(path(strip(n.get("rhs"))) == final and cfgq.must_precede(fn, (bid, i), [(b3, 10 ** 6)]) for (bid, i, n) in stores):
            r1.ok("result-is-last-stage", "*normalized = %s" % final)
        else:
            r1.violation(fn.file, fn.name, fn.line, "result-is-last-stage", "*normalized is not the output of the NFC stage")
        term = const(c3["args"][5]) if len(c3["args"]) > 5 else None
        (r1.ok if term else lambda k, d: r1.violation(fn.file, fn.name, c3.get("l"), k, "the final stage does not terminate its result"))(
            "result-terminated", "terminate=%s" % term)
    fc = prog.fn("cif_fold_case")
    folds = fc.calls_to("u_strFoldCase")
    if folds and all(const(n["args"][4]) == 0 for (b, i, r, n) in folds):
        r1.ok("fold-options", "U_FOLD_CASE_DEFAULT")
    else:
        r1.violation(fc.file, fc.name, fc.line, "fold-options", "u_strFoldCase is not called with U_FOLD_CASE_DEFAULT")
    un = prog.fn("cif_unicode_normalize")
    uns = un.calls_to("unorm_normalize")
    if uns and all(path(strip(n["args"][2])) == "mode" and const(n["args"][3]) == 0 for (b, i, r, n) in uns):
        r1.ok("unorm-mode-passthrough", "mode parameter forwarded, options 0")
    else:
        r1.violation(un.file, un.name, un.line, "unorm-mode-passthrough", "unorm_normalize does not receive the requested mode")
    ti = prog.fn("cif_normalize_table_index")
    tcalls = [n for (b, i, r, n) in ti.calls() if n.get("callee") in ("cif_unicode_normalize", "cif_fold_case", "cif_normalize")]
    if [(n["callee"], mode_name(n["args"][2]) if n["callee"] == "cif_unicode_normalize" else None) for n in tcalls] == [("cif_unicode_normalize", "UNORM_NFC")]:
        r1.ok("table-index", "NFC only, no case folding")
    else:
        r1.violation(ti.file, ti.name, ti.line, "table-index", "cif_normalize_table_index does not use NFC alone")
    for name, flag in (("cif_normalize_name", 0), ("cif_normalize_item_name", 1)):
        f = prog.fn(name)
        v = f.calls_to("cif_is_valid_name")
        nz = f.calls_to("cif_normalize")
        okk = bool(v) and bool(nz) and all(const(n["args"][1]) == flag for (b, i, r, n) in v) \
            and all(cfgq.must_precede(f, (b.id, i), [(vb.id, 10 ** 6) for (vb, vi, vr, vn) in v]) for (b, i, r, n) in nz) \
            and (any(path(strip(n.get("e"))) == "invalidityCode" for (b, i, r, n) in f.returns() if n.get("e"))
                 or any(path(strip(a.get("rhs"))) == "invalidityCode"
                        and path(strip(a.get("lhs"))) in {path(strip(n.get("e"))) for (b2, i2, r2, n) in f.returns() if n.get("e")}
                        for (b, i, r, a) in f.eval_sites("asg")))
        (r1.ok if okk else lambda k, d: r1.violation(f.file, f.name, f.line, k, "%s does not validate (flag %d) before normalising" % (name, flag)))(
            name + ":validates-first", "cif_is_valid_name(name, %d) dominates cif_normalize; invalid -> invalidityCode" % flag)

    r2 = chk.rule("R2-keys-pass-normaliser", "every string bound to a `name` key column or used as a hash key is normaliser "
                  "output (directly, via a normalised-only field, or via an already-normalised parameter checked at its callers)",
                  floor=15)
    m = c04.model(prog)
    n_key = 0
    for s in m.sites:
        if not s["is_bind"] or s["kind"] != "text16" or s["stmt"] is None or s["index"] is None:
            continue
        cols = {p["n"]: p["column"] for p in m.params.get(s["stmt"], [])}
        col = cols.get(s["index"])
        fn_, n = s["fn"], s["node"]
        if col == "name":
            n_key += 1
            outs = normaliser_outputs(fn_)
            verdict, detail = classify_key_expr(prog, fn_, s["value"], outs)
            key = "%s:%s.name<-%s" % (fn_.name, s["stmt"], show(strip(s["value"]))[:40])
            if verdict == "ok":
                r2.ok(key, detail)
            else:
                r2.violation(fn_.file, fn_.name, n.get("l"), "unnormalised-key:" + key, detail)
        elif col == "name_orig":
            outs = normaliser_outputs(fn_)
            p = path(strip(s["value"]))
            key = "%s:%s.name_orig<-%s" % (fn_.name, s["stmt"], show(strip(s["value"]))[:40])
            if p in outs:
                r2.violation(fn_.file, fn_.name, n.get("l"), "normalised-original:" + key,
                             "the original spelling column receives the normalised form")
            else:
                r2.ok(key, "caller's spelling")
    # hash keys
    for f in prog.all_functions():
        if f.unit not in ("map.c", "packet.c", "pktitr.c", "loop.c", "value.c"):
            continue
        outs = None
        for (b, i, r, n) in f.calls_to("memcmp"):
            if not any(x.startswith("HASH_FIND") for x in (n.get("ms") or [])):
                continue
            outs = outs if outs is not None else normaliser_outputs(f)
            n_key += 1
            verdict, detail = classify_key_expr(prog, f, n["args"][1], outs)
            key = "%s:HASH_FIND(%s)" % (f.name, show(strip(n["args"][1]))[:40])
            if verdict == "ok":
                r2.ok(key, detail)
            elif f.name == "cif_pktitr_next_packet" and path(strip(n["args"][1])) == "name":
                r2.ok(key, "name read from loop_item.name via item_value (normalised names only)")
            else:
                r2.violation(f.file, f.name, n.get("l"), "unnormalised-hash-key:" + key, detail)
        for (b, i, r, n) in f.eval_sites("asg"):
            if not any(x.startswith("HASH_ADD") for x in (n.get("ms") or [])):
                continue
            lp = path(strip(n.get("lhs"))) or ""
            if not lp.endswith("hh.key"):
                continue
            outs = outs if outs is not None else normaliser_outputs(f)
            n_key += 1
            verdict, detail = classify_key_expr(prog, f, n.get("rhs"), outs)
            key = "%s:HASH_ADD_KEYPTR(%s)" % (f.name, show(strip(n.get("rhs")))[:40])
            if verdict == "ok":
                r2.ok(key, detail)
            elif f.name == "cif_loop_get_packets":
                r2.ok(key, "names from cif_loop_get_names_internal(..., normalize = CIF_TRUE)")
            else:
                r2.violation(f.file, f.name, n.get("l"), "unnormalised-hash-key:" + key, detail)
    if n_key < 15:
        raise Broken("only %d key positions found" % n_key)

    r3 = chk.rule("R3-closure", "fields and parameters assumed normalised really are: all stores into code/key/item_names "
                  "enumerated; every call site of an already-normalised parameter passes normalised data; map->normalizer only "
                  "ever holds a normaliser", floor=10)
    for f in prog.all_functions():
        outs = None
        for (b, i, r, n) in f.eval_sites("asg"):
            l = strip(n.get("lhs"))
            if not isinstance(l, dict) or l.get("k") != "member" or l.get("name") not in NORMALISED_FIELDS:
                continue
            if l["name"] == "key" and not (l.get("t", "").replace("const ", "").strip() == "UChar *"):
                continue
            if l["name"] == "code" and "UChar" not in l.get("t", ""):
                continue
            if const(n.get("rhs")) == 0:
                continue
            outs = outs if outs is not None else normaliser_outputs(f)
            key = "%s:store %s" % (f.name, path(l))
            verdict, detail = classify_key_expr(prog, f, n.get("rhs"), outs)
            if verdict == "ok":
                r3.ok(key, detail)
            elif (f.name, l["name"]) in FIELD_STORE_EXCEPTIONS:
                r3.ok(key + ":exception", FIELD_STORE_EXCEPTIONS[(f.name, l["name"])])
            else:
                r3.violation(f.file, f.name, n.get("l"), "field-store:" + key, "field `%s` receives %s" % (l["name"], detail))
    callers = prog.callers()
    for (callee, pname), why in sorted(ALREADY_NORMALISED.items()):
        cf = prog.fn(callee)
        pi = cf.param_index(pname)
        if pi is None:
            raise Broken("%s has no parameter %s" % (callee, pname))
        sites = callers.get(callee, [])
        if not sites:
            r3.info("%s(%s)" % (callee, pname), "no callers")
        for (f, b, i, r, n) in sites:
            outs = normaliser_outputs(f)
            a = n["args"][pi]
            verdict, detail = classify_key_expr(prog, f, a, outs)
            key = "%s -> %s(%s=%s)" % (f.name, callee, pname, show(strip(a))[:30])
            if verdict == "ok":
                r3.ok(key, detail)
            elif callee == "cif_packet_create_norm" and f.name == "cif_pktitr_next_packet":
                r3.ok(key, "iterator->item_names: normalised names (field rule)")
            else:
                r3.violation(f.file, f.name, n.get("l"), "callsite:" + key, detail)
    for f in prog.all_functions():
        for (b, i, r, n) in f.eval_sites("asg"):
            l = strip(n.get("lhs"))
            if isinstance(l, dict) and l.get("k") == "member" and l.get("name") == "normalizer":
                rr = strip(n.get("rhs"))
                nm = rr.get("name") if isinstance(rr, dict) and rr.get("k") == "ref" else None
                key = "%s:normalizer=%s" % (f.name, nm or show(rr)[:30])
                if nm in NORMALISERS or (rr.get("k") == "member" and rr.get("name") == "normalizer"):
                    r3.ok(key, "a normaliser")
                else:
                    r3.violation(f.file, f.name, n.get("l"), "normalizer-store:" + key, "map->normalizer receives %s" % show(rr)[:40])

    r4 = chk.rule("R4-respelling-decision", "whether an entry's stored spelling (key_orig) is kept or replaced is decided by comparing the "
                  "new spelling with that stored spelling, not with the normalised key", primary=False, floor=1)
    if memrules.keep_or_replace(prog, r4) < 1:
        raise Broken("the keep-or-replace idiom of cif_map_set_item was not found")

    r5 = chk.rule("R5-hash-key-length", "names and keys are hashed over u_strlen(key) * sizeof(UChar) bytes of the normalised key that "
                  "is stored: a shorter length merges distinct keys, a length taken from another string hides the entry", primary=False, floor=5)
    if memrules.hash_key_length(prog, r5) < 5:
        raise Broken("fewer than 5 uthash insertions found")

    r6 = chk.rule("R6-validator-matches-domain", "each name is (re-)validated by the normaliser of its own kind: a function working on "
                  "data names (its statements touch loop_item / item_value, or it handles packets) calls cif_normalize_item_name, one "
                  "working on block / frame codes calls cif_normalize_name - the two accept different lengths and first characters, "
                  "so the wrong one refuses names the store side accepted", primary=False, floor=8)
    if validator_domain(prog, r6) < 8:
        raise Broken("fewer than 8 direct normaliser calls found")

    r11 = chk.rule("R11-normalised-name-not-validated-again", "an expression known to hold normaliser output is not handed to a validating "
                   "name parameter (computed: parameters forwarded to cif_normalize_name / cif_normalize_item_name / a map's "
                   "normalizer): normalisation can lengthen a name, so a second validation refuses valid names near the limit",
                   primary=False, floor=20)
    from .. import namerevalidate
    n11, vparams = namerevalidate.rule(prog, r11, classify_key_expr, normaliser_outputs)
    if n11 < 20:
        raise Broken("fewer than 20 calls with a validating name parameter found")
    chk.extra_cov["validating_name_parameters"] = sorted("%s(%s)" % k for k in vparams)

    r10 = chk.rule("R10-names-exclude-controls-and-blanks", "for every code unit U+0001..U+0020 and U+007F one of the character predicates "
                   "of cif_is_valid_name answers yes (evaluated over their CFGs): no code or name containing a blank, tab, line "
                   "terminator or other control character is accepted", primary=False, floor=33)
    if name_controls_rule(prog, r10) < 33:
        raise Broken("fewer than 33 code units evaluated")

    r9 = chk.rule("R9-string-field-order", "serialiser and deserialiser of a table entry agree on which string is the normalised key "
                  "and which the original spelling (shared with C07 R9)", primary=False, floor=3)
    from . import c07
    if c07.ustring_field_order(prog, r9) < 3:
        raise Broken("fewer than 3 serialise/deserialise pairs")

    r8 = chk.rule("R8-name-length-limit", "cif_is_valid_name counts characters (code points) and accepts exactly up to the line "
                  "length for data names, line length - 5 for block / frame codes", primary=False, floor=2)
    if name_length_limit(prog, r8) < 2:
        raise Broken("cif_is_valid_name: no length comparison of the name found")

    r7 = chk.rule("R7-range-tests-cut-at-class-boundaries", "every relational comparison of a code unit with a constant next to a "
                  "Unicode class boundary (surrogate ranges, the non-characters U+FDD0..FDEF and U+FFFE/F) cuts exactly at the "
                  "boundary: the first and last member of a class are treated like the rest of it", primary=False, floor=8)
    from .. import unirange
    if unirange.rule(prog, r7, units=("utils.c",)) < 8:
        raise Broken("fewer than 8 code-unit range comparisons found in utils.c")


ITEM_TABLES = {"loop_item", "item_value"}
CODE_TABLES = {"data_block", "save_frame"}


def validator_domain(prog, rule):
    from . import c04
    m = c04.model(prog)
    tables_of = {}
    for f, e in m.statements.items():
        sql = e["sql"].lower()
        tables_of[f] = {t for t in ITEM_TABLES | CODE_TABLES if re.search(r"\b%s\b" % t, sql)}
    n = 0
    for fn in prog.all_functions():
        calls = [(b, i, r, c) for (b, i, r, c) in fn.calls() if c.get("callee") in ("cif_normalize_name", "cif_normalize_item_name")]
        if not calls:
            continue
        touched = set()
        for (b, i, r, x) in fn.eval_sites("member"):
            nm = x.get("name") or ""
            if nm in tables_of:
                touched |= tables_of[nm]
        # the name's kind by the columns it can only have come from / go to
        item = bool(touched & ITEM_TABLES) or fn.unit in ("packet.c", "pktitr.c")
        code = bool(touched & CODE_TABLES)
        for (b, i, r, c) in calls:
            n += 1
            key = "%s:L%s:%s" % (fn.name, c.get("l"), c["callee"])
            if item and not code and c["callee"] == "cif_normalize_name":
                rule.violation(fn.file, fn.name, c.get("l"), "code-validator-on-data-name:%s" % fn.name,
                               "%s works on data names (its statements touch %s) but validates with cif_normalize_name, the "
                               "block / frame code rule: data names of 2044..2048 characters, accepted when stored, are refused here"
                               % (fn.name, ", ".join(sorted(touched & ITEM_TABLES)) or "packets"))
            elif code and not item and c["callee"] == "cif_normalize_item_name":
                rule.violation(fn.file, fn.name, c.get("l"), "name-validator-on-code:%s" % fn.name,
                               "%s works on block / frame codes (its statements touch %s) but validates with "
                               "cif_normalize_item_name, which demands a leading underscore" % (fn.name, ", ".join(sorted(touched & CODE_TABLES))))
            else:
                rule.ok(key, "tables: %s" % (", ".join(sorted(touched)) or "(none: in-memory)"))
    return n


def name_length_limit(prog, rule):
    """cif_is_valid_name: the length test counts characters (code points: u_countChar32) and allows exactly CIF_LINE_LENGTH of
    them for a data name and CIF_LINE_LENGTH - 5 for a block / frame code (which shares its line with `data_` / `save_`).
    The comparison found in the function is evaluated for both kinds (for_item = 1 / 0, locals resolved through their single
    definition): the largest length it lets through must be that limit."""
    from ..chareval import _ev
    fn = prog.fn("cif_is_valid_name")
    line_len = prog.macro_int("CIF_LINE_LENGTH")
    if line_len is None:
        raise Broken("CIF_LINE_LENGTH is not defined")
    flag = next((p_["name"] for p_ in fn.params if p_.get("t", "").strip() == "int"), None)
    namep = fn.params[0]["name"]
    defs = {}
    for (b, i, r, x) in fn.eval_sites("decl"):
        for v in x.get("vars", []):
            if v.get("init") is not None:
                defs[v["name"]] = v["init"]
    n = 0
    seen = set()
    trees = []
    for b in fn.blocks.values():
        trees += list(b.roots)
        if b.term and isinstance(b.term.get("full"), dict):
            trees.append(b.term["full"])
    for tr in trees:
        for x in walk(tr):
            if x.get("k") != "bin" or x.get("op") not in ("<", "<=", ">", ">=") or x.get("id") in seen:
                continue
            sides = {"lhs": strip(x.get("lhs")), "rhs": strip(x.get("rhs"))}
            meas = None
            for sd, other in (("lhs", "rhs"), ("rhs", "lhs")):
                e = sides[sd]
                if isinstance(e, dict) and e.get("k") == "call" and e.get("callee") in ("u_countChar32", "u_strlen") \
                        and e.get("args") and path(strip(e["args"][0])) == namep:
                    meas = (sd, other, e["callee"])
            if meas is None:
                continue
            seen.add(x.get("id"))
            sd, other, callee = meas
            op = x["op"] if sd == "lhs" else {"<": ">", ">": "<", "<=": ">=", ">=": "<="}[x["op"]]
            for item, want, what in ((1, line_len, "data name"), (0, line_len - 5, "block / frame code")):
                n += 1
                env = {flag: item} if flag else {}

                def ev(e, depth=0):
                    v = _ev(e, env, None)
                    if v is None and depth < 3:
                        e2 = strip(e)
                        if isinstance(e2, dict) and e2.get("k") == "ref" and e2.get("name") in defs:
                            return ev(defs[e2["name"]], depth + 1)
                    return v
                B = ev(x.get(other))
                key = "cif_is_valid_name:L%s:%s" % (x.get("l"), what)
                if B is None or op not in ("<", "<="):
                    rule.unproved(key, "bound not evaluable")
                    continue
                limit = B if op == "<=" else B - 1
                if callee != "u_countChar32":
                    rule.violation(fn.file, fn.name, x.get("l"), "name-length-in-code-units:%s" % what,
                                   "the length of a %s is measured with %s (UTF-16 code units) against the line-length limit, which "
                                   "counts characters: a valid name at the limit that contains a supplementary-plane character is "
                                   "refused" % (what, callee))
                elif limit != want:
                    rule.violation(fn.file, fn.name, x.get("l"), "name-length-limit:%s" % what,
                                   "the longest %s accepted has %d characters, the limit is %d (CIF_LINE_LENGTH%s)"
                                   % (what, limit, want, "" if item else " - 5"))
                else:
                    rule.ok(key, "at most %d characters, counted in code points" % want)
    return n



def name_controls_rule(prog, rule):
    """R10: no code, name or key that passes cif_is_valid_name contains a control character or blank: for every code unit in
    U+0001..U+0020 and U+007F at least one of the two predicates cif_is_valid_name combines - cif_has_whitespace,
    cif_has_disallowed_chars - answers yes while its scan stands on that code unit (each is evaluated over its CFG with
    `*c` bound to the code unit).  The disallowed-character predicate exempts tab, LF and CR on purpose (they are allowed in
    CIF text), so those hang on the whitespace predicate alone."""
    from ..chareval import predicate_outcomes
    vn = prog.fn("cif_is_valid_name")
    preds = [c.get("callee") for (b, i, r, c) in vn.calls() if (c.get("callee") or "").startswith("cif_has_")]
    if len(preds) < 2:
        raise Broken("cif_is_valid_name: the character predicates were not found")
    n = 0
    for ch in list(range(1, 0x21)) + [0x7f]:
        n += 1
        refused_by = []
        unknown = False
        for p in preds:
            outs = predicate_outcomes(prog.fn(p), ch)
            if outs == {1} or (1 in outs and "next" not in outs and "?" not in outs):
                refused_by.append(p)
            elif "?" in outs or (1 in outs and "next" in outs):
                unknown = True
        key = "U+%04X" % ch
        if refused_by:
            rule.ok(key, "refused by %s" % ", ".join(refused_by))
        elif unknown:
            rule.unproved(key, "a predicate could not be evaluated for this code unit")
        else:
            rule.violation(vn.file, vn.name, vn.line, "control-character-accepted:U+%04X" % ch,
                           "neither %s answers yes for U+%04X: a block code, frame code or data name containing it passes "
                           "cif_is_valid_name" % (" nor ".join(preds), ch))
    return n
