"""C15 — parse-time callbacks mirror the document and steer storage: the skip_depth discipline."""
from ..facts import Broken, strip, const, walk, walk_eval, macro_name
from ..interp import path, av_const, AV
from .. import cfgq, parserai
from ..parserai import SKIP

SKIP_DIRECTIVES = {-1: "CIF_TRAVERSE_SKIP_CURRENT", -2: "CIF_TRAVERSE_SKIP_SIBLINGS"}
CONTRACT_FUNCS = ("parse_container", "parse_item", "parse_loop", "parse_loop_packets")


def worlds(prog):
    w = getattr(prog, "_parser_worlds", None)
    if w is None:
        w = prog._parser_worlds = {"storing": parserai.ParserAnalysis(prog, "nn"),
                                   "syntax-only": parserai.ParserAnalysis(prog, "null")}
    return w


def not_skipping(av):
    return av is not None and av.hi is not None and av.hi <= 0


def run(prog, chk):
    chk.level = "other"
    chk.explanation = ("Context-sensitive abstract interpretation of the recursive-descent productions over the skip depth "
                       "(interval domain, contexts = nullness of the storage parameters x entry depth, discovered from the call "
                       "sites starting at parse_cif with depth 0, in storing and in syntax-only mode): every handler / syntax "
                       "callback and every storing call is reached only with depth <= 0; the set of handler and syntax "
                       "callback sites reachable does not depend on the presence of a target CIF; each production leaves the "
                       "depth as its contract says; depth stores have the directive-driven form.  Does not decide document "
                       "order or argument values of the callbacks.")
    W = worlds(prog)
    for name, a in W.items():
        for key, it in a.runs.items():
            if it.overflow:
                chk.fail_broken("parser analysis did not reach a fixpoint for %s in %s mode" % (key[0], name))

    def collect(kinds):
        sites = {}
        for wname, a in W.items():
            for fname, ctx, kind, what, node, skip, st in a.observations(kinds):
                e = sites.setdefault((fname, what, node["id"]), {"node": node, "worlds": set(), "skips": set(), "bad": []})
                e["worlds"].add(wname)
                e["skips"].add(str(skip))
                if not not_skipping(skip):
                    e["bad"].append((wname, ctx, skip, st))
        return sites

    r1 = chk.rule("R1-no-callback-while-skipping", "every handler callback (except cif start/end) and the keyword / data-name "
                  "syntax callbacks are reached only with skip_depth <= 0", floor=8)
    hs = collect(("handler", "syntax"))
    n = 0
    for (fname, what, nid), e in sorted(hs.items(), key=lambda kv: (kv[0][0], kv[1]["node"].get("l"))):
        if what in ("handle_cif_start", "handle_cif_end", "whitespace_callback"):
            continue
        n += 1
        fn = prog.fn(fname)
        key = "%s:%s" % (fname, what)
        if e["bad"]:
            wname, ctx, skip, st = e["bad"][0]
            r1.violation(fn.file, fname, e["node"].get("l"), "callback-while-skipping:" + key,
                         "%s is invoked in a configuration with skip_depth %s (entry context %s, %s mode): entities being "
                         "skipped are still reported" % (what, skip, ctx_str(ctx), wname),
                         path=["L%s" % x for x in st.trail_lines()])
        else:
            r1.ok(key + "@L%s" % e["node"].get("l"), "skip_depth in %s on all configurations" % sorted(e["skips"]))
    if n < 8:
        raise Broken("only %d handler/syntax callback sites observed" % n)

    r2 = chk.rule("R2-no-storage-while-skipping", "every storing call of the parser is reached only with skip_depth <= 0", floor=4)
    ss = collect(("store",))
    for (fname, what, nid), e in sorted(ss.items(), key=lambda kv: (kv[0][0], kv[1]["node"].get("l"))):
        fn = prog.fn(fname)
        key = "%s:%s" % (fname, what)
        if e["bad"]:
            wname, ctx, skip, st = e["bad"][0]
            r2.violation(fn.file, fname, e["node"].get("l"), "store-while-skipping:" + key,
                         "%s is called in a configuration with skip_depth %s (entry context %s)" % (what, skip, ctx_str(ctx)),
                         path=["L%s" % x for x in st.trail_lines()])
        else:
            r2.ok(key + "@L%s" % e["node"].get("l"), "skip_depth <= 0 on all configurations")
    # every storing call the parser contains was observed (none hidden in an unanalysed function)
    for fn in prog.all_functions():
        if fn.unit != "parser.c":
            continue
        for (b, i, r, c) in fn.calls():
            if c.get("callee") in parserai.STORING_CALLS and (fn.name, c["callee"], c["id"]) not in ss:
                r2.violation(fn.file, fn.name, c.get("l"), "store-not-analysed:%s:%s" % (fn.name, c["callee"]),
                             "storing call outside the analysed productions")

    r3 = chk.rule("R3-same-callbacks-in-syntax-only-mode", "the handler and syntax callback sites reachable with a target CIF "
                  "are reachable without one (only storing calls may depend on the target)", floor=8)
    for (fname, what, nid), e in sorted(hs.items(), key=lambda kv: (kv[0][0], kv[1]["node"].get("l"))):
        fn = prog.fn(fname)
        key = "%s:%s" % (fname, what)
        if "storing" in e["worlds"] and "syntax-only" not in e["worlds"]:
            r3.violation(fn.file, fname, e["node"].get("l"), "callback-needs-target:" + key,
                         "%s at L%s is reachable only when a target CIF/container is present: syntax-only parses do not "
                         "deliver it" % (what, e["node"].get("l")))
        else:
            r3.ok(key + "@L%s" % e["node"].get("l"), "reachable in %s" % sorted(e["worlds"]))

    # error callbacks: syntax errors are reported with or without a target; only the duplicate-name / duplicate-code
    # diagnostics (which need the stored content) and codes handed on from a storing call may depend on it
    es = collect(("error",))
    n_err = 0
    for (fname, what, nid), e in sorted(es.items(), key=lambda kv: (kv[0][0], kv[1]["node"].get("l"))):
        if what == "?" or what.startswith("CIF_DUP_"):
            continue                # a code received from a storing call / a documented semantic diagnostic
        n_err += 1
        fn = prog.fn(fname)
        key = "%s:error:%s" % (fname, what)
        if "storing" in e["worlds"] and "syntax-only" not in e["worlds"]:
            r3.violation(fn.file, fname, e["node"].get("l"), "error-needs-target:" + key,
                         "the syntax error %s at L%s is reported only when a target CIF/container is present: a syntax-only parse "
                         "(and a parse that is skipping the enclosing container) accepts the document without it"
                         % (what, e["node"].get("l")))
        else:
            r3.ok(key + "@L%s" % e["node"].get("l"), "reported in %s" % sorted(e["worlds"]))
    if n_err < 15:
        raise Broken("only %d error-callback sites with a literal code observed in the productions" % n_err)

    r4 = chk.rule("R4-depth-bookkeeping", "each production returns with the skip depth its contract states (entered skipping: "
                  "unchanged; entered at 0: 0 or 1); depth stores are `= 1|2` under a SKIP directive label, `+= 1` / `-= 1` "
                  "only under `skip_depth > 0`", floor=8)
    a = W["storing"]
    for (fname, ctx), it in sorted(a.runs.items(), key=str):
        if fname not in CONTRACT_FUNCS + ("parse_cif",):
            continue
        k = ctx[1]
        if k is None or not k.is_const() or k.value() > 2:
            continue            # deeper entries are instances of the same code paths; widening would blur them
        fn = prog.fn(fname)
        bad = None
        n_ex = 0
        for st, av, node in it.exits:
            if av is not None and av.nonzero():
                continue            # the parse is being aborted: depth is irrelevant
            n_ex += 1
            s = st.sigma.get(SKIP)
            if k.is_const() and k.value() > 0:
                okk = s is not None and s.is_const() and s.value() == k.value()
                want = "= %d" % k.value()
            elif k.is_const():
                okk = s is not None and s.lo is not None and s.lo >= 0 and s.hi is not None and s.hi <= 1 \
                    or (s is not None and s.hi is not None and s.hi <= 1)
                want = "in {0, 1}"
            else:
                okk = s is not None and s.lo is not None and s.lo >= 1
                want = ">= 1"
            if not okk:
                bad = (st, s, want, node)
                break
        key = "%s[%s]" % (fname, ctx_str(ctx))
        if bad:
            st, s, want, node = bad
            r4.violation(fn.file, fname, node.get("l") if node else fn.endline, "depth-contract:%s:entry=%s" % (fname, k),
                         "entered with skip_depth %s, a non-failing exit leaves it %s (contract: %s)" % (k, s, want),
                         path=["L%s" % x for x in st.trail_lines()])
        else:
            r4.ok(key, "%d non-failing exits honour the contract" % n_ex)
    r4.info("parse_loop_packets", "loop-carried pairing keyed on column_index: the analysis follows the column index as "
            "first (0) / later (>= 1) to pair the first-value increment with the last-value decrement")
    direct = a.direct_writers
    for fname in sorted(direct):
        fn = prog.fn(fname)
        for (b, i, r, nn) in fn.eval_sites("asg"):
            if not (path(strip(nn.get("lhs"))) or "").endswith("skip_depth"):
                continue
            op = nn.get("op")
            c = const(nn.get("rhs"))
            rr = strip(nn.get("rhs"))
            if c is None and isinstance(rr, dict) and rr.get("k") == "cond" and const(rr.get("then")) in (1, 2) \
                    and const(rr.get("else")) in (1, 2):
                c = const(rr.get("then"))      # `d == SIBLINGS ? 2 : 1`: either arm has the directive-driven form
            key = "%s:skip_depth %s %s@L%s" % (fname, op, c, nn.get("l"))
            if op == "=":
                if c == 0 and "INIT_V2_SCANNER" in (nn.get("ms") or []):
                    r4.ok(key, "scanner initialisation")
                    continue
                labels = [(x.id, -1) for x in fn.blocks.values() if x.label and x.label.get("k") == "case" and x.label.get("v") in SKIP_DIRECTIVES]
                # the same selection written as a comparison: `x == CIF_TRAVERSE_SKIP_*` (true outcome)
                def is_skip(cnd):
                    t = cfgq.cmp_test(cnd, lambda e: path(strip(e)) is not None or strip(e).get("k") in ("asg", "call"))
                    if t and t[1] in SKIP_DIRECTIVES:
                        return "true" if t[0] == "==" else ("false" if t[0] == "!=" else None)
                    return None
                skip_edges = cfgq.guard_edges(fn, is_skip)
                if c in (1, 2) and labels and (b.label and b.label.get("v") in SKIP_DIRECTIVES or cfgq.must_precede(fn, (b.id, i), labels)):
                    r4.ok(key, "under a SKIP directive case label")
                elif c in (1, 2) and skip_edges and cfgq.must_pass_edge(fn, b.id, skip_edges):
                    r4.ok(key, "under a comparison with a SKIP directive")
                else:
                    r4.violation(fn.file, fname, nn.get("l"), "depth-store-form:" + key,
                                 "skip_depth is assigned %s outside a SKIP_CURRENT/SKIP_SIBLINGS case" % c)
            elif op in ("+=", "-=") and c == 1:
                def gt0(cnd):
                    t = cfgq.cmp_test(cnd, lambda e: (path(strip(e)) or "").endswith("skip_depth"))
                    if t in ((">", 0), (">=", 1)):
                        return "true"
                    if t in (("<=", 0), ("<", 1)):
                        return "false"
                    return None
                edges = cfgq.guard_edges(fn, gt0)
                direct_pred = any((p, idx) in edges for p in b.preds for idx, s in enumerate(fn.blocks[p].succs) if s == b.id)
                if direct_pred:
                    r4.ok(key, "guarded by skip_depth > 0")
                else:
                    r4.violation(fn.file, fname, nn.get("l"), "depth-store-form:" + key,
                                 "skip_depth %s 1 is not immediately guarded by skip_depth > 0" % op)
            else:
                r4.violation(fn.file, fname, nn.get("l"), "depth-store-form:" + key, "unexpected store to skip_depth")
    directive_scope(prog, chk, a)
    null_target_rule(prog, chk, "R9")
    r5 = chk.rule("R5-handler-directives", "CIF_TRAVERSE_END and positive (error) handler results leave the production without "
                  "further scanning, storing or callbacks and are returned unchanged (END becomes CIF_OK in parse_cif)", floor=8)
    from . import c03
    prop, res = c03.analysis(prog)
    c03.verdict_rule(prog, r5, ("handler",), res)
    skip_noninterference(prog, chk)
    chk.extra_cov["contexts"] = {w: len(a2.runs) for w, a2 in W.items()}
    chk.extra_cov["skip_depth_writers"] = sorted(a.writers)


# the element whose start/end the production itself reports: a SKIP_SIBLINGS answer from one of these handlers is the only
# directive whose effect outlasts the production (its caller skips the rest of the parent)
OWN_HANDLERS = {"parse_container": ("handle_block_start", "handle_block_end", "handle_frame_start", "handle_frame_end"),
                "parse_item": ("handle_item",),
                "parse_loop": ("handle_loop_start", "handle_loop_end"),
                "parse_loop_packets": ("handle_packet_start", "handle_packet_end")}


def store_directives(fn, b):
    """The SKIP directives under which block b's depth store executes: case labels (with fall-through) or the outcome of
    a comparison with a directive constant.  None if that cannot be told."""
    heads = _switch_heads(fn)
    out = set()
    for lab in fn.blocks.values():
        if not (lab.label and lab.label.get("k") == "case" and lab.label.get("v") in SKIP_DIRECTIVES):
            continue
        # to come back to a store of the same switch from another arm, control has to pass the switch head again
        if lab.id == b.id or b.id in cfgq.reach(fn, [lab.id], barrier_blocks=heads):
            out.add(lab.label["v"])
    if out:
        return out

    def sel(v):
        def is_v(cnd):
            t = cfgq.cmp_test(cnd, lambda e: path(strip(e)) is not None or strip(e).get("k") in ("asg", "call"))
            if t and t[1] == v:
                return "true" if t[0] == "==" else ("false" if t[0] == "!=" else None)
            return None
        return is_v
    for v in SKIP_DIRECTIVES:
        edges = cfgq.guard_edges(fn, sel(v))
        if edges and cfgq.must_pass_edge(fn, b.id, edges):
            out.add(v)
    return out or None


def _switch_heads(fn):
    return {b.id for b in fn.blocks.values() if b.term and b.term.get("k") in ("switch", "SwitchStmt")}


def directive_scope(prog, chk, a):
    r8 = chk.rule("R8-directive-scope", "a production entered not skipping is left skipping (depth 1) exactly when the last depth "
                  "store on the path answered SKIP_SIBLINGS from a handler of the production's own element (the caller then "
                  "skips the rest of the parent); every other directive - SKIP_CURRENT, or SKIP_SIBLINGS of a child element "
                  "such as an item within a packet - has been consumed by the time the production returns (depth 0)", floor=12)
    from ..parserai import GH_S, GH_SH, GH_D, HANDLER_FIELDS
    for (fname, ctx), it in sorted(a.runs.items(), key=str):
        if fname not in OWN_HANDLERS:
            continue
        k = ctx[1]
        if k is None or not k.is_const() or k.value() != 0:
            continue
        fn = prog.fn(fname)
        stores = {n.get("id"): (b, n) for (b, i, r, n) in fn.eval_sites("asg")
                  if (path(strip(n.get("lhs"))) or "").endswith("skip_depth") and n.get("op") == "="}
        seen = {}
        for st, av, node in it.exits:
            if av is not None and av.nonzero():
                continue
            s = st.sigma.get(SKIP)
            if s is None or not s.is_const():
                continue                       # R4 reports an exit whose depth is not 0 or 1
            g = st.sigma.get(GH_S)
            h = st.sigma.get(GH_SH)
            dd = st.sigma.get(GH_D)
            gk = (g.value() if g is not None and g.is_const() else None, h.value() if h is not None and h.is_const() else None,
                  dd.value() if dd is not None and dd.is_const() else None)
            seen.setdefault((gk, s.value()), (st, node))
        for (gk, depth), (st, node) in sorted(seen.items(), key=str):
            gid, hidx, held = gk
            if gid is None:
                want, why, key = 0, "no depth store on the path", "%s:no-store" % fname
            elif gid == -1:
                want, why, key = 0, "left skipping by a callee (a child's directive): consumed at the element's end", \
                    "%s:callee" % fname
            else:
                if gid not in stores or hidx is None:
                    r8.info("%s:store#%s" % (fname, gid), "store or handler not identified: no verdict")
                    continue
                b, n = stores[gid]
                dirs = store_directives(fn, b)
                hname = HANDLER_FIELDS[hidx]
                key = "%s:%s:L%s" % (fname, hname, n.get("l"))
                if dirs and len(dirs) > 1 and held in dirs:
                    dirs = {held}           # arms sharing the store: the path knows which directive it came with
                    key += ":" + SKIP_DIRECTIVES[held].replace("CIF_TRAVERSE_", "")
                if not dirs or len(dirs) != 1:
                    r8.info(key, "directive of the store not unique (%s): no verdict" % sorted(dirs or []))
                    continue
                d = next(iter(dirs))
                if d == -2 and hname in OWN_HANDLERS[fname]:
                    want, why = 1, "SKIP_SIBLINGS answered by %s, the production's own element" % hname
                elif d == -2:
                    want, why = 0, "SKIP_SIBLINGS answered by %s, a child element: it ends with the enclosing one" % hname
                else:
                    want, why = 0, "SKIP_CURRENT answered by %s" % hname
            if depth != want:
                r8.violation(fn.file, fname, (stores[gid][1].get("l") if gid in stores else (node.get("l") if node else fn.endline)),
                             "directive-scope:" + key,
                             "%s; the production must return with skip_depth %d but a non-failing exit leaves it %d"
                             % (why, want, depth), path=["L%s" % x for x in st.trail_lines()])
            else:
                r8.ok(key + "[%s]" % ctx_str(ctx), "%s: depth %d at the exit" % (why, depth))


def null_target_rule(prog, chk, rid, primary=True):
    """No storing call is reached with a NULL handle: in syntax-only mode (no target CIF) containers and loops are NULL in
    every production, and a loop is NULL in storing mode when its creation was tolerated as CIF_NULL_LOOP; the storing
    functions dereference their handle before any check."""
    r9 = chk.rule(rid + "-no-storing-call-on-a-null-handle", "in every context of the parser analysis (storing and syntax-only mode, "
                  "container / loop present or NULL) each storing call that is reachable receives a handle the analysis does not "
                  "know to be NULL: the recovery and skip paths keep the `!= NULL` guards of the ordinary paths",
                  primary=primary, floor=6)
    W = worlds(prog)
    sites = {}
    for wname, a in W.items():
        for (fname, ctx), it in a.runs.items():
            fn = prog.fn(fname)
            for (b, i, r, c) in fn.calls():
                if c.get("callee") in parserai.STORING_CALLS:
                    sites.setdefault((fname, c.get("callee"), c.get("l")), None)
        for fname, ctx, kind, what, node, skip, st in a.observations(("store",)):
            args = node.get("args", [])
            h = path(strip(args[0])) if args else None
            v = st.sigma.get(h) if h else None
            if v is not None and v.is_const() and v.value() == 0:
                sites[(fname, what, node.get("l"))] = (wname, ctx, h, st, node)
    for (fname, what, line), bad in sorted(sites.items(), key=str):
        fn = prog.fn(fname)
        key = "%s:%s@L%s" % (fname, what, line)
        if bad:
            wname, ctx, h, st, node = bad
            r9.violation(fn.file, fname, line, "storing-call-on-null-handle:%s:%s" % (fname, what),
                         "%s is reached with `%s` NULL (%s mode, context %s): it dereferences the handle before any check"
                         % (what, h, wname, ctx_str(ctx)), path=["L%s" % x for x in st.trail_lines()][-25:])
        else:
            r9.ok(key, "never reached with a NULL handle")


def ctx_str(ctx):
    params, skip = ctx
    return ",".join("%s=%s" % p for p in params) + ";depth %s" % (skip,)


def _is_errcb(n):
    return n.get("k") == "call" and n.get("callee") is None and n.get("fn") is not None \
        and (path(strip(n["fn"])) or "").endswith("error_callback")


def skip_noninterference(prog, chk):
    """R6: skipping suppresses callbacks and storage, not syntax checking.  A bookkeeping local of a parser production
    (never assigned from a call result: flags, counters, cursors) whose value decides whether an error is reported must
    therefore be maintained identically whether or not the parser is skipping: none of its assignments may be reachable
    only through one outcome of a test of skip_depth."""
    r7 = chk.rule("R7-skipping-directives-consumed", "no production hands CIF_TRAVERSE_SKIP_CURRENT / SKIP_SIBLINGS received from a "
                  "handler up to its caller: they are acted upon where they are answered (A1 may-return analysis with handler "
                  "calls as the only sources)", primary=False, floor=8)
    from .. import eofsentinel
    if eofsentinel.directive_rule(prog, r7) < 8:
        raise Broken("fewer than 8 (production, directive) pairs analysed")

    r6 = chk.rule("R6-error-state-independent-of-skipping", "no bookkeeping variable that decides an error report is assigned only "
                  "under one outcome of a skip_depth test", floor=6)
    n_vars = 0
    for fn in prog.all_functions():
        if fn.unit != "parser.c":
            continue
        errs = [(b.id, i, n) for (b, i, r, n) in fn.eval_sites("call") if _is_errcb(n)]
        if not errs:
            continue
        skiptests = [blk.id for blk in fn.blocks.values()
                     if len(blk.succs) == 2 and cfgq.cond_of(fn, blk) is not None
                     and any((path(x) or "").endswith("skip_depth") for x in walk(cfgq.cond_of(fn, blk)))]
        locs = {l["name"] for l in fn.locals}
        asg = {}
        from_call = set()
        for (b, i, r, n) in fn.eval_sites():
            p = None
            rhs = None
            if n.get("k") == "asg":
                p, rhs = path(strip(n.get("lhs"))), n.get("rhs")
            elif n.get("k") == "un" and n.get("op") in ("post++", "post--", "pre++", "pre--"):
                p = path(strip(n.get("e")))
            elif n.get("k") == "un" and n.get("op") == "&":
                q = path(strip(n.get("e")))
                if q in locs:
                    from_call.add(q)        # address taken: may be written by a callee
                continue
            if p not in locs:
                continue
            asg.setdefault(p, []).append((b.id, i, n))
            if rhs is not None and any(x.get("k") == "call" for x in walk(rhs)):
                from_call.add(p)
        for v in sorted(set(asg) - from_call):
            sites = set()
            for blk in fn.blocks.values():
                c = cfgq.cond_of(fn, blk)
                if c is None or len(blk.succs) < 2 or not any(x.get("k") == "ref" and path(x) == v for x in walk(c)):
                    continue
                for idx in range(len(blk.succs)):
                    for (eb, ei, en) in errs:
                        if cfgq.must_pass_edge(fn, eb, [(blk.id, idx)]):
                            sites.add(en.get("l"))
            if not sites:
                continue
            n_vars += 1
            bad = None
            for (ab, ai, an) in asg[v]:
                for t in skiptests:
                    for idx in (0, 1):
                        if cfgq.must_pass_edge(fn, ab, [(t, idx)]):
                            if bad is None or (fn.blocks[t].term.get("l") or 0) > (fn.blocks[bad[1]].term.get("l") or 0):
                                bad = (an, t, idx)
            key = "%s:%s" % (fn.name, v)
            if bad:
                an, t, idx = bad
                r6.violation(fn.file, fn.name, an.get("l"), "error-state-under-skip:%s:%s" % (fn.name, v),
                             "`%s` decides whether the error(s) at L%s are reported, but its assignment at L%s is reached only "
                             "through the %s outcome of the skip_depth test at L%s: while skipping the variable is not maintained, "
                             "so a well-formed but skipped construct is diagnosed differently from an unskipped one"
                             % (v, sorted(sites), an.get("l"), "true" if idx == 0 else "false", fn.blocks[t].term.get("l")))
            else:
                r6.ok(key, "decides error site(s) L%s; %d assignment(s), none under a skip test" % (sorted(sites), len(asg[v])))
    if n_vars < 6:
        raise Broken("only %d error-deciding bookkeeping variables found in parser.c" % n_vars)
